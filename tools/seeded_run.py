#!/usr/bin/env python3
"""Run the checks against the seeded property-breaking changes kept under /verif/seeded/<id>/.

For each seeded change: make a scratch git worktree of /repo (outside /repo and /verif), apply
patch.diff, run the demonstration (must fail) and the check of the property it breaks (quick tier,
optionally thorough) with VERIF_REPO pointing at the worktree, record the outcome in
seeded/<id>/result.json, remove the worktree.  Evidence/replay files of these runs go to a scratch
directory so that /verif/evidence keeps describing runs against /repo itself.

usage: tools/seeded_run.py [--tier quick|thorough] [--all-checks] [id ...]
"""
import os, sys, json, subprocess, shutil, tempfile, re, time
ROOT = os.path.dirname(os.path.dirname(os.path.abspath(__file__)))

def sh(cmd, **kw):
    return subprocess.run(cmd, capture_output=True, text=True, **kw)

def main():
    args = sys.argv[1:]
    tier = "quick"
    if "--tier" in args:
        i = args.index("--tier"); tier = args[i + 1]; del args[i:i + 2]
    all_checks = "--all-checks" in args
    if all_checks: args.remove("--all-checks")
    claimed = [c["property_id"] for c in json.load(open(os.path.join(ROOT, "MANIFEST.json")))["checks"]]
    if "--unclaimed" in args:   # also run checks that exist but are not (yet) claimed in MANIFEST.json
        args.remove("--unclaimed")
        claimed = sorted(f[:-3].upper() for f in os.listdir(os.path.join(ROOT, "vlib", "checks")) if f.startswith("c") and f.endswith(".py"))
    ids = args or sorted(d for d in os.listdir(os.path.join(ROOT, "seeded")) if os.path.isdir(os.path.join(ROOT, "seeded", d)))
    summary = []
    for sid in ids:
        d = os.path.join(ROOT, "seeded", sid)
        meta = json.load(open(os.path.join(d, "meta.json")))
        wt = tempfile.mkdtemp(prefix=f"seedrun_{sid}_", dir="/tmp")
        os.rmdir(wt)
        scratch = tempfile.mkdtemp(prefix=f"seedout_{sid}_", dir="/tmp")
        try:
            r = sh(["git", "-C", "/repo", "worktree", "add", "--detach", "-q", wt, "HEAD"])
            if r.returncode: raise RuntimeError(r.stderr)
            r = sh(["git", "-C", wt, "apply", os.path.join(d, "patch.diff")])
            if r.returncode: raise RuntimeError("patch does not apply: " + r.stderr)
            res = {"id": sid, "property": meta["property"], "tier": tier, "repo_head": sh(["git", "-C", "/repo", "rev-parse", "HEAD"]).stdout.strip(), "checks": {}}
            demo = os.path.join(d, "demo.py")
            if os.path.exists(demo):
                shutil.copy(demo, os.path.join(wt, "_demo.py"))
                dr = sh(["/venv/bin/python", "-B", "_demo.py"], cwd=wt, timeout=1800, env={**os.environ, "TQDM_DISABLE": "1", "PYTHONDONTWRITEBYTECODE": "1"})
                res["demo_exit_with_patch"] = dr.returncode
            props = claimed if all_checks else [meta["property"]] + [p for p in meta.get("also_run", [])]
            for prop in props:
                if prop not in claimed:
                    res["checks"][prop] = {"exit": None, "note": "not claimed"}
                    continue
                env = {**os.environ, "VERIF_REPO": wt, "VERIF_EVIDENCE_DIR": scratch, "VERIF_REPLAY_DIR": scratch}
                t0 = time.time()
                cr = sh([os.path.join(ROOT, "check"), prop, "--tier", tier], cwd=ROOT, env=env, timeout=7200)
                mech = sorted(set(re.findall(r"mechanism=(\S+)", cr.stdout)))
                res["checks"][prop] = {"exit": cr.returncode, "mechanisms": mech, "wall_s": round(time.time() - t0, 1),
                                       "violation_lines": len(re.findall(r"^VIOLATION ", cr.stdout, flags=re.M)),
                                       "tail": cr.stdout[-600:] if cr.returncode not in (0, 1) else ""}
            res["caught"] = any(v.get("exit") == 1 for v in res["checks"].values())
            json.dump(res, open(os.path.join(d, "result.json"), "w"), indent=1)
            summary.append((sid, meta["property"], res["caught"], {p: (v["exit"], v.get("mechanisms")) for p, v in res["checks"].items()}))
            print(sid, meta["property"], "CAUGHT" if res["caught"] else "MISSED", summary[-1][3], flush=True)
        except Exception as e:  # noqa
            print(sid, "ERROR", e, flush=True)
        finally:
            sh(["git", "-C", "/repo", "worktree", "remove", "--force", wt])
            shutil.rmtree(wt, ignore_errors=True)
            shutil.rmtree(scratch, ignore_errors=True)
    sh(["git", "-C", "/repo", "worktree", "prune"])
    print("caught %d / %d" % (sum(1 for s in summary if s[2]), len(summary)))

if __name__ == "__main__":
    main()
