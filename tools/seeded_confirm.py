#!/usr/bin/env python3
"""Confirms every seeded change under /verif/seeded/<id>/ against /repo's current HEAD in a scratch worktree:
  demo.py exits 0 without the patch, the patch applies, demo.py exits non-zero with it, and the
  repository's unedited test-suite still passes with it (same passed count as the baseline).
Writes seeded/<id>/confirm.json.   usage: tools/seeded_confirm.py [-j N] [--no-suite] [id ...]"""
import os, sys, json, subprocess, shutil, tempfile, re
from concurrent.futures import ThreadPoolExecutor
ROOT = os.path.dirname(os.path.dirname(os.path.abspath(__file__)))
ENV = {**os.environ, "TQDM_DISABLE": "1", "PYTHONDONTWRITEBYTECODE": "1", "OMP_NUM_THREADS": "1",
       "OPENBLAS_NUM_THREADS": "1", "MKL_NUM_THREADS": "1", "MPLBACKEND": "Agg"}

def sh(cmd, **kw):
    return subprocess.run(cmd, capture_output=True, text=True, **kw)

def one(sid, suite=True):
    d = os.path.join(ROOT, "seeded", sid)
    wt = tempfile.mkdtemp(prefix=f"seedconf_{sid}_", dir="/tmp"); os.rmdir(wt)
    out = {"id": sid, "repo_head": sh(["git", "-C", "/repo", "rev-parse", "HEAD"]).stdout.strip()}
    try:
        r = sh(["git", "-C", "/repo", "worktree", "add", "--detach", "-q", wt, "HEAD"])
        if r.returncode: raise RuntimeError(r.stderr)
        shutil.copy(os.path.join(d, "demo.py"), os.path.join(wt, "_demo.py"))
        out["demo_exit_without_patch"] = sh(["/venv/bin/python", "-B", "_demo.py"], cwd=wt, env=ENV, timeout=3600).returncode
        r = sh(["git", "-C", wt, "apply", os.path.join(d, "patch.diff")])
        out["patch_applies"] = r.returncode == 0
        if r.returncode:
            out["apply_error"] = r.stderr[-400:]
            return out
        out["demo_exit_with_patch"] = sh(["/venv/bin/python", "-B", "_demo.py"], cwd=wt, env=ENV, timeout=3600).returncode
        if suite:
            os.remove(os.path.join(wt, "_demo.py"))
            r = sh(["/venv/bin/python", "-m", "pytest", "-q", "-p", "no:cacheprovider", "--timeout=1800", "tests"], cwd=wt, env=ENV, timeout=7200)
            tail = [l for l in r.stdout.strip().splitlines() if "passed" in l or "failed" in l or "error" in l.lower()]
            out["suite_summary"] = tail[-1] if tail else r.stdout[-200:]
            m = re.search(r"(\d+) passed", out["suite_summary"])
            out["suite_passed"] = int(m.group(1)) if m else None
            out["suite_ok"] = bool(m) and not re.search(r"\d+ (failed|error)", out["suite_summary"]) and int(m.group(1)) == 1506
        out["confirmed"] = out["demo_exit_without_patch"] == 0 and out["demo_exit_with_patch"] != 0 and (out.get("suite_ok", True))
    except Exception as e:  # noqa
        out["error"] = repr(e)
    finally:
        sh(["git", "-C", "/repo", "worktree", "remove", "--force", wt]); shutil.rmtree(wt, ignore_errors=True)
        json.dump(out, open(os.path.join(d, "confirm.json"), "w"), indent=1)
        print(sid, {k: out.get(k) for k in ("patch_applies", "demo_exit_without_patch", "demo_exit_with_patch", "suite_passed", "confirmed", "error")}, flush=True)
    return out

def main():
    args = sys.argv[1:]
    j = 6
    if "-j" in args:
        i = args.index("-j"); j = int(args[i + 1]); del args[i:i + 2]
    suite = "--no-suite" not in args
    if not suite: args.remove("--no-suite")
    ids = args or sorted(x for x in os.listdir(os.path.join(ROOT, "seeded")) if os.path.isdir(os.path.join(ROOT, "seeded", x)))
    with ThreadPoolExecutor(j) as ex:
        res = list(ex.map(lambda s: one(s, suite), ids))
    sh(["git", "-C", "/repo", "worktree", "prune"])
    print("confirmed %d / %d" % (sum(1 for r in res if r.get("confirmed")), len(res)))

if __name__ == "__main__":
    main()
