#!/usr/bin/env python3
"""import_seeds.py <PID> <out_dir> <first_index>: copy <out_dir>/m1,m2 into seeded/<PID>-m<first_index>, ..."""
import sys, os, shutil, json
ROOT = os.path.dirname(os.path.dirname(os.path.abspath(__file__)))
pid, out, first = sys.argv[1], sys.argv[2], int(sys.argv[3])
k = first
for m in sorted(os.listdir(out)):
    src = os.path.join(out, m)
    if not (os.path.isdir(src) and os.path.exists(os.path.join(src, "patch.diff"))):
        continue
    dst = os.path.join(ROOT, "seeded", f"{pid}-m{k}")
    os.makedirs(dst, exist_ok=True)
    for f in ("patch.diff", "demo.py", "meta.json"):
        shutil.copy(os.path.join(src, f), os.path.join(dst, f))
    meta = json.load(open(os.path.join(dst, "meta.json")))
    meta.setdefault("property", pid); meta["round"] = 2 if first > 2 else 1
    json.dump(meta, open(os.path.join(dst, "meta.json"), "w"), indent=1)
    print("imported", dst)
    k += 1
