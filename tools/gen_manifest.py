#!/usr/bin/env python3
"""Regenerates /verif/MANIFEST.json from the table below and validates it against the schema.
A property is claimed iff vlib/checks/cNN.py exists and it is listed in CLAIMED."""
import json, os, sys
ROOT = os.path.dirname(os.path.dirname(os.path.abspath(__file__)))

BASELINE_CMD = ("cd /repo && env -u CUQIPY_VERIF TQDM_DISABLE=1 /venv/bin/python -m pytest -ra -q -p no:cacheprovider "
                "--timeout=900 --continue-on-collection-errors --junitxml=/tmp/cuqipy_baseline_off.junit.xml")

# id -> (technique, level text, level note, design ref)
TABLE = {
 "C01": ("metamorphic + reference-model monitor at the logd call boundary over generated conditioning programs",
         "Held on the generated model graphs x conditioning programs of each run: every reduced object's logd is compared with the joint logd of the full assignment and with an independent closed-form sum of factor log-densities; malformed calls must be refused. Exploration, because graphs/values are sampled.",
         "reference log-density formulas in vlib/refs (scipy.special only); numpy/scipy trusted", "DESIGN.md §2 C01"),
 "C02": ("scripted random stream (proposal noise + accept uniform) turning the MH acceptance into a deterministic threshold test; stationarity law test as second line",
         "Per transition: the proposal map actually implemented is identified from the recorded target evaluations, the reference MH ratio is computed by the harness and the step is replayed with u just below / just above it; caches checked after accept and reject; NaN/-inf never accepted. Exploration over sampled targets, states, scales and histories.",
         "harness-owned target densities; numpy global random API interposed by attribute replacement", "DESIGN.md §2 C02"),
 "C03": ("postcondition on every gradient() call: result vs Richardson central difference of the same object's logd",
         "Held on the generated family x parameter-form x model x geometry configurations and points of each run; refusals are accepted, silent wrong values are not. Exploration.",
         "finite-difference error estimate (step halving) bounds the tolerance", "DESIGN.md §2 C03"),
 "C04": ("reference closed forms + adaptive quadrature + equivalence of Gaussian parameterisations observed at logpdf/pdf/cdf/logd",
         "Held on the generated family x form x dimension configurations (both sides of the sparse switch) and evaluation points of each run. Exploration.",
         "closed forms in vlib/refs self-tested against scipy.stats at start-up; quadrature error estimates", "DESIGN.md §2 C04"),
 "C05": ("affine read-off of Gaussian-type samplers under a scripted normal stream vs the object's own log-density Hessian; determinism/global-state monitor; KS law tests vs the object's own cdf/pdf",
         "Held on the generated samplable families/forms; statistical part two-stage with p<1e-7. Exploration.",
         "two-stage statistical rule bounds the false-alarm probability per run below 1e-9", "DESIGN.md §2 C05"),
 "C06": ("scripted normal perturbation: next state read off as affine map and compared with closed-form posterior mean/covariance",
         "Held on generated linear-Gaussian posteriors (sizes, Gaussian forms, 1-3 likelihoods, both interfaces) with the inner solver forced to convergence. Exploration.",
         "dense reference algebra with numpy.linalg; CGLS run to tol 1e-14", "DESIGN.md §2 C06"),
 "C07": ("inner-product identity, column-by-column matrix and transpose monitors on every constructed LinearModel",
         "Held on generated matrix/function models x geometries and all shipped linear test problems over their option grid. Exploration (option grid enumerated, vectors sampled).",
         "recording proxies around the user callables; geometry maps taken from the library", "DESIGN.md §2 C07"),
 "C08": ("evaluation-trace monitor vs reference leapfrog orbit and Hoffman-Gelman tree under a scripted random stream; enumerated transition law; stationarity tests",
         "Held on generated targets x step sizes x depths for both implementations. Exploration; distributional claims are finite-sample with stated power.",
         "reference integrator/tree written from Hoffman & Gelman 2014, self-tested for reversibility and volume preservation", "DESIGN.md §2 C08"),
 "C09": ("offline checker of the recorded sweep log against the sequential-scan model; cache-consistency invariant; law test after sweeps from exact joint draws",
         "Held on generated block structures x sampler assignments x step counts for both Gibbs samplers. Exploration.",
         "event log taken at the target call boundary and around each block sampler's step", "DESIGN.md §2 C09"),
 "C10": ("captured Gamma draw parameters vs the target's own log-density along the hyper-parameter axis; refusal monitor for unsupported structures",
         "Held on generated conjugate pairs (all GMRF bc x order), data and Gamma parameters, both interfaces. Exploration.",
         "pass-through recorder on Gamma sampling", "DESIGN.md §2 C10"),
 "C11": ("behavioural fingerprints of originals before/after generated operation sequences (history monitor)",
         "Held on generated interleavings of condition/logd/gradient/sample/to_likelihood/model application/sampler runs incl. a long Gibbs-like loop. Exploration.",
         "fingerprint = names, flags, logd/gradient at fixed probes, seeded samples", "DESIGN.md §2 C11"),
 "C12": ("representation-equivalence and finite-difference Jacobian monitors at Model.forward/gradient",
         "Held on generated models x geometries x input representations. Exploration.",
         "central differences with error estimate", "DESIGN.md §2 C12"),
 "C13": ("round-trip, partition, column-wise and shape monitors on every geometry class; StepExpansion (n_grid,n_steps) enumerated exhaustively up to a bound",
         "Held on all geometry classes with generated grids and batches; the StepExpansion partition sub-space is enumerated completely for n_grid <= bound. Exploration.",
         "numpy trusted", "DESIGN.md §2 C13"),
 "C14": ("history monitor: split and checkpoint/restore at every position vs uninterrupted run under identical random streams; attribute-diff invariant; callback audit with unique tags",
         "Held on every sampler of both interfaces with generated schedules; every transition boundary of each run is used as a crash point. Exploration.",
         "global numpy random state set before each run; scipy interpolative RNG noise tolerated with rtol 1e-9", "DESIGN.md §2 C14"),
 "C15": ("closed-form posterior mean / local-optimality / affine read-off monitors on BayesianProblem.MAP/ML/sample_posterior",
         "Held on generated linear-Gaussian and small non-linear problems. Exploration; only runs whose solver reports convergence are judged.",
         "dense reference algebra; recorder on cuqi.solver wrappers", "DESIGN.md §2 C15"),
 "C16": ("optimality-residual monitors on solver outputs; scipy pass-through recorder; brute-force projection/prox oracle",
         "Held on generated well-conditioned problems; non-converged runs are inconclusive. Exploration.",
         "numpy/scipy trusted", "DESIGN.md §2 C16"),
 "C17": ("reference operators written from the documentation vs model.forward; residual statistics; object-identity monitors over the option grid",
         "Held on the enumerated option grid of each test problem with sampled sizes/seeds. Exploration.",
         "explicit-loop padded convolution cross-checked against scipy.ndimage at start-up", "DESIGN.md §2 C17"),
 "C18": ("recorded assembly + residual of the discrete equations; Euler recurrence checker; independent observation oracle",
         "Held on harness-written PDE forms (steady/time dependent, solvers, grids, observation options). Exploration.",
         "recording PDE forms and linear solvers owned by the harness", "DESIGN.md §2 C18"),
 "C19": ("postconditions on burnthin/statistics/conversions vs numpy on the raw array; recorder on the arviz call boundary",
         "Held on generated sample arrays, geometries and call chains. Exploration.",
         "numpy/arviz trusted", "DESIGN.md §2 C19"),
 "C20": ("exhaustive enumeration of operator configurations compared against dense loop-built reference stencils; null-space, sqrtprec and rank/log-det monitors",
         "Every (N, bc, order, 1D/2D) in the bounded range is built and compared (finite space enumerated completely; vectors sampled). Exploration level with exhaustive=true for the configuration space.",
         "reference stencils in vlib/refs/stencils.py self-tested against numpy.kron/matrix_rank", "DESIGN.md §2 C20"),
}

# properties whose check has been integrated (reviewed, swept over seeds on both tiers)
CLAIMED = ["C01", "C02", "C03", "C04", "C05", "C06", "C07", "C08", "C09", "C10", "C11", "C12", "C13", "C14", "C15", "C16", "C17", "C18", "C19", "C20"]

def main():
    claimed, na = [], []
    for pid in sorted(TABLE):
        path = os.path.join(ROOT, "vlib", "checks", pid.lower() + ".py")
        tech, text, note, ref = TABLE[pid]
        if pid in CLAIMED and os.path.exists(path):
            claimed.append({
                "property_id": pid,
                "quick_cmd": f"./check {pid} --tier quick",
                "thorough_cmd": f"./check {pid} --tier thorough",
                "evidence_file": f"/verif/evidence/{pid}.json",
                "replay_cmd_template": f"./check {pid} --replay {{path}}",
                "engine": "vlib",
                "level_claimed": {"category": "exploration", "text": text, "design_ref": ref},
                "level_note": note,
                "technique": "runtime monitoring: " + tech,
            })
        else:
            na.append({"property_id": pid, "reason": "check not yet built at this commit (planned: " + tech + ")"})
    m = {
        "version": 1,
        "setup_cmd": "sh ./setup.sh",
        "hooks": {"guard": "CUQIPY_VERIF", "enable": "none needed: all observation points are at the public API (harness-owned targets, models, geometries, callbacks, interposed numpy.random attributes); checks import cuqi from /repo's working tree (PYTHONPATH=/repo, no bytecode)",
                  "baseline_off_cmd": BASELINE_CMD, "source_commits": [], "add_only": True},
        "engines": [{"name": "vlib", "path": "/verif/vlib", "serves_properties": [c["property_id"] for c in claimed],
                     "kind_free_text": "python runtime-monitoring harness: sharded workloads, recording proxies, scripted random streams, runtime contracts, reference models, offline trace checkers"}],
        "checks": claimed,
        "notes": "Exit 0 held / 1 VIOLATION / 3 INCONCLUSIVE. Known genuine defects are listed by mechanism in known_findings.json and printed as KNOWN-FINDING lines. VERIF_SEED/VERIF_TIER honoured; VERIF_REPO overrides the tree under test.",
        "not_applicable": na,
    }
    out = os.path.join(ROOT, "MANIFEST.json")
    json.dump(m, open(out, "w"), indent=1)
    try:
        import jsonschema
        jsonschema.validate(m, json.load(open("/root/.vp/MANIFEST.schema.json")))
        print("MANIFEST valid;", len(claimed), "claimed,", len(na), "not yet claimed")
    except ImportError:
        print("MANIFEST written (jsonschema not available to validate);", len(claimed), "claimed")

if __name__ == "__main__":
    main()
