#!/bin/sh
# usage: tools/sweep.sh <tier> "<seeds>" [checks...]   - runs the claimed checks over several seeds, one summary line per run
HERE="$(cd "$(dirname "$0")/.." && pwd)"; cd "$HERE" || exit 3
TIER="$1"; SEEDS="$2"; shift 2
CHECKS="$*"
[ -z "$CHECKS" ] && CHECKS=$(python3 -c "import json;print(' '.join(c['property_id'] for c in json.load(open('MANIFEST.json'))['checks']))")
export VERIF_EVIDENCE_DIR="${VERIF_EVIDENCE_DIR:-$HERE/.work/sweep_evidence}"
for c in $CHECKS; do for s in $SEEDS; do
  out=$(./check "$c" --tier "$TIER" --seed "$s" 2>&1); rc=$?
  line=$(echo "$out" | grep -E "^\[$c\] tier=" | head -1)
  echo "rc=$rc $line"
  [ $rc -ne 0 ] && echo "$out" | grep -E "VIOLATION|INCONCLUSIVE|mechanism=" | head -8
done; done
