#!/usr/bin/env python3
import json, sys, subprocess, os
pid = sys.argv[1]; tag = sys.argv[2] if len(sys.argv) > 2 else "atk_" + pid
wt = f"/tmp/{tag}"
for l in open('/verif/properties.jsonl'):
    p = json.loads(l)
    if p['id'] == pid: break
else: raise SystemExit("no such property")
if not os.path.exists(wt):
    subprocess.check_call(['git', '-C', '/repo', 'worktree', 'add', '--detach', '-q', wt, 'HEAD'])
os.makedirs(f"/tmp/{tag}_out", exist_ok=True)
s = open('/verif/tools/attacker_prompt.txt').read()
s = s.replace('__WT__', wt).replace('__TAG__', tag).replace('__PID__', pid).replace('__TITLE__', p['title'])
s = s.replace('__STATEMENT__', p['statement']).replace('__QUANT__', p['quantifier']['text'])
open(f"/tmp/{tag}_prompt.txt", 'w').write(s)
print(wt)
