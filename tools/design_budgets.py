#!/usr/bin/env python3
"""Rewrites the two measured columns of DESIGN.md §3 (cases / wall time per tier) from sweep logs
(lines 'rc=0 [Cnn] tier=T seed=S cases=A/B ... wall=W s' as printed by tools/sweep.sh).
usage: tools/design_budgets.py log [log ...]"""
import re, sys, os
ROOT = os.path.dirname(os.path.dirname(os.path.abspath(__file__)))
seen = {}
for fn in sys.argv[1:]:
    for line in open(fn, errors="replace"):
        m = re.match(r"rc=0 \[(C\d+)\] tier=(\w+) seed=(\d+) cases=(\d+)/(\d+) .* wall=([\d.]+)s", line)
        if m:
            pid, tier, seed, run, planned, wall = m.group(1), m.group(2), int(m.group(3)), int(m.group(4)), int(m.group(5)), float(m.group(6))
            seen.setdefault((pid, tier), []).append((run, wall))
def fmt(pid, tier):
    v = seen.get((pid, tier))
    if not v: return None
    cases = v[0][0]; walls = sorted(w for _, w in v)
    lo, hi = walls[0], walls[-1]
    def t(x): return f"{x:.0f} s" if x < 90 else f"{x/60:.1f} min"
    return f"{cases} / {t(lo)}" if hi < 1.25 * lo else f"{cases} / {t(lo)}–{t(hi)}"
p = os.path.join(ROOT, "DESIGN.md"); out = []
for line in open(p):
    m = re.match(r"\| (C\d+) \| (.*?) \| (.*?) \| (.*?) \|\s*$", line)
    if m and (m.group(1), "quick") in seen | {} or (m and (m.group(1), "thorough") in seen):
        q = fmt(m.group(1), "quick") or m.group(3); t = fmt(m.group(1), "thorough") or m.group(4)
        line = f"| {m.group(1)} | {m.group(2)} | {q} | {t} |\n"
    out.append(line)
open(p, "w").writelines(out)
print("DESIGN.md §3 refreshed for", sorted({k[0] for k in seen}))
