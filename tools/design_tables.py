#!/usr/bin/env python3
"""Fills the generated tables of DESIGN.md (between the marker comments) from the committed data:
known_findings*.json (repairs and findings) and seeded/*/{meta,result}.json."""
import json, glob, os, re
ROOT = os.path.dirname(os.path.dirname(os.path.abspath(__file__)))

WHY = {  # finding id (or prefix) -> why it is listed instead of repaired
 "C20-gmrf-rank": "needs the true rank/nullity per (order, bc, dimension) and an eigsh special case for full rank; behaviour-changing for every periodic/neumann GMRF constant",
 "C04-gmrf-rank": "same defect as C20-gmrf-rank-*",
 "C10-gmrf-rank-deficient-shape": "follows from the GMRF rank defect (a repair must agree with the repaired rank)",
 "C01-posterior-keyword-conditioning": "Posterior.name is inferred from the Python variable, not from its parameter; a repair touches name handling of Posterior (design-level)",
 "C01-geometry-equality-side-effect": "Geometry equality writes _variable_name onto the other object; changing equality semantics is not a small safe patch",
 "C02-mh-noncentred-proposal": "would have to refuse (or correct for) non-centred proposals: behaviour-changing validation",
 "C02-pcn-userdefined-prior-mean": "a user-defined prior exposes no mean; tests/test_sampler.py::test_sampler_CustomInput_pCN runs exactly this configuration",
 "C03-mhn-multidim-gradient-is-matrix": "ModifiedHalfNormal vector handling is pinned by the repository's regression tests together with the getter defect",
 "C04-mhn-getters-return-alpha": "tests/test_distribution.py::test_MHN_regression pins the wrong numbers",
 "C05-mhn": "consequence of the pinned getter defect / MHN container handling (behaviour-changing)",
 "C04-cauchy-cdf-sum": "test_Cauchy_against_scipy asserts the sum",
 "C04-gaussian-sqrtcov-RRt": "documentation/code convention (R R^T vs R^T R); either repair changes behaviour or documentation",
 "C04-gaussian-dia-banded-sqrtprec": "the safe repair makes the docstring example raise without cholmod; a correct log-det for banded DIA factors needs a factorisation",
 "C05-gmrf-periodic-law": "the periodic sampler pairs eigsh eigenvalues with DFT modes of a non-circulant precision: needs a new sampler",
 "C06-ugla": "two coupled changes in each of the two UGLA implementations (weights from D(x-mu), consistent 1/b scaling of the right-hand side)",
 "C06-cgls-diverges": "same defect as C16-cg-garbage-when-tol-unattainable",
 "C16-cg-garbage-when-tol-unattainable": "needs a change of the stopping rule of CGLS/PCGLS (best-iterate bookkeeping or an absolute floor): alters iteration counts everywhere",
 "C07-deconv2d": "needs a real adjoint of every padding mode (correlate, then fold the border back)",
 "C07-adjoint-nonorthogonal": "LinearModel.adjoint uses the geometry's inverse where the transpose is needed (design-level, DESIGN #23)",
 "C07-getmatrix-raw": "design-level (DESIGN #23): matrix-backed models ignore non-identity geometries in get_matrix",
 "C07-transpose-double-geometry-maps": "design-level (DESIGN #23): .T wraps bound methods that already apply the geometry maps",
 "C07-getmatrix-stale-after-geometry-change": "needs geometry attributes to become properties that invalidate the cached matrix",
 "C15-matrix-model-nonidentity-geometry": "consequence of DESIGN #23 (get_matrix ignores the geometry); the closed-form route would have to assemble forward(e_i) or refuse",
 "C15-nonsmooth-objective-bfgs-stalls": "needs another solver for non-smooth posteriors, or raising when scipy reports failure",
 "C10-legacy-conjugate-no-structural-validation": "reusing the experimental validation would make the legacy sampler refuse exact-but-unusual forms it samples correctly today",
 "C10-near-identity-probe-tolerance": "validation by numerical probing with np.allclose defaults; tightening it to math.isclose still admits eps=1e-12 (probing is the documented mechanism)",
 "C10-near-reciprocal-probe-tolerance": "inherent to validation by numerical probing (rel 1e-9 at three points); measurable only at extreme scales",
 "C10-legacy-conjugate-no-structural-validation-near": "same defect as C10-legacy-conjugate-no-structural-validation",
 "C15-solver-failure-ignored": "_solve_max_point ignores the solver's success flag and BFGS settings are fixed; needs scaling-aware solver settings or raising on failure",
 "C16-lm-absolute-damping-floor-small-residuals": "making nu0 relative changes every LM trajectory",
 "C16-lm-sparse-singular-step-nan": "rejecting non-finite trials (tried) turns the NaN return into a stalled run to maxit; needs a proper singular-step strategy",
 "C16-lm-absolute-damping-floor-tiny-residuals-stop": "same root cause as C16-lm-absolute-damping-floor-small-residuals",
 "C12-samples-funvals-flag-ignored": "honouring is_par/is_vec of a Samples input changes behaviour of Model.__call__ on Samples",
 "C13-funvec-shape-stale-after-regrid": "invalidating the cached funvec_shape interacts with geometry equality (derived attribute compared in _all_values_equal)",
 "C13-step-empty-when-nsteps-is-ngrid-minus-1": "needs tolerance- or index-based interval membership; test_stepExpansion_fun2par compares with raw float inequalities",
 "C14-legacy-cwmh-overwrites-previous-state": "test_CWMH_regression_* pin the shifted chain",
 "C19-duplicate-variable-names": "would have to refuse duplicate variable names or key arviz dictionaries by index",
 "C19-rhat-funvec-dim-differs": "needs variable names taken from the row count for function-value samples, or a refusal",
}

def why(fid):
    best = ""
    for k, v in WHY.items():
        if fid.startswith(k) and len(k) > len(best):
            best = k
    return WHY.get(best, "not small/safe")

def fixed_rows():
    d = json.load(open(os.path.join(ROOT, "known_findings.json")))
    rows = []
    for line in d["fixed"]:
        m = re.match(r"fixed: property=(C\d+) (\w+) (.*)", line)
        rows.append(f"| {m.group(1)} | `{m.group(2)}` | {m.group(3)} |")
    return "\n".join(rows)

def kf_rows():
    rows = []
    files = [os.path.join(ROOT, "known_findings.json")] + sorted(glob.glob(os.path.join(ROOT, "known_findings.d", "*.json")))
    for fn in files:
        for e in json.load(open(fn)).get("findings", []):
            rows.append(f"| `{e['id']}` | {e['property']} | {why(e['id'])} |")
    return "\n".join(rows)

def seeded_rows():
    rows = []
    for d in sorted(glob.glob(os.path.join(ROOT, "seeded", "*", ""))):
        sid = os.path.basename(d[:-1])
        meta = json.load(open(d + "meta.json"))
        res = json.load(open(d + "result.json")) if os.path.exists(d + "result.json") else {}
        caught = []
        for prop, r in res.get("checks", {}).items():
            if r.get("exit") == 1:
                caught.append(f"{prop}: " + ", ".join(r.get("mechanisms", [])[:4]))
        needs = re.sub(r"\s+", " ", meta.get("needs", ""))[:170]
        first = meta.get("first_run", "")
        rows.append(f"| {sid} | {needs} | {'; '.join(caught) if caught else 'MISSED'} | {first} |")
    return "\n".join(rows)

def main():
    p = os.path.join(ROOT, "DESIGN.md")
    s = open(p).read()
    for name, fn in (("FIXED_ROWS", fixed_rows), ("KF_ROWS", kf_rows), ("SEEDED_ROWS", seeded_rows)):
        begin, end = f"<!-- BEGIN {name} -->", f"<!-- END {name} -->"
        if f"__{name}__" in s:
            s = s.replace(f"__{name}__", f"{begin}\n{fn()}\n{end}")
        elif begin in s:
            a, b = s.index(begin), s.index(end) + len(end)
            s = s[:a] + f"{begin}\n{fn()}\n{end}" + s[b:]
    open(p, "w").write(s)
    print("DESIGN.md tables refreshed")

if __name__ == "__main__":
    main()
