#!/bin/sh
# Offline setup: optional runtime-contract library beside the harness, then a smoke import.
HERE="$(cd "$(dirname "$0")" && pwd)"
cd "$HERE" || exit 1
PY="${VERIF_PY:-/venv/bin/python}"
if [ ! -d .deps/icontract ]; then
  PIP_NO_INDEX=1 "$PY" -m pip install --quiet --no-index --find-links /opt/veriftools/wheels --target .deps icontract >/dev/null 2>&1 \
    || echo "setup: icontract wheel not installable; falling back to vlib.contracts' own wrapper"
fi
mkdir -p evidence replay .work
PYTHONPATH="${VERIF_REPO:-/repo}:$HERE" PYTHONDONTWRITEBYTECODE=1 "$PY" -B -c "import vlib.core, vlib.rngscript, vlib.contracts; vlib.core.import_cuqi(); print('setup ok')"
