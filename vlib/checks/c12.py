"""C12 - forward models act identically on every representation of their input.

Workload: {generic model with gradient / with Jacobian / without, matrix LinearModel (dense, sparse),
callable-pair LinearModel, the documented scalar example, Poisson1D / Heat1D test-problem models, a hand-written
SteadyStateLinearPDE with jacobian_wrt_parameter / gradient_wrt_parameter} x {domain geometry} x {range geometry}
(identity-like, reshaping C/F, mapped with/without inverse, KL full/truncated, step expansions, user geometries
with a `gradient`, domain geometry object == range geometry object), random sizes, grids, points, directions.

Monitors (all at the public API of the real classes):
  * forward() on ndarray parameters / ndarray function values (is_par=False) / CUQIarray par / CUQIarray fun /
    Samples / keyword call / `@`: value vs the reference composition par2fun -> F -> fun2par (vlib/refs/c12_ref.py,
    no cuqi import), pairwise agreement, wrapping (type, geometry, is_par, size);
  * gradient() on 4 direction x 4 linearisation-point representations: value vs J^T d with J (a) analytic from the
    reference, (b) central differences of the *real* forward in parameter space; wrapping; refusal table;
  * model(distribution): renamed copy, everything else untouched, original untouched;
  * operator representation: Jacobians of Model(jacobian=) and of the PDE (jacobian_wrt_parameter), LinearModel matrices and
    the operators behind callable pairs are supplied dense, as scipy csr/csc/coo/dia matrices, csr_array and matrix-free
    (LinearOperator): every forward / gradient / adjoint value must be a numeric vector of the documented length, equal to
    the reference whatever the representation; LinearModel.adjoint is driven on ndarray par/fun, CUQIarray par/fun, Samples;
  * history: sequences of forward / gradient calls on one model object whose input (and direction) is one buffer
    updated in place between the calls (ndarray, CUQIarray view on it, fresh copies, function-value buffer): every
    result must belong to the current values (memoisation keyed on identity or stale values), inputs never modified.
"""
import os
import copy as _copy
import numpy as np
from vlib import core
from vlib.refs import c12_ref as R

PROPERTY = "C12"
RULE = ("cross product of model kind x domain geometry template x range geometry template (exhaustive over the templates), "
        "sizes/grids/values drawn per case; a case is non-trivial when at least 4 input representations of forward() were "
        "compared against the reference on a model whose domain or range geometry is not the plain identity, or when the "
        "gradient was compared against a finite-difference Jacobian of the real forward, or a distribution rename was "
        "compared; distinct = distinct descriptors, sub-cases = (domain, range) and (direction rep, wrt rep) classes reached")
ASSUMPTIONS = ["the user callables handed to the models (F, its Jacobian, geometry maps and their derivatives) are the "
               "harness' own and validated against finite differences in the self-test",
               "a CUQIarray 'carrying the model's domain geometry' carries the same geometry object, or an independently "
               "constructed equal one for the grid-based geometries"]
REQUIRED_COUNTERS = {
    "quick": {"forward_value_checked": 8000, "forward_wrap_checked": 9000, "callable_input_checked": 6500,
              "samples_columns_checked": 2500, "gradient_value_checked": 2200, "fd_jacobian_columns": 2000,
              "gradient_vs_fd_of_real_forward": 2200, "geometry_gradient_input_checked": 1300,
              "gradient_refusal_observed": 6500, "dist_rename_checked": 20, "dist_forward_checked": 80,
              "forward_history_checked": 9000, "gradient_history_checked": 5500, "input_unchanged_checked": 15000,
              "reuse_after_error_checked": 5000, "operator_rep_checked": 25000, "adjoint_value_checked": 5000},
    "thorough": {"forward_value_checked": 150000, "forward_wrap_checked": 160000, "callable_input_checked": 120000,
                 "samples_columns_checked": 45000, "gradient_value_checked": 30000, "fd_jacobian_columns": 50000,
                 "gradient_vs_fd_of_real_forward": 30000, "geometry_gradient_input_checked": 18000,
                 "gradient_refusal_observed": 150000, "dist_rename_checked": 120, "dist_forward_checked": 500,
                 "forward_history_checked": 110000, "gradient_history_checked": 50000, "input_unchanged_checked": 190000,
                 "reuse_after_error_checked": 35000, "operator_rep_checked": 150000, "adjoint_value_checked": 30000},
}
BUDGET_S = {"quick": 200.0, "thorough": 1500.0}

# debugging aid for the tolerance-margin measurement only (all tolerances are multiplied by it); never set in normal runs
_TS = float(os.environ.get("VERIF_C12_TOLSCALE", "1"))
_AS = 1.0     # magnitude of the model outputs of the current case (absolute tolerances and scale floors follow it)

IDENT_KINDS = ("cont1d", "discrete", "int", "image2d", "tuple", "cont2d")

# ----------------------------------------------------------------------------- case generation

def _dom_templates():
    c1 = {"kind": "cont1d"}
    out1 = [
        {"kind": "cont1d"}, {"kind": "discrete"}, {"kind": "int"},
        {"kind": "mapped", "inner": c1, "map": "affine", "imap": True},
        {"kind": "mapped", "inner": c1, "map": "sinh", "imap": True},
        {"kind": "mapped", "inner": c1, "map": "exp", "imap": False},
        {"kind": "mapped", "inner": c1, "map": "square", "imap": True},
        {"kind": "mapped", "inner": {"kind": "kl", "trunc": True}, "map": "exp", "imap": True},
        {"kind": "kl", "trunc": False}, {"kind": "kl", "trunc": True},
        {"kind": "step", "projection": "mean"},
        {"kind": "user", "gradient": True},
        {"kind": "user_c1d", "gradient": True},
        {"kind": "mapped", "inner": c1, "map": "sinh", "imap": True, "gradient": True},
        {"kind": "mapped", "inner": c1, "map": "exp", "imap": False, "gradient": True},
        {"kind": "mapped", "inner": c1, "map": "square", "imap": True, "gradient": True},
        {"kind": "kl", "trunc": True, "gradient": True},
        {"kind": "step", "projection": "mean", "gradient": True},
        # ---- a library wrapper (MappedGeometry) around every kind of geometry driven above (appended: indices above are used below)
        # wrapped geometry carries its own `gradient`, the wrapper does not: the map's derivative is missing -> must be refused
        {"kind": "mapped", "inner": {"kind": "user", "gradient": True}, "map": "sinh", "imap": True},
        {"kind": "mapped", "inner": {"kind": "user", "gradient": True}, "map": "exp", "imap": False},
        {"kind": "mapped", "inner": {"kind": "user_c1d", "gradient": True}, "map": "exp", "imap": False},
        {"kind": "mapped", "inner": {"kind": "user_c1d", "gradient": True}, "map": "affine", "imap": True},
        {"kind": "mapped", "inner": {"kind": "kl", "trunc": True, "gradient": True}, "map": "affine", "imap": True},
        {"kind": "mapped", "inner": {"kind": "step", "projection": "mean", "gradient": True}, "map": "sinh", "imap": True},
        {"kind": "mapped", "inner": {"kind": "mapped", "inner": c1, "map": "sinh", "imap": True, "gradient": True}, "map": "affine", "imap": True},
        # the wrapper carries the full chain rule, around a geometry that has its own gradient as well
        {"kind": "mapped", "inner": {"kind": "user", "gradient": True}, "map": "sinh", "imap": True, "gradient": True},
        {"kind": "mapped", "inner": {"kind": "mapped", "inner": c1, "map": "sinh", "imap": True, "gradient": True}, "map": "affine", "imap": False, "gradient": True},
        # wrappers around the remaining built-in kinds, and nested wrappers
        {"kind": "mapped", "inner": {"kind": "discrete"}, "map": "affine", "imap": True},
        {"kind": "mapped", "inner": {"kind": "step", "projection": "mean"}, "map": "sinh", "imap": True},
        {"kind": "mapped", "inner": {"kind": "kl", "trunc": False}, "map": "affine", "imap": True},
        {"kind": "mapped", "inner": {"kind": "mapped", "inner": c1, "map": "sinh", "imap": True}, "map": "affine", "imap": True},
        {"kind": "mapped", "inner": {"kind": "mapped", "inner": {"kind": "kl", "trunc": True}, "map": "exp", "imap": True}, "map": "affine", "imap": False},
    ]
    imF = {"kind": "image2d", "order": "F"}
    out2 = [
        {"kind": "image2d", "order": "C"}, {"kind": "image2d", "order": "F"}, {"kind": "tuple"}, {"kind": "cont2d"},
        {"kind": "mapped", "inner": imF, "map": "sinh", "imap": True},
        {"kind": "mapped", "inner": imF, "map": "sinh", "imap": True, "gradient": True},
        {"kind": "mapped", "inner": {"kind": "cont2d"}, "map": "sinh", "imap": True},
        {"kind": "mapped", "inner": {"kind": "image2d", "order": "C"}, "map": "affine", "imap": False},
        {"kind": "mapped", "inner": {"kind": "mapped", "inner": imF, "map": "sinh", "imap": True, "gradient": True}, "map": "affine", "imap": True},
    ]
    return out1, out2

def _ran_templates():
    c1 = {"kind": "cont1d"}
    out1 = [
        {"kind": "cont1d"}, {"kind": "discrete"}, {"kind": "int"},
        {"kind": "mapped", "inner": c1, "map": "affine", "imap": True},
        {"kind": "mapped", "inner": c1, "map": "sinh", "imap": False},
        {"kind": "step", "projection": "mean"}, {"kind": "step", "projection": "max"},
        {"kind": "kl", "trunc": True}, {"kind": "kl", "trunc": False},
        {"kind": "user"},
        # wrappers around the other kinds, nested wrappers
        {"kind": "mapped", "inner": {"kind": "step", "projection": "mean"}, "map": "affine", "imap": True},
        {"kind": "mapped", "inner": {"kind": "user"}, "map": "sinh", "imap": True},
        {"kind": "mapped", "inner": {"kind": "discrete"}, "map": "affine", "imap": True},
        {"kind": "mapped", "inner": {"kind": "mapped", "inner": c1, "map": "sinh", "imap": True}, "map": "affine", "imap": True},
    ]
    imF = {"kind": "image2d", "order": "F"}
    out2 = [
        {"kind": "image2d", "order": "C"}, {"kind": "image2d", "order": "F"}, {"kind": "tuple"}, {"kind": "cont2d"},
        {"kind": "mapped", "inner": imF, "map": "affine", "imap": True},
        {"kind": "mapped", "inner": {"kind": "cont2d"}, "map": "sinh", "imap": True},
    ]
    return out1, out2

_STEP_SIZES = {2: (4, 6, 8), 3: (5, 6, 8, 9), 4: (6, 8, 10)}   # n_steps -> admissible node counts (gcd(n-1, n_steps) = 1)

def _size_geom(t, rnd, big, force_n=None):
    """fill a template with concrete sizes. force_n: number of nodes of a 1-D geometry on the default grid 0..n-1
    (used for the pairs of geometries that share their grid)."""
    s = _copy.deepcopy(t)
    k = s["kind"]
    hi = 9 if big else 6
    if force_n is not None:
        n = force_n
        s["n"] = n
        if k in ("cont1d", "step"):
            s["x0"], s["h"] = 0.0, 1.0
        if k == "kl":
            s["grid"] = "default"
            s["num_modes"] = rnd.randint(1, n - 1) if s.pop("trunc", False) else None
            s["decay"], s["normalizer"] = rnd.choice([1.0, 1.5, 2.5]), rnd.choice([1.0, 4.0, 12.0])
        if k == "step":
            s["n_steps"] = rnd.choice([ns for ns, sizes in _STEP_SIZES.items() if n in sizes])
        if k == "user_c1d":
            s["k"] = n
        return s
    if k in ("cont1d", "discrete", "int"):
        s["n"] = rnd.randint(2, hi)
        if k == "cont1d":
            s["x0"], s["h"] = round(rnd.uniform(-2, 2), 3), round(rnd.uniform(0.1, 1.5), 3)
    elif k in ("image2d", "tuple", "cont2d"):
        s["shape"] = [rnd.randint(2, 4 if big else 3), rnd.randint(2, 4 if big else 3)]
        if rnd.random() < 0.7 and s["shape"][0] == s["shape"][1]:
            s["shape"][1] += 1                      # unequal axes expose a transposed reshape
    elif k == "kl":
        n = rnd.randint(3, hi)
        s["n"] = n
        s["num_modes"] = rnd.randint(1, n - 1) if s.pop("trunc", False) else (None if rnd.random() < 0.5 else n)
        s["decay"], s["normalizer"] = rnd.choice([1.0, 1.5, 2.5]), rnd.choice([1.0, 4.0, 12.0])
    elif k == "step":
        ns = rnd.choice([2, 3, 4] if big else [2, 3])
        s["n_steps"], s["n"] = ns, rnd.choice(_STEP_SIZES[ns])
        s["x0"], s["h"] = round(rnd.uniform(-2, 2), 3), round(rnd.uniform(0.1, 1.5), 3)
    elif k == "mapped":
        s["inner"] = _size_geom(s["inner"], rnd, big)
    elif k == "user":
        n = rnd.randint(3, hi)
        s["n"], s["k"] = n, rnd.randint(1, n - 1)
    elif k == "user_c1d":
        s["n"] = s["k"] = rnd.randint(2, hi)
    return s

def _is2d(t):
    return t["kind"] in ("image2d", "tuple", "cont2d") or (t["kind"] == "mapped" and _is2d(t["inner"]))

def cases(tier, seed):
    rnd = core.rng_for(seed, PROPERTY, "cases", tier)
    thorough = tier == "thorough"
    reps = 1 if tier == "quick" else 6
    d1, d2 = _dom_templates()
    r1, r2 = _ran_templates()
    out = []
    def add(model, dt, rt, **extra):
        if rt == "same" and dt["kind"] == "mapped" and dt["map"] in ("square", "exp") and dt.get("imap", True):
            return          # the inverse map (sqrt, log) is not defined on the outputs of F: not a well-posed range geometry
        for v in range(reps):
            big = thorough and rnd.random() < 0.6
            fn = rnd.choice([5, 6, 8, 9] if big else [5, 6]) if extra.get("shared_grid") else None
            c = {"model": model, "dom": _size_geom(dt, rnd, big, fn), "ran": ("same" if rt == "same" else _size_geom(rt, rnd, big, fn)),
                 "strip": rnd.random() < 0.35, "carrier": rnd.choice(["same_obj", "equal_copy"]),
                 "cstyle": rnd.choice(_CSTYLES), "argname": rnd.choice(["x", "x", "theta"]), "Ns": rnd.randint(1, 6 if thorough else 4), "v": v}
            c.update(extra)
            if model in ("lin_matrix", "lin_callable") and not extra.get("dist"):
                c["opscale"] = rnd.choice([1.0, 1.0, 1e-10, 1e10])      # extreme but legal operator magnitudes
            # representation of the user-supplied operator / Jacobian (dense, scipy sparse formats, matrix-free)
            takes = {"gen_jac": OPREPS, "lin_callable": OPREPS, "lin_matrix": OPREPS[:-1], "lin_matrix_default": OPREPS[:-1]}.get(model)
            if model in ("wang", "pde_custom") and c.get("how") == "jac":
                takes = OPREPS
            if takes and not extra.get("dist") and "oprep" not in c:
                c["oprep"] = rnd.choice(takes)
            out.append(c)
    # generic models with a direction-Jacobian product and callable-pair linear models: every geometry pair
    for model in ("gen_grad", "lin_callable"):
        for dt in d1 + d2:
            for rt in r1 + r2 + ["same"]:
                add(model, dt, rt)
    # Jacobian-based generic models and matrix models act on vector-valued function spaces
    for model in ("gen_jac", "lin_matrix"):
        for dt in d1:
            for rt in r1 + ["same"]:
                add(model, dt, rt, sparse=(rnd.random() < 0.4))
    # a plain geometry on one side and a geometry derived from Continuous1D on the same grid 0..n-1 on the other side
    plain = [{"kind": "int"}, {"kind": "cont1d"}]
    derived = [{"kind": "step", "projection": "mean"}, {"kind": "kl", "trunc": True}, {"kind": "kl", "trunc": False}, {"kind": "user_c1d"}]
    for model in ("gen_grad", "gen_jac", "lin_matrix", "lin_callable"):
        for a in plain:
            for g in derived:
                add(model, a, g, shared_grid=True)
                add(model, dict(g, gradient=True), a, shared_grid=True)
    for i, dt in enumerate(d1 + d2):           # models without gradient: the refusal must come from the model
        add("gen_nograd", dt, (r1 + r2)[i % len(r1 + r2)])
    for dt in (d1[0], d1[2], d1[13], d1[15], d1[12]):   # the documented scalar example
        for how in ("jac", "grad"):
            add("wang", dt, {"kind": "int"}, how=how)
    # default geometries inferred from the matrix
    for _ in range(4):
        add("lin_matrix_default", {"kind": "int"}, {"kind": "int"}, sparse=(rnd.random() < 0.5))
    # PDE models
    for field in (None, "KL", "Step"):
        for mp in (None, "exp"):
            if not (field == "KL" and mp is None):     # a sign-changing conductivity is not a well-posed Poisson problem
                add("pde_poisson", {"kind": "pde_field", "field": field, "map": mp}, {"kind": "pde_range"})
            add("pde_heat", {"kind": "pde_field", "field": field, "map": (None if mp is None else "sinh")}, {"kind": "pde_range"})
    for dt in d1:
        for how in ("jac", "grad", "none"):
            for rt in (r1[0], r1[1], r1[3], r1[5]):
                if how == "none" and rt is not r1[0]:
                    continue
                add("pde_custom", dt, rt, how=how)
    # every operator representation with every model class that takes a user operator, on a few geometry pairs (exhaustive)
    pairs = [(d1[0], r1[0]), (d1[13], r1[1]), (d1[11], r1[2]), (d1[1], r1[0])]
    for orp in OPREPS:
        for dt, rt in pairs:
            add("gen_jac", dt, rt, oprep=orp)
            add("pde_custom", dt, rt, how="jac", oprep=orp)
            add("lin_callable", dt, rt, oprep=orp)
            if orp != "linop":
                add("lin_matrix", dt, rt, oprep=orp)
        if orp != "linop":
            add("lin_matrix_default", {"kind": "int"}, {"kind": "int"}, oprep=orp)
    # model applied to a distribution
    for model in ("gen_grad", "gen_jac", "lin_matrix", "lin_callable", "pde_custom", "pde_poisson"):
        for dt in (d1[0], d1[4], d1[9], d1[11], d1[13]):
            if model == "pde_poisson":
                add(model, {"kind": "pde_field", "field": "KL", "map": "exp"}, {"kind": "pde_range"}, dist=True)
                break
            add(model, dt, r1[0] if model != "gen_grad" else r1[3], dist=True, how="jac")
    return out

def crash_config(case):
    return {"model": case.get("model"), "domain": _label(case.get("dom")), "range": _label(case.get("ran"))}

def _label(s):
    if s == "same":
        return "same_as_domain"
    if not isinstance(s, dict):
        return str(s)
    k = s["kind"]
    g = "+grad" if s.get("gradient") else ""
    if k == "mapped":
        return "mapped[%s|%s|%s]%s" % (_label(s["inner"]), s["map"], "imap" if s.get("imap", True) else "noimap", g)
    if k == "image2d":
        return "image2d" + s.get("order", "C") + g
    if k == "kl":
        trunc = s.get("trunc", s.get("num_modes") is not None and s.get("n") is not None and s["num_modes"] < s["n"])
        return ("kl_trunc" if trunc else "kl_full") + g
    if k == "step":
        return "step_" + s.get("projection", "mean") + g
    if k == "pde_field":
        return "pde_field[%s|%s]" % (s.get("field"), s.get("map"))
    return k + g

# ----------------------------------------------------------------------------- building the real objects

# what the user callables received during the last library call (recording proxies): name -> list of argument copies
_REC = {"fwd": [], "grad": [], "geom": []}
def _rec_clear():
    for v in _REC.values():
        del v[:]
def _rec(kind, *arrays):
    _REC[kind].append(tuple(np.array(np.asarray(a), dtype=float, copy=True) for a in arrays))

_CLS = {}
def _classes():
    if _CLS:
        return _CLS
    import cuqi
    class UserGeom(cuqi.geometry.Geometry):
        """a user geometry with its own par2fun / fun2par / gradient (k parameters -> n function values)"""
        def __init__(self, ref, strip):
            self.ref, self.strip = ref, strip
        @property
        def par_shape(self):
            return (self.ref.par_dim,)
        @property
        def fun_shape(self):
            return self.ref.fun_shape
        def par2fun(self, p):
            p = np.asarray(p, dtype=float) if self.strip else p
            return self.ref.W @ (p + self.ref.a * np.sin(p))
        def fun2par(self, f):
            return self.ref.fun2par(np.asarray(f, dtype=float))
        def gradient(self, direction, wrt):
            _rec("geom", direction, wrt)
            M = self.ref.dfun(np.asarray(wrt, dtype=float))
            d = np.asarray(direction, dtype=float) if self.strip else direction
            return M.T @ d.reshape(-1)
        def _plot(self, *a, **k):
            pass
    class UserC1D(cuqi.geometry.Continuous1D):
        """user geometry derived from Continuous1D (n -> n)"""
        def __init__(self, n, ref, strip):
            super().__init__(n)
            self.ref, self.strip = ref, strip
        def par2fun(self, p):
            p = np.asarray(p, dtype=float) if self.strip else p
            return self.ref.W @ (p + self.ref.a * np.sin(p))
        def fun2par(self, f):
            return self.ref.fun2par(np.asarray(f, dtype=float))
        def gradient(self, direction, wrt):
            _rec("geom", direction, wrt)
            M = self.ref.dfun(np.asarray(wrt, dtype=float))
            d = np.asarray(direction, dtype=float) if self.strip else direction
            return M.T @ d.reshape(-1)
    class KLGrad(cuqi.geometry.KLExpansion):
        def gradient(self, direction, wrt):
            _rec("geom", direction, wrt)
            return self._ref.dfun(None).T @ direction.reshape(-1)
    class StepGrad(cuqi.geometry.StepExpansion):
        def gradient(self, direction, wrt):
            _rec("geom", direction, wrt)
            return self._ref.dfun(None).T @ direction.reshape(-1)
    class PDEJac(cuqi.pde.SteadyStateLinearPDE):
        def jacobian_wrt_parameter(self, wrt):
            return _as_rep(self._op.jac(np.asarray(wrt, dtype=float).reshape(-1)), getattr(self, "_oprep", "dense"))
    class PDEGrad(cuqi.pde.SteadyStateLinearPDE):
        def gradient_wrt_parameter(self, direction, wrt):
            return direction @ self._op.jac(np.asarray(wrt, dtype=float).reshape(-1))
    _CLS.update(UserGeom=UserGeom, UserC1D=UserC1D, KLGrad=KLGrad, StepGrad=StepGrad, PDEJac=PDEJac, PDEGrad=PDEGrad,
                PDEPlain=cuqi.pde.SteadyStateLinearPDE)
    return _CLS

def _fill_arrays(spec, rs):
    """draw the numeric content of user geometries (kept in the spec so that reference and real object share it)"""
    if spec["kind"] == "user":
        n, k = spec["n"], spec["k"]
        Q, _ = np.linalg.qr(rs.standard_normal((n, k)))
        spec["W"] = (Q * rs.uniform(0.7, 1.6, size=k)).tolist()
        spec["a"] = 0.3
    elif spec["kind"] == "user_c1d":
        n = spec["n"]
        spec["W"] = (np.eye(n) + 0.25 * rs.uniform(-1, 1, size=(n, n))).tolist()
        spec["a"] = 0.3
    elif spec["kind"] == "mapped":
        _fill_arrays(spec["inner"], rs)

# ---- the callables of a MappedGeometry in the forms users write them
_CSTYLES = ("function", "bound", "partial", "callable", "ufunc")
_CSTYLE = "function"      # style of the current case
_SHARE = {}               # objects shared by the geometries of one case (the same transform object / partial used twice)

def _apply_named(name, which, x):
    return R.MAPS[name][which](x)

def _mapped_gradient(name, inner_ref, strip, direction, wrt):
    # the way the test-suite writes it: derivative of the map at the inner function value, times the direction
    _rec("geom", direction, wrt)
    u = inner_ref.par2fun(np.asarray(wrt, dtype=float))
    d = np.asarray(direction, dtype=float) if strip else direction
    return inner_ref.dfun(np.asarray(wrt, dtype=float)).T @ (R.MAPS[name][2](u) * d).reshape(-1)

class _Transform:
    """one transform object whose bound methods serve as map / imap / gradient"""
    def __init__(self, name, inner_ref, strip):
        self.name, self.inner_ref, self.strip = name, inner_ref, strip
    def to_function(self, x):
        return R.MAPS[self.name][0](x)
    def to_parameter(self, y):
        return R.MAPS[self.name][1](y)
    def gradient(self, direction, wrt):
        return _mapped_gradient(self.name, self.inner_ref, self.strip, direction, wrt)

class _CallableMap:
    """a callable class instance; two instances describing the same map are equal (==) but not identical"""
    def __init__(self, name, which, inner_ref=None, strip=False):
        self.key = (name, which, id(inner_ref), strip)
        self.name, self.which, self.inner_ref, self.strip = name, which, inner_ref, strip
    def __call__(self, *a):
        if self.which == "grad":
            return _mapped_gradient(self.name, self.inner_ref, self.strip, *a)
        return R.MAPS[self.name][self.which](*a)
    def __eq__(self, other):
        return type(other) is type(self) and other.key == self.key
    def __hash__(self):
        return hash(self.key)

def _map_callables(spec, ref, strip):
    """(map, imap, gradient) of a MappedGeometry spec in the callable style of the current case"""
    import functools
    name, style = spec["map"], _CSTYLE
    key = (id(ref), style)
    if style == "ufunc" and name not in ("exp", "sinh"):
        style = "function"
    if style == "bound":
        t = _SHARE.setdefault(key, _Transform(name, ref.inner, strip))
        return t.to_function, t.to_parameter, t.gradient
    if style == "partial":
        return _SHARE.setdefault(key, (functools.partial(_apply_named, name, 0), functools.partial(_apply_named, name, 1),
                                       functools.partial(_mapped_gradient, name, ref.inner, strip)))
    if style == "callable":
        return _CallableMap(name, 0), _CallableMap(name, 1), _CallableMap(name, "grad", ref.inner, strip)
    inner_ref = ref.inner
    def geom_gradient(direction, wrt):
        return _mapped_gradient(name, inner_ref, strip, direction, wrt)
    ggrad = _SHARE.setdefault((id(ref), "fgrad"), geom_gradient)     # the same function object wherever this geometry is rebuilt
    if style == "ufunc":
        return {"exp": (np.exp, np.log), "sinh": (np.sinh, np.arcsinh)}[name] + (ggrad,)
    return R.MAPS[name][0], R.MAPS[name][1], ggrad

def build_geom(spec, ref, strip):
    """the real cuqi geometry (or the int/tuple shorthand) for a spec; `ref` is the reference geometry of the same spec"""
    import cuqi
    C = _classes()
    k = spec["kind"]
    G = cuqi.geometry
    if k == "cont1d":
        return G.Continuous1D(R.grid_of(spec))
    if k == "discrete":
        return G.Discrete(spec["n"])
    if k == "int":
        return int(spec["n"])
    if k == "tuple":
        return tuple(spec["shape"])
    if k == "image2d":
        return G.Image2D(tuple(spec["shape"]), order=spec.get("order", "C"))
    if k == "cont2d":
        return G.Continuous2D(tuple(spec["shape"]))
    if k == "kl":
        cls = C["KLGrad"] if spec.get("gradient") else G.KLExpansion
        g = cls(np.arange(spec["n"]) if spec.get("grid") == "default" else np.linspace(0, 1, spec["n"]), decay_rate=spec["decay"], normalizer=spec["normalizer"], num_modes=spec["num_modes"])
        if spec.get("gradient"):
            g._ref = ref
        return g
    if k == "step":
        cls = C["StepGrad"] if spec.get("gradient") else G.StepExpansion
        g = cls(R.grid_of(spec), n_steps=spec["n_steps"], fun2par_projection=spec.get("projection", "mean"))
        if spec.get("gradient"):
            g._ref = ref
        return g
    if k == "mapped":
        inner = build_geom(spec["inner"], ref.inner, strip)
        fmap, fimap, ggrad = _map_callables(spec, ref, strip)
        g = G.MappedGeometry(inner, fmap, fimap if spec.get("imap", True) else None)
        if spec.get("gradient"):
            g.gradient = ggrad
        return g
    if k == "user":
        return C["UserGeom"](ref, strip)
    if k == "user_c1d":
        return C["UserC1D"](spec["n"], ref, strip)
    raise ValueError(k)

def _named(fn, argname):
    """give the forward callable the requested (single) argument name"""
    if argname == "x":
        def forward(x):
            return fn(x)
    else:
        def forward(theta):
            return fn(theta)
    return forward

class Built:
    pass

def build(case, rs):
    """returns Built(model, ref, dom_obj, ran_obj, has_grad, ...)"""
    import cuqi, scipy.sparse
    C = _classes()
    global _CSTYLE
    _CSTYLE = case.get("cstyle", "function")
    _SHARE.clear()
    kind, strip = case["model"], case["strip"]
    b = Built()
    b.kind = kind
    b.pde_tol = False
    if kind in ("pde_poisson", "pde_heat"):
        dim = 6 + case["v"] % 3
        field, mp = case["dom"]["field"], case["dom"]["map"]
        fp = {"KL": {"num_modes": 3, "decay_rate": 1.5, "normalizer": 4.0}, "Step": {"n_steps": 3}}.get(field, None)
        if field == "Step":
            dim = (6, 8, 9)[case["v"] % 3]     # (node count - 1) coprime with the number of steps: no node on a step boundary
        kw = dict(dim=dim, field_type=field, field_params=fp)
        if kind == "pde_heat":
            kw["exactSolution"] = np.linspace(0.2, 1.0, dim)    # function values; (Heat1D's own default needs n_steps of an unmapped Step geometry)
        if mp is not None:
            kw.update(map=R.MAPS[mp][0], imap=R.MAPS[mp][1])
        st = np.random.get_state()
        np.random.seed(int(rs.randint(0, 2 ** 31 - 1)))   # the test problem draws its noise from the global generator
        try:
            tp = cuqi.testproblem.Poisson1D(**kw) if kind == "pde_poisson" else cuqi.testproblem.Heat1D(max_time=0.05, **kw)
        finally:
            np.random.set_state(st)
        b.model = tp.model
        nfun = dim
        if field == "KL":
            inner = R.KL(nfun, 3, 1.5, 4.0); inner.kind = "kl"
        elif field == "Step":
            grid = np.asarray(b.model.domain_geometry.grid if mp is None else b.model.domain_geometry.geometry.grid)
            inner = R.Step(grid, 3, "mean"); inner.kind = "step"
        else:
            inner = R.Identity1D(nfun); inner.kind = "cont1d"
        dom = inner if mp is None else R.Mapped(inner, mp, True)
        if mp is not None:
            dom.kind = "mapped"
        dom.has_gradient = False
        op = R.Poisson(dim) if kind == "pde_poisson" else R.Heat(dim, max_time=0.05)
        ran = R.Identity1D(op.m); ran.kind = "cont1d"
        dom.positive_pars = dom.positive_pars or (kind == "pde_poisson" and mp is None)
        b.ref = R.RefModel(op, dom, ran)
        b.has_grad, b.ran_ident, b.dom_ident = False, True, (field is None and mp is None)
        b.dom_obj, b.ran_obj = b.model.domain_geometry, b.model.range_geometry
        b.pde_tol = True
        b.traced_fwd = b.traced_grad = False
        return b

    dspec, rspec = case["dom"], case["ran"]
    _fill_arrays(dspec, rs)
    dom = R.make_geom(dspec)
    if rspec == "same":
        ran, rspec = dom, dspec
        same = True
    else:
        same = False
        if kind == "wang":
            rspec = {"kind": "int", "n": 1}
        _fill_arrays(rspec, rs)
        ran = R.make_geom(rspec)
    if kind == "wang":          # two parameters / function values
        dspec = _wang_domain(dspec)
        dom = R.make_geom(dspec)
    n, m = dom.fun_dim, ran.fun_dim
    if kind == "lin_matrix_default":
        n, m = dspec["n"], rspec["n"]
    # ---- function-space operator
    if kind in ("gen_grad", "gen_jac", "gen_nograd"):
        kk = max(2, min(n, m))
        op = R.Nonlinear(rs.uniform(-1, 1, (m, kk)), rs.uniform(-1, 1, (kk, n)) / np.sqrt(n), rs.uniform(-0.5, 0.5, kk),
                         rs.uniform(-1, 1, (m, n)) / np.sqrt(n))
    elif kind in ("lin_matrix", "lin_callable", "lin_matrix_default"):
        A = rs.uniform(-1, 1, (m, n))
        if case.get("sparse"):
            A[rs.uniform(size=A.shape) < 0.4] = 0.0
        A = A * float(case.get("opscale", 1.0))
        op = R.Linear(A)
    elif kind == "wang":
        op = R.WangCubic()
    elif kind == "pde_custom":
        s = rs.randint(3, 6)
        K0 = s * np.eye(s) + 0.5 * rs.uniform(-1, 1, (s, s))
        Ks = 0.3 * rs.uniform(-1, 1, (n, s, s)) / n
        op = R.ParamPDE(K0, Ks, rs.uniform(-1, 1, s), rs.uniform(-1, 1, (s, n)), rs.uniform(-1, 1, (m, s)))
        b.pde_tol = True
    else:
        raise ValueError(kind)
    b.ref = R.RefModel(op, dom, ran)
    dom_g = build_geom(dspec, dom, strip)
    ran_g = dom_g if same else build_geom(rspec, ran, strip)
    S_d, S_r = dom.fun_shape, ran.fun_shape
    scalar = kind == "wang"
    def fwd_core(x):
        _rec("fwd", x)
        u = (np.asarray(x) if strip else x).reshape(-1)
        v = op(u)
        return v if scalar else v.reshape(S_r)
    def grad_core(direction, wrt):
        _rec("grad", direction, wrt)
        d = (np.asarray(direction) if strip else direction).reshape(-1)
        return (d @ op.jac(np.asarray(wrt, dtype=float).reshape(-1))).reshape(S_d)
    oprep = case.get("oprep", "dense")
    def jac_core(wrt):
        _rec("grad", wrt)
        return _as_rep(op.jac(np.asarray(wrt, dtype=float).reshape(-1)), oprep)
    fwd = _named(fwd_core, case.get("argname", "x"))
    M = cuqi.model
    if kind == "gen_grad" or (kind == "wang" and case["how"] == "grad"):
        b.model = M.Model(fwd, ran_g, dom_g, gradient=grad_core)
    elif kind == "gen_jac" or (kind == "wang" and case["how"] == "jac"):
        b.model = M.Model(fwd, ran_g, dom_g, jacobian=jac_core)
    elif kind == "gen_nograd":
        b.model = M.Model(fwd, ran_g, dom_g)
    elif kind == "lin_matrix":
        A = _as_rep(op.Amat, oprep) if "oprep" in case else (scipy.sparse.csr_matrix(op.Amat) if case.get("sparse") else op.Amat)
        b.model = M.LinearModel(A, range_geometry=ran_g, domain_geometry=dom_g)
    elif kind == "lin_matrix_default":
        A = _as_rep(op.Amat, oprep) if "oprep" in case else (scipy.sparse.csc_matrix(op.Amat) if case.get("sparse") else op.Amat)
        b.model = M.LinearModel(A)
    elif kind == "lin_callable":
        Aop = _as_rep(op.Amat, oprep)
        def adj_core(y):
            w = (np.asarray(y) if strip else y).reshape(-1)
            return (Aop.rmatvec(np.asarray(w)) if oprep == "linop" else Aop.T @ w).reshape(S_d)
        if oprep != "dense":      # the forward callable applies the operator in its own representation (matrix-free: matvec)
            def fwd_rep(x):
                _rec("fwd", x)
                u = (np.asarray(x) if strip else x).reshape(-1)
                return np.asarray(Aop.matvec(np.asarray(u)) if oprep == "linop" else Aop @ u).reshape(S_r)
            fwd = _named(fwd_rep, case.get("argname", "x"))
        b.model = M.LinearModel(fwd, adj_core, ran_g, dom_g)
    elif kind == "pde_custom":
        cls = {"jac": C["PDEJac"], "grad": C["PDEGrad"], "none": C["PDEPlain"]}[case["how"]]
        def pde_form(theta):
            _rec("fwd", theta)
            return op.operator(theta)
        pde = cls(pde_form, observation_map=lambda u: (op.Cobs @ u).reshape(S_r))
        pde._op = op
        pde._oprep = oprep
        b.model = M.PDEModel(pde, ran_g, dom_g)
    b.traced_fwd = kind in ("gen_grad", "gen_jac", "gen_nograd", "lin_callable", "wang", "pde_custom")
    b.traced_grad = kind in ("gen_grad", "gen_jac", "wang")
    b.has_grad = kind in ("gen_grad", "gen_jac", "lin_matrix", "lin_matrix_default", "lin_callable", "wang") or \
        (kind == "pde_custom" and case["how"] != "none")
    b.ran_ident = rspec["kind"] in IDENT_KINDS
    b.dom_ident = dspec["kind"] in IDENT_KINDS
    b.dom_obj, b.ran_obj = b.model.domain_geometry, b.model.range_geometry
    b.dom_spec, b.ran_spec, b.same = dspec, rspec, same
    b.lin_op = op.Amat if kind in ("lin_matrix", "lin_callable", "lin_matrix_default") else None
    return b

def _wang_domain(t):
    """domain templates of the scalar example, two function values"""
    s = _copy.deepcopy(t)
    if s["kind"] == "mapped":
        s["inner"]["n"] = 2
    elif s["kind"] == "user_c1d":
        s["n"] = s["k"] = 2
        s["W"] = [[1.0, 0.2], [-0.1, 0.9]]
    else:
        s["n"] = 2
    return s

def _copyable(spec):
    k = spec["kind"]
    if k == "mapped":
        return _copyable(spec["inner"])
    if k in ("cont1d", "discrete", "image2d", "cont2d", "user", "user_c1d"):
        return True
    return k == "step"          # (KLExpansion keeps a lazily filled cache among its attributes: a used and a fresh one differ)

def _equal_copy(spec, ref, strip):
    """an independently constructed geometry equal (==) to the model's one: grid-based kinds, user geometries and
    MappedGeometry around them whose callables are the same / equal objects (functions, bound methods of one transform
    object, one functools.partial, equal callable instances, numpy ufuncs)"""
    if isinstance(spec, dict) and _copyable(spec):
        return build_geom(spec, ref, strip)
    return None

# ----------------------------------------------------------------------------- monitors

def _cfg(case, **kw):
    c = {"model": case["model"], "domain": _label(case["dom"]), "range": _label(case["ran"])}
    if case.get("how"):
        c["how"] = case["how"]
    if case.get("shared_grid"):
        c["shared_grid"] = True
    c["strip"] = bool(case.get("strip"))
    c["cstyle"] = case.get("cstyle", "function")
    c["oprep"] = case.get("oprep", "dense")
    if case.get("opscale", 1.0) != 1.0:
        c["opscale"] = "tiny" if case["opscale"] < 1 else "huge"
    c.update(kw)
    return c

def _flat(v):
    try:
        return np.asarray(v, dtype=float).reshape(-1)
    except Exception:  # noqa  (judged separately by _not_numeric)
        return np.full(max(1, int(np.size(np.asarray(v, dtype=object)))), np.nan)

def _not_numeric(v):
    """None when `v` is a real-valued numeric array/scalar, else a description (object arrays, sparse matrices, operators, ...)"""
    try:
        import scipy.sparse
        if scipy.sparse.issparse(v):
            return "a scipy sparse %s of shape %s" % (type(v).__name__, v.shape)
    except Exception:  # noqa
        pass
    if hasattr(v, "samples"):
        v = v.samples
    try:
        a = np.asarray(v)
    except Exception as e:  # noqa
        return "%s that cannot be converted to an array (%s)" % (type(v).__name__, e)
    if a.dtype == object or a.dtype.kind not in "fiub":
        return "%s with dtype %s and shape %s" % (type(v).__name__, a.dtype, a.shape)
    return None

OPREPS = ("dense", "csr", "csc", "coo", "dia", "csr_array", "linop")

def _as_rep(Mat, oprep):
    """the same linear operator in another of the representations users hand to the library"""
    import scipy.sparse as sp
    from scipy.sparse.linalg import aslinearoperator
    Mat = np.asarray(Mat, dtype=float)
    if oprep in (None, "dense"):
        return Mat
    if oprep == "linop":
        return aslinearoperator(Mat)
    return {"csr": sp.csr_matrix, "csc": sp.csc_matrix, "coo": sp.coo_matrix, "dia": sp.dia_matrix, "csr_array": sp.csr_array}[oprep](Mat)

def _ro_view(a):
    """the same values as a read-only, non-contiguous view (Fortran-ordered for 2-D): a write through the argument raises"""
    a = np.asarray(a, dtype=float)
    if a.ndim == 1:
        buf = np.full(2 * a.size + 1, np.nan)
        buf[1::2] = a
        v = buf[1::2]
    else:
        v = np.asfortranarray(a)
    v.setflags(write=False)
    return v

def _points(ref, rs, k):
    lo, hi = (0.5, 2.0) if ref.dom.positive_pars else (-1.0, 1.0)
    return [rs.uniform(lo, hi, size=ref.dom.par_dim) for _ in range(k)]

def run_case(case, ctx):
    import cuqi
    global _AS
    _AS = float(case.get("opscale", 1.0))
    rs = core.np_rng(ctx.seed, PROPERTY, core.canon(case))
    b = build(case, rs)
    model, ref = b.model, b.ref
    CUQIarray, Samples = cuqi.array.CUQIarray, cuqi.samples.Samples
    rtol = (1e-8 if b.pde_tol else 1e-9) * _TS
    thorough = ctx.tier == "thorough"
    if case.get("dist"):
        _dist_monitor(case, ctx, b, rs)
        return
    dom_g, ran_g = b.dom_obj, b.ran_obj
    carriers = [("same_obj", dom_g)]
    b.dom_eq = b.ran_eq = None
    if hasattr(b, "dom_spec"):
        b.dom_eq = _equal_copy(b.dom_spec, ref.dom, case["strip"])
        b.ran_eq = b.dom_eq if b.same else _equal_copy(b.ran_spec, ref.ran, case["strip"])
        if b.dom_eq is not None:
            carriers.append(("equal_copy", b.dom_eq))
    argname = model._non_default_args[0]
    ctx.note("model", repr(type(model).__name__) + " %s -> %s" % (_label(case["dom"]), _label(case["ran"])))
    # ------------------------------------------------------------------ forward
    pts = _points(ref, rs, 3 if thorough else 2)
    expect_fwd_refusal = not ref.ran.has_fun2par
    n_rep_ok = 0
    oprep_nd = case.get("oprep", "dense") != "dense"
    for p in pts:
        f = np.asarray(ref.dom.par2fun(p), dtype=float)
        y_ref = None if expect_fwd_refusal else ref.forward(p)
        reps = [("nd_par", lambda: model.forward(p.copy()), "nd"),
                ("nd_fun", lambda: model.forward(f.copy(), is_par=False), "nd"),
                ("kw_par", lambda: model(**{argname: p.copy()}), "nd"),
                ("kw_fun", lambda: model.forward(is_par=False, **{argname: f.copy()}), "nd"),
                ("nd_par_ro_view", lambda: model.forward(_ro_view(p)), "nd"),
                ("nd_fun_ro_view", lambda: model.forward(_ro_view(f), is_par=False), "nd")]
        if isinstance(model, cuqi.model.LinearModel):
            reps.append(("matmul", lambda: model @ p.copy(), "nd"))
        for cname, cg in carriers:
            reps.append(("cq_par:" + cname, lambda cg=cg: model.forward(CUQIarray(p.copy(), is_par=True, geometry=cg)), "cq"))
            reps.append(("cq_fun:" + cname, lambda cg=cg: model.forward(CUQIarray(f.copy(), is_par=False, geometry=cg)), "cq"))
            reps.append(("cq_fun_flag:" + cname, lambda cg=cg: model.forward(CUQIarray(f.copy(), is_par=False, geometry=cg), is_par=False), "cq"))
        y_first = None
        for name, call, wrap in reps:
            _rec_clear()
            kind_, val = core.outcome(call)
            cfg = _cfg(case, rep=name.split(":")[0], carrier=(name.split(":")[1] if ":" in name else "none"))
            if b.traced_fwd and kind_ == "value":
                # the operator must have been handed the function values of p (once), whatever the representation
                ctx.count("callable_input_checked")
                got_in = [a[0] for a in _REC["fwd"]]
                if len(got_in) != 1 or got_in[0].shape != tuple(ref.dom.fun_shape) or not ctx.close(got_in[0], f, rtol=rtol, atol=1e-12 * _TS):
                    ctx.violation("forward_callable_input", cfg, detail="the forward operator received %s, the function values of p are %s" %
                                  ([a.tolist() for a in got_in][:2], f.tolist()))
            if kind_ == "crashed":
                ctx.violation("crash", {**cfg, "exc": type(val).__name__}, detail=repr(val)); continue
            if expect_fwd_refusal:
                ctx.count("forward_refusal_checked")
                if kind_ == "refused":
                    ctx.refused("forward without range fun2par", val)
                else:
                    ctx.violation("forward_not_refused", cfg, detail="range geometry has no fun2par but forward returned %s" % core.short(val, 120))
                continue
            if kind_ == "refused":
                ctx.violation("forward_unexpectedly_refused", {**cfg, "exc": type(val).__name__}, detail=repr(val)); continue
            ctx.count("forward_value_checked")
            if oprep_nd:
                ctx.count("operator_rep_checked")
            nn = _not_numeric(val)
            if nn:
                ctx.violation("forward_not_numeric", cfg, detail="forward returned " + nn); continue
            got = _flat(val)
            if got.shape != y_ref.shape or not ctx.close(got, y_ref, rtol=rtol, atol=1e-11 * _TS * _AS):
                ctx.violation("forward_value_mismatch", cfg, detail="p=%s\nforward=%s\nreference par2fun->F->fun2par=%s" % (p.tolist(), got.tolist(), y_ref.tolist()))
            else:
                n_rep_ok += 1
            if y_first is None:
                y_first = got
            else:
                ctx.count("representation_pairs_checked")
                if got.shape != y_first.shape or not ctx.close(got, y_first, rtol=rtol, atol=1e-11 * _TS * _AS):
                    ctx.violation("forward_representation_mismatch", cfg, detail="%s gives %s, ndarray parameters give %s" % (name, got.tolist(), y_first.tolist()))
            # wrapping
            ctx.count("forward_wrap_checked")
            why = _wrap_problem(val, wrap, ran_g, ref.ran.par_dim, CUQIarray)
            if why:
                ctx.violation("forward_wrapping", cfg, detail="%s: %s" % (name, why))
    # ------------------------------------------------------------------ samples
    Ns = case.get("Ns", 3)
    lo, hi = (0.5, 2.0) if ref.dom.positive_pars else (-1.0, 1.0)
    P = rs.uniform(lo, hi, size=(ref.dom.par_dim, Ns))
    for sname, mk in (("samples_geom", lambda: Samples(P.copy(), geometry=dom_g)), ("samples_plain", lambda: Samples(P.copy()))):
        kind_, val = core.outcome(lambda: model.forward(mk()))
        cfg = _cfg(case, rep=sname, carrier="none")
        if kind_ == "crashed":
            ctx.violation("crash", {**cfg, "exc": type(val).__name__}, detail=repr(val)); continue
        if expect_fwd_refusal:
            ctx.count("forward_refusal_checked")
            if kind_ != "refused":
                ctx.violation("forward_not_refused", cfg, detail="range geometry has no fun2par but forward(Samples) returned a value")
            continue
        if kind_ == "refused":
            ctx.violation("forward_unexpectedly_refused", {**cfg, "exc": type(val).__name__}, detail=repr(val)); continue
        ctx.count("forward_wrap_checked")
        if not isinstance(val, Samples):
            ctx.violation("forward_wrapping", cfg, detail="Samples in, %s out" % type(val).__name__); continue
        arr = np.asarray(val.samples, dtype=float)
        if arr.shape != (ref.ran.par_dim, Ns) or not (val.geometry is ran_g or val.geometry == ran_g) or val.is_par is not True:
            ctx.violation("forward_wrapping", cfg, detail="Samples out: shape %s (expected %s), geometry %r, is_par %r" % (arr.shape, (ref.ran.par_dim, Ns), val.geometry, val.is_par))
            continue
        for j in range(Ns):
            ctx.count("samples_columns_checked")
            yj = ref.forward(P[:, j])
            if not ctx.close(arr[:, j], yj, rtol=rtol, atol=1e-11 * _TS * _AS):
                ctx.violation("forward_value_mismatch", cfg, detail="column %d of forward(Samples)=%s reference=%s" % (j, arr[:, j].tolist(), yj.tolist()))
    # a sample collection of *function values* (Samples.funvals, is_par=False): honoured like a CUQIarray of function values, or refused
    if not expect_fwd_refusal:
        kind_, sf = core.outcome(lambda: Samples(P.copy(), geometry=dom_g).funvals)
        if kind_ == "value" and getattr(sf, "is_par", True) is False:
            kind_, val = core.outcome(lambda: model.forward(sf))
            cfg = _cfg(case, rep="samples_fun", carrier="none")
            ctx.count("samples_funvals_checked")
            if kind_ == "crashed":
                ctx.violation("crash", {**cfg, "exc": type(val).__name__}, detail=repr(val))
            elif kind_ == "refused":
                ctx.refused("forward(Samples of function values)", val)
            else:
                arr = np.asarray(getattr(val, "samples", val), dtype=float)
                want = np.column_stack([ref.forward(P[:, j]) for j in range(Ns)])
                if arr.shape != want.shape or not ctx.close(arr, want, rtol=rtol, atol=1e-11 * _TS * _AS):
                    ctx.violation("forward_samples_funvals_as_parameters", cfg,
                                  detail="forward(Samples(P).funvals) = %s, forward(Samples(P)) = %s" % (arr.tolist(), want.tolist()))
    nonident = not (b.dom_ident and b.ran_ident)
    if n_rep_ok >= 4 and nonident:
        ctx.nontrivial("fwd:%s>%s" % (_label(case["dom"]), _label(case["ran"])))
    # ------------------------------------------------------------------ gradient
    _gradient_monitor(case, ctx, b, rs, rtol)
    _history_monitor(case, ctx, b, rs, rtol)
    _adjoint_monitor(case, ctx, b, rs, rtol)


def _wrap_problem(val, wrap, geom, par_dim, CUQIarray):
    """wrapped like the input, expressed as parameters of the range/domain geometry `geom`"""
    if wrap == "nd":
        if isinstance(val, CUQIarray):
            return "plain ndarray in, CUQIarray out"
        if not isinstance(val, (np.ndarray, np.generic, float)):
            return "plain ndarray in, %s out" % type(val).__name__
    else:
        if type(val) is not CUQIarray:
            return "CUQIarray in, %s out" % type(val).__name__
        if val.is_par is not True:
            return "output CUQIarray has is_par=%r" % (val.is_par,)
        if not (val.geometry is geom or val.geometry == geom):
            return "output CUQIarray carries %r, expected %r" % (val.geometry, geom)
    if np.asarray(val).size != par_dim:
        return "output has %d entries, geometry has %d parameters" % (np.asarray(val).size, par_dim)
    if np.asarray(val).ndim > 1:
        return "output is %d-dimensional, parameters are vectors" % np.asarray(val).ndim
    return None


def _expected_grad_refusal(b, wrep):
    if not b.has_grad:
        return "model_without_gradient"
    if not b.ran_ident:
        return "range_geometry_not_identity"
    if not b.dom_ident and not b.ref.dom.has_gradient:
        return "domain_geometry_without_gradient"
    if wrep.endswith("fun") and not b.ref.dom.has_fun2par:      # (nd_fun, cq_fun, eq_cq_fun)
        return "wrt_function_values_without_fun2par"
    return None


def _gradient_monitor(case, ctx, b, rs, rtol):
    import cuqi
    CUQIarray, Samples = cuqi.array.CUQIarray, cuqi.samples.Samples
    model, ref = b.model, b.ref
    dom_g, ran_g = b.dom_obj, b.ran_obj
    thorough = ctx.tier == "thorough"
    can_forward = ref.ran.has_fun2par
    pts = _points(ref, rs, 2 if thorough else 1)
    for p in pts:
        d = rs.uniform(-1, 1, size=ref.ran.par_dim)
        f = np.asarray(ref.dom.par2fun(p), dtype=float)
        dfun = np.asarray(ref.ran.par2fun(d), dtype=float)        # the direction as a function value on the range
        # reference Jacobians
        J_ref = ref.jac(p)
        J_lib, err = None, None
        if can_forward:
            kind_, val = core.outcome(lambda: R.fd_jacobian(lambda q: _flat(model.forward(q)), p))
            if kind_ == "value":
                J_lib, err = val
                ctx.count("fd_jacobian_columns", len(p))
        if J_lib is not None and J_ref is not None:
            ctx.count("fd_jacobian_vs_reference")
            sc = max(_AS, float(np.max(np.abs(J_ref))))
            if not np.all(np.abs(J_lib - J_ref) <= 1e3 * _TS * err + 1e-6 * _TS * sc):
                ctx.inconclusive("finite differences of the real forward disagree with the analytic reference Jacobian (max %g, fd error estimate %g)"
                                 % (float(np.max(np.abs(J_lib - J_ref))), err))
                continue
        if J_lib is None and J_ref is None:
            g_exp = None
        else:
            g_exp = (J_ref if J_ref is not None else J_lib).T @ d
        g_fd = None if J_lib is None else J_lib.T @ d
        dreps = {"nd_par": (lambda: d.copy(), True, "nd"), "nd_fun": (lambda: dfun.copy(), False, "nd"),
                 "cq_par": (lambda: CUQIarray(d.copy(), is_par=True, geometry=ran_g), True, "cq"),
                 "cq_fun": (lambda: CUQIarray(dfun.copy(), is_par=False, geometry=ran_g), True, "cq")}
        wreps = {"nd_par": (lambda: p.copy(), True), "nd_fun": (lambda: f.copy(), False),
                 "cq_par": (lambda: CUQIarray(p.copy(), is_par=True, geometry=dom_g), True),
                 "cq_fun": (lambda: CUQIarray(f.copy(), is_par=False, geometry=dom_g), True)}
        dreps["ro_view_nd_par"] = (lambda: _ro_view(d), True, "nd")
        wreps["ro_view_nd_par"] = (lambda: _ro_view(p), True)
        wreps["ro_view_nd_fun"] = (lambda: _ro_view(f), False)
        if b.ran_eq is not None:
            dreps["eq_cq_fun"] = (lambda: CUQIarray(dfun.copy(), is_par=False, geometry=b.ran_eq), True, "cq")
        if b.dom_eq is not None:
            wreps["eq_cq_par"] = (lambda: CUQIarray(p.copy(), is_par=True, geometry=b.dom_eq), True)
            wreps["eq_cq_fun"] = (lambda: CUQIarray(f.copy(), is_par=False, geometry=b.dom_eq), True)
        g_first = None
        for dname, (mkd, dflag, wrap) in dreps.items():
            for wname, (mkw, wflag) in wreps.items():
                cfg = _cfg(case, drep=dname, wrep=wname)
                _rec_clear()
                kind_, val = core.outcome(lambda: model.gradient(mkd(), mkw(), is_direction_par=dflag, is_wrt_par=wflag))
                if kind_ == "value" and b.traced_grad and _REC["grad"]:
                    ctx.count("gradient_callable_input_checked")
                    a = _REC["grad"][-1]
                    w_in = a[-1]
                    okw = w_in.shape == tuple(ref.dom.fun_shape) and ctx.close(w_in, f, rtol=rtol, atol=1e-12 * _TS)
                    okd = len(a) == 1 or (a[0].size == dfun.size and ctx.close(a[0].reshape(dfun.shape), dfun, rtol=rtol, atol=1e-12 * _TS)
                                          and (a[0].shape == dfun.shape or dfun.size == 1))
                    if not (okw and okd):
                        ctx.violation("gradient_callable_input", cfg, detail="the model's gradient callable received direction/wrt %s; function values of d and p are %s / %s" %
                                      ([x.tolist() for x in a], dfun.tolist(), f.tolist()))
                if kind_ == "value" and ref.dom.has_gradient and _REC["geom"]:
                    ctx.count("geometry_gradient_input_checked")
                    w_in = _REC["geom"][-1][1]
                    if w_in.size != p.size or not ctx.close(w_in.reshape(-1), p, rtol=1e-7 * _TS, atol=1e-10 * _TS):
                        ctx.violation("geometry_gradient_input", cfg, detail="domain_geometry.gradient was evaluated at %s, the parameters are %s" % (w_in.tolist(), p.tolist()))
                exp_ref = _expected_grad_refusal(b, wname)
                if kind_ == "crashed":
                    ctx.violation("crash", {**cfg, "exc": type(val).__name__}, detail=repr(val)); continue
                if kind_ == "refused":
                    if exp_ref is None:
                        ctx.violation("gradient_unexpectedly_refused", {**cfg, "exc": type(val).__name__}, detail=repr(val))
                    else:
                        ctx.count("gradient_refusal_observed")
                        ctx.refused("gradient:" + exp_ref, val)
                        ctx.subkeys.add("gradrefuse:" + exp_ref)     # a class reached, not by itself a non-trivial case
                    continue
                # a value: it must be J^T d, whatever the configuration
                nn = _not_numeric(val)
                if nn:
                    ctx.violation("gradient_not_numeric", cfg, detail="gradient returned %s; a vector of %d parameters is documented" % (nn, ref.dom.par_dim)); continue
                if case.get("oprep", "dense") != "dense":
                    ctx.count("operator_rep_checked")
                got = _flat(val)
                if g_exp is None:
                    ctx.violation("gradient_not_refused", cfg, detail="no parameter-to-parameter map exists (range geometry without fun2par) but gradient returned a value")
                    continue
                ctx.count("gradient_value_checked")
                sc = max(_AS, float(np.max(np.abs(g_exp))))
                tol = (rtol * 10 if J_ref is not None else 0.0) * sc + (0.0 if J_ref is not None else 1e3 * _TS * err * np.sqrt(len(d)) + 1e-6 * _TS * sc)
                bad = got.shape != g_exp.shape or not np.all(np.isfinite(got)) or not np.all(np.abs(got - g_exp) <= tol + 1e-11 * _TS * _AS)
                if not bad and g_fd is not None:
                    ctx.count("gradient_vs_fd_of_real_forward")
                    bad = not np.all(np.abs(got - g_fd) <= 1e3 * _TS * err * np.sqrt(len(d)) + 1e-5 * _TS * sc)
                if bad:
                    mech = "gradient_mismatch" if exp_ref is None else "gradient_wrong_instead_of_refused"
                    ctx.violation(mech, cfg if exp_ref is None else {**cfg, "expected_refusal": exp_ref},
                                  detail="p=%s d=%s\ngradient=%s\nJ^T d=%s (J of the parameter-to-parameter map%s)" %
                                  (p.tolist(), d.tolist(), got.tolist(), g_exp.tolist(), ", analytic" if J_ref is not None else ", central differences of forward"))
                elif exp_ref is None:
                    ctx.nontrivial("grad:%s/%s" % (dname, wname))
                if g_first is None:
                    g_first = got
                elif got.shape == g_first.shape:
                    ctx.count("gradient_pairs_checked")
                    if not ctx.close(got, g_first, rtol=rtol * 10, atol=1e-11 * _TS * _AS):
                        ctx.violation("gradient_representation_mismatch", cfg, detail="%s/%s gives %s, first representation gave %s" % (dname, wname, got.tolist(), g_first.tolist()))
                ctx.count("gradient_wrap_checked")
                why = _wrap_problem(val, wrap, dom_g, ref.dom.par_dim, CUQIarray)
                if why:
                    ctx.violation("gradient_wrapping", cfg, detail=why)
        # sample collections are documented as unsupported for gradients
        for which in ("direction", "wrt"):
            ctx.count("gradient_samples_refusal_checked")
            if which == "direction":
                call = lambda: model.gradient(Samples(np.column_stack([d, d])), p.copy())
            else:
                call = lambda: model.gradient(d.copy(), Samples(np.column_stack([p, p])))
            kind_, val = core.outcome(call)
            if kind_ == "crashed":
                ctx.violation("crash", {**_cfg(case, drep="samples_" + which), "exc": type(val).__name__}, detail=repr(val))
            elif kind_ == "value":
                ctx.violation("gradient_samples_not_refused", _cfg(case, which=which), detail="gradient accepted a Samples %s and returned %s" % (which, core.short(val, 100)))
            else:
                ctx.refused("gradient:samples", val)


def _adjoint_monitor(case, ctx, b, rs, rtol):
    """LinearModel.adjoint (documented: input converted to function values with the range geometry, the operator's
    transpose applied, output converted to parameters with the domain geometry) on every representation of its input:
    numeric vector of domain par_dim entries, equal across representations, wrapped like the input."""
    import cuqi
    model, ref = b.model, b.ref
    if getattr(b, "lin_op", None) is None or not isinstance(model, cuqi.model.LinearModel):
        return
    CUQIarray, Samples = cuqi.array.CUQIarray, cuqi.samples.Samples
    dom_g, ran_g = b.dom_obj, b.ran_obj
    A = b.lin_op
    nd_oprep = case.get("oprep", "dense") != "dense"
    for _ in range(2):
        y = rs.uniform(-1, 1, size=ref.ran.par_dim)
        yf = np.asarray(ref.ran.par2fun(y), dtype=float)
        want = None
        if ref.dom.has_fun2par:
            z = (A.T @ yf.reshape(-1)).reshape(ref.dom.fun_shape)
            if not (ref.dom.kind == "mapped" and not np.all(np.isfinite(np.asarray(ref.dom.fun2par(z), dtype=float)))):
                want = np.asarray(ref.dom.fun2par(z), dtype=float).reshape(-1)
        reps = [("nd_par", lambda: model.adjoint(y.copy()), "nd"), ("nd_fun", lambda: model.adjoint(yf.copy(), is_par=False), "nd"),
                ("nd_par_ro_view", lambda: model.adjoint(_ro_view(y)), "nd"),
                ("cq_par", lambda: model.adjoint(CUQIarray(y.copy(), is_par=True, geometry=ran_g)), "cq"),
                ("cq_fun", lambda: model.adjoint(CUQIarray(yf.copy(), is_par=False, geometry=ran_g)), "cq"),
                ("samples", lambda: model.adjoint(Samples(np.column_stack([y, y]), geometry=ran_g)), "samples")]
        first = None
        for name, call, wrap in reps:
            cfg = _cfg(case, rep=name, monitor="adjoint")
            kind_, val = core.outcome(call)
            if kind_ == "crashed":
                ctx.violation("crash", {**cfg, "exc": type(val).__name__}, detail=repr(val)); continue
            if kind_ == "refused":
                if ref.dom.has_fun2par and want is not None:
                    ctx.violation("adjoint_unexpectedly_refused", {**cfg, "exc": type(val).__name__}, detail=repr(val))
                else:
                    ctx.refused("adjoint without domain fun2par", val)
                continue
            if want is None:
                continue                                  # (inverse map undefined on these values: nothing to compare with)
            ctx.count("adjoint_value_checked")
            if nd_oprep:
                ctx.count("operator_rep_checked")
            nn = _not_numeric(val)
            if nn:
                ctx.violation("adjoint_not_numeric", cfg, detail="adjoint returned " + nn); continue
            if wrap == "samples":
                if not isinstance(val, Samples) or np.asarray(val.samples).shape != (ref.dom.par_dim, 2):
                    ctx.violation("adjoint_wrapping", cfg, detail="Samples in, %s out" % type(val).__name__); continue
                got = np.asarray(val.samples, dtype=float)[:, 1]
            else:
                got = _flat(val)
                why = _wrap_problem(val, wrap, dom_g, ref.dom.par_dim, CUQIarray)
                if why:
                    ctx.violation("adjoint_wrapping", cfg, detail=why)
            sc = max(_AS, float(np.max(np.abs(want))))
            if got.shape != want.shape or not np.all(np.abs(got - want) <= rtol * 10 * sc + 1e-11 * _TS * _AS):
                ctx.violation("adjoint_value_mismatch", cfg, detail="adjoint(y)=%s, fun2par_domain(A^T par2fun_range(y))=%s" % (got.tolist(), want.tolist()))
            if first is None:
                first = got
            elif got.shape != first.shape or not np.all(np.abs(got - first) <= rtol * 10 * sc + 1e-11 * _TS * _AS):
                ctx.violation("adjoint_representation_mismatch", cfg, detail="%s gives %s, ndarray parameters give %s" % (name, got.tolist(), first.tolist()))


def _history_monitor(case, ctx, b, rs, rtol):
    """Several forward / gradient calls on ONE model object in which the input is one buffer that the caller updates in
    place between the calls (x -= step*g loops), seen as the ndarray itself, as a CUQIarray view on the same buffer, as
    a fresh array with the same values and as a function-value buffer: every result must belong to the *current*
    values (anything remembered by identity or from stale values shows here), and no call may modify its inputs."""
    import cuqi
    CUQIarray, Samples = cuqi.array.CUQIarray, cuqi.samples.Samples
    model, ref = b.model, b.ref
    dom_g, ran_g = b.dom_obj, b.ran_obj
    if not ref.ran.has_fun2par:
        return
    lo, hi = (0.5, 2.0) if ref.dom.positive_pars else (-1.0, 1.0)
    npar = ref.dom.par_dim
    x = rs.uniform(lo, hi, size=npar)                       # the caller's parameter buffer
    xq = CUQIarray(x, is_par=True, geometry=dom_g)           # a CUQIarray view on the same buffer
    shared = bool(np.shares_memory(np.asarray(xq), x))
    fbuf = np.array(ref.dom.par2fun(x), dtype=float)        # the caller's function-value buffer
    grad_nd_ok = _expected_grad_refusal(b, "nd_par") is None
    grad_fun_ok = _expected_grad_refusal(b, "nd_fun") is None
    d = rs.uniform(-1, 1, size=ref.ran.par_dim)
    steps = 5 if ctx.tier == "thorough" else 4

    def jtd(pt, dd):
        J = ref.jac(pt)
        if J is None:
            J, _ = R.fd_jacobian(ref.forward, pt)
        return J.T @ dd

    def unchanged(name, arrs_before, arrs_after, cfg):
        ctx.count("input_unchanged_checked")
        for a0, a1 in zip(arrs_before, arrs_after):
            if a0.shape != np.asarray(a1).shape or not np.array_equal(a0, np.asarray(a1), equal_nan=True):
                ctx.violation("input_mutated", cfg, detail="%s modified its input: before %s after %s" % (name, a0.tolist(), np.asarray(a1).tolist()))
                return

    def mutate(new_direction):
        x[:] = rs.uniform(lo, hi, size=npar)                 # in-place update of the caller's buffers (xq sees it too)
        fbuf[...] = ref.dom.par2fun(x)
        if new_direction:
            d[:] = rs.uniform(-1, 1, size=ref.ran.par_dim)

    def check_forward(cname, get, flag, k, phase):
        cfg = _cfg(case, carrier=cname, phase=phase, step=min(k, 1))
        arg = get()
        before = np.array(np.asarray(arg), dtype=float, copy=True)
        kind_, val = core.outcome(lambda: model.forward(arg, is_par=flag))
        if kind_ != "value":
            if kind_ == "crashed":
                ctx.violation("crash", {**cfg, "exc": type(val).__name__}, detail=repr(val))
            return                                           # refusals of single calls are judged by the forward monitor
        y_ref = ref.forward(x)
        ctx.count("forward_history_checked")
        if _not_numeric(val):
            ctx.violation("forward_not_numeric", cfg, detail="forward returned " + _not_numeric(val)); return
        if not ctx.close(_flat(val), y_ref, rtol=rtol, atol=1e-11 * _TS * _AS):
            ctx.violation("forward_history_mismatch", cfg, detail="call %d of a sequence on one model, input buffer updated in place: forward=%s, reference at the current values=%s"
                          % (k, _flat(val).tolist(), y_ref.tolist()))
        unchanged("forward", [before], [arg], cfg)

    def check_gradient(cname, get, flag, k, phase, factor):
        cfg = _cfg(case, carrier=cname, phase=phase, step=min(k, 1))
        arg = get()
        dd = d if factor == 1.0 else factor * d            # factor 1: the caller's direction buffer itself
        before = [np.array(np.asarray(arg), dtype=float, copy=True), dd.copy()]
        kind_, val = core.outcome(lambda: model.gradient(dd, arg, is_wrt_par=flag))
        if kind_ != "value":
            ctx.violation("crash" if kind_ == "crashed" else "gradient_unexpectedly_refused",
                          {**cfg, "exc": type(val).__name__, "drep": "nd_par", "wrep": cname}, detail=repr(val))
            return
        g_exp = factor * jtd(x.copy(), d)
        sc = max(_AS, float(np.max(np.abs(g_exp))))
        tol = (rtol * 10 * sc + 1e-11 * _TS * _AS) if ref.jac(x) is not None else 1e-6 * _TS * sc
        ctx.count("gradient_history_checked")
        if _not_numeric(val):
            ctx.violation("gradient_not_numeric", cfg, detail="gradient returned " + _not_numeric(val)); return
        got = _flat(val)
        if got.shape != g_exp.shape or not np.all(np.isfinite(got)) or not np.all(np.abs(got - g_exp) <= tol):
            ctx.violation("gradient_history_mismatch", cfg,
                          detail="call sequence on one model, linearisation point updated in place; step %d: gradient=%s, J(x)^T d at the current x=%s (x=%s)"
                          % (k, got.tolist(), g_exp.tolist(), x.tolist()))
        elif k > 0:
            ctx.nontrivial("history:" + cname)
        unchanged("gradient", before, [arg, dd], cfg)

    carriers = [("same_ndarray", lambda: x, True), ("cuqiarray_view" if shared else "cuqiarray_copy", lambda: xq, True),
                ("fresh_copy", lambda: x.copy(), True), ("funvals_buffer", lambda: fbuf, False)]
    if getattr(b, "dom_eq", None) is not None:
        xq2 = CUQIarray(fbuf, is_par=False, geometry=b.dom_eq)    # function values carried by an equal copy of the geometry
        carriers.append(("equal_copy_funvals_view", lambda: xq2, True))
    for cname, get, flag in carriers:
        grad_ok = grad_nd_ok if flag else grad_fun_ok
        if cname == "equal_copy_funvals_view":
            grad_ok = grad_nd_ok and grad_fun_ok
        # consecutive forward calls on the same object, updated in place in between
        for k in range(steps):
            if k > 0:
                mutate(False)
            check_forward(cname, get, flag, k, "forward_loop")
        if not grad_ok:
            continue
        # consecutive gradient calls: same point object; the direction changes only every second step, and the order of the
        # two directions alternates so that a call is followed by one with the same objects and the same direction but new values
        for k in range(steps):
            if k > 0:
                mutate(k % 2 == 0)
            for factor in ((1.0, -0.5) if k % 2 == 0 else (-0.5, 1.0)):
                check_gradient(cname, get, flag, k, "gradient_loop", factor)
        # interleaved (an optimisation loop: evaluate, differentiate, step)
        for k in range(2):
            mutate(False)
            check_forward(cname, get, flag, k + 1, "mixed_loop")
            check_gradient(cname, get, flag, k + 1, "mixed_loop", 1.0)
    # error path followed by re-use: calls that fail (wrong size, Samples as linearisation point, NaN input) must leave the
    # model usable and unchanged; the outcome of the failing calls themselves is not judged here
    mutate(True)
    for bad_call in (lambda: model.forward(np.ones(npar + 3)), lambda: model.gradient(d, Samples(np.column_stack([x, x]))),
                     lambda: model.forward(np.full(npar, np.nan)), lambda: model.gradient(np.ones(ref.ran.par_dim + 2), x),
                     lambda: model.forward(**{"no_such_argument": x})):
        try:
            bad_call()
        except Exception:  # noqa
            pass
        ctx.count("reuse_after_error_checked")
        check_forward("same_ndarray", lambda: x, True, 1, "after_error")
        if grad_nd_ok:
            check_gradient("same_ndarray", lambda: x, True, 1, "after_error", 1.0)
    # forward on a sample collection leaves the collection untouched
    P = rs.uniform(lo, hi, size=(npar, 2))
    S = Samples(P, geometry=dom_g)
    before = P.copy()
    kind_, val = core.outcome(lambda: model.forward(S))
    if kind_ == "value":
        unchanged("forward(Samples)", [before], [S.samples], _cfg(case, carrier="samples", step=0))


def _dist_monitor(case, ctx, b, rs):
    import cuqi
    model, ref = b.model, b.ref
    CUQIarray = cuqi.array.CUQIarray
    n = ref.dom.par_dim
    old_name = list(model._non_default_args)
    before = dict(vars(model))
    new_name = ["z", "y", "w", old_name[0]][case["v"] % 4]
    dist = cuqi.distribution.Gaussian(np.zeros(n), 1.0, name=new_name)
    cfg = _cfg(case, monitor="dist")
    how = ["call", "kw", "forward", "matmul"][rs.randint(0, 4)]
    if how == "matmul" and not isinstance(model, cuqi.model.LinearModel):
        how = "call"
    kind_, new = core.outcome({"call": lambda: model(dist), "kw": lambda: model(**{old_name[0]: dist}),
                               "forward": lambda: model.forward(dist), "matmul": lambda: model @ dist}[how])
    if kind_ != "value":
        ctx.violation("dist_rename_failed", {**cfg, "via": how}, detail=repr(new)); return
    ctx.count("dist_rename_checked")
    problems = []
    if new is model:
        problems.append("model(dist) returned the model itself")
    if type(new) is not type(model):
        problems.append("type changed to %s" % type(new).__name__)
    if list(getattr(new, "_non_default_args", [])) != [new_name]:
        problems.append("input name of the new model is %r, distribution is called %r" % (getattr(new, "_non_default_args", None), new_name))
    if list(model._non_default_args) != old_name:
        problems.append("the original model's input name changed to %r" % (model._non_default_args,))
    if dist.name != new_name:
        problems.append("the distribution's name changed")
    after = dict(vars(model))
    if set(after) != set(before) or any(after[k] is not before[k] for k in before if k != "_non_default_args"):
        problems.append("attributes of the original model were replaced")
    if isinstance(new, cuqi.model.Model):
        nv = vars(new)
        if set(nv) != set(before):
            problems.append("attribute set differs: %s" % sorted(set(nv) ^ set(before)))
        else:
            for k in before:
                if k == "_non_default_args":
                    continue
                same = nv[k] is before[k]
                if not same:
                    try:
                        same = bool(np.all(nv[k] == before[k]))
                    except Exception:  # noqa
                        same = False
                if not same:
                    problems.append("attribute %s differs between the model and its renamed copy" % k)
    for pr in problems:
        ctx.violation("dist_rename_side_effect", {**cfg, "via": how}, detail=pr)
    if problems and not isinstance(new, cuqi.model.Model):
        return
    # behaviour: identical forward / gradient values through every representation, by the new name
    rtol = 1e-8 * _TS
    p = _points(ref, rs, 1)[0]
    f = np.asarray(ref.dom.par2fun(p), dtype=float)
    y_ref = ref.forward(p)
    dom_g = b.dom_obj
    calls = [("orig_pos", lambda: model(p.copy())), ("orig_kw", lambda: model(**{old_name[0]: p.copy()})),
             ("new_pos", lambda: new(p.copy())), ("new_kw", lambda: new(**{new_name: p.copy()})),
             ("new_fun", lambda: new.forward(is_par=False, **{new_name: f.copy()})),
             ("new_cq_par", lambda: new(CUQIarray(p.copy(), geometry=dom_g))),
             ("new_cq_fun", lambda: new(**{new_name: CUQIarray(f.copy(), is_par=False, geometry=dom_g)})),
             ("new_samples", lambda: new(cuqi.samples.Samples(np.column_stack([p, p]), geometry=dom_g)).samples[:, 1])]
    for name, call in calls:
        kind_, val = core.outcome(call)
        ctx.count("dist_forward_checked")
        if kind_ != "value":
            ctx.violation("dist_rename_forward_failed", {**cfg, "call": name}, detail=repr(val)); continue
        if not ctx.close(_flat(val), y_ref, rtol=rtol, atol=1e-11 * _TS * _AS):
            ctx.violation("dist_rename_forward_mismatch", {**cfg, "call": name}, detail="%s vs reference %s" % (_flat(val).tolist(), y_ref.tolist()))
    if new_name != old_name[0]:
        for name, call in (("new_by_old_name", lambda: new(**{old_name[0]: p.copy()})), ("orig_by_new_name", lambda: model(**{new_name: p.copy()}))):
            kind_, val = core.outcome(call)
            ctx.count("dist_name_refusal_checked")
            if kind_ == "value":
                ctx.violation("dist_rename_name_not_enforced", {**cfg, "call": name}, detail="keyword call by the other name was accepted")
            elif kind_ == "refused":
                ctx.refused("keyword by the wrong name", val)
    # gradient of the renamed model equals the original's
    d = rs.uniform(-1, 1, size=ref.ran.par_dim)
    ko, go = core.outcome(lambda: model.gradient(d.copy(), p.copy()))
    kn, gn = core.outcome(lambda: new.gradient(d.copy(), p.copy()))
    ctx.count("dist_gradient_checked")
    if ko != kn or (ko == "value" and not ctx.close(_flat(go), _flat(gn), rtol=1e-12, atol=1e-13)):
        ctx.violation("dist_rename_gradient_differs", cfg, detail="original: %s %s; renamed: %s %s" % (ko, core.short(go, 200), kn, core.short(gn, 200)))
    if ko == "value":
        J = ref.jac(p)
        if J is not None and not ctx.close(_flat(gn), J.T @ d, rtol=1e-7 * _TS, atol=1e-10 * _TS):
            ctx.violation("gradient_mismatch", {**cfg, "drep": "nd_par", "wrep": "nd_par"}, detail="renamed model gradient %s vs J^T d %s" % (_flat(gn).tolist(), (J.T @ d).tolist()))
    # second rename on top of the first, the first copy keeps its name
    dist2 = cuqi.distribution.Gaussian(np.zeros(n), 1.0, name="q")
    k2, new2 = core.outcome(lambda: new(dist2))
    ctx.count("dist_rename_checked")
    if k2 != "value" or list(new2._non_default_args) != ["q"] or list(new._non_default_args) != [new_name] or list(model._non_default_args) != old_name:
        ctx.violation("dist_rename_side_effect", {**cfg, "via": "chained"}, detail="after a second rename: %r / %r / %r" %
                      (getattr(new2, "_non_default_args", new2), new._non_default_args, model._non_default_args))
    # a distribution of the wrong dimension is refused
    bad = cuqi.distribution.Gaussian(np.zeros(n + 1), 1.0, name="z")
    kb, vb = core.outcome(lambda: model(bad))
    ctx.count("dist_dim_refusal_checked")
    if kb == "value":
        ctx.violation("dist_dim_mismatch_accepted", cfg, detail="distribution of dimension %d accepted by a model with %d parameters" % (n + 1, n))
    elif kb == "refused":
        ctx.refused("distribution of wrong dimension", vb)
    else:
        ctx.violation("crash", {**cfg, "exc": type(vb).__name__}, detail=repr(vb))
    ctx.nontrivial("dist:" + case["model"])


# ----------------------------------------------------------------------------- reference self-test

def selftest(ctx):
    from scipy.fftpack import idst
    rs = np.random.RandomState(12)
    # KL reference against scipy's inverse sine transform
    for n, nm in ((5, None), (7, 3), (4, 4)):
        g = R.KL(n, nm, 1.5, 4.0)
        p = rs.standard_normal(g.par_dim)
        modes = np.zeros(n); modes[:g.par_dim] = p / (np.arange(1, g.par_dim + 1) ** 1.5) / 4.0
        if not np.allclose(g.par2fun(p), idst(modes) / 2, atol=1e-13):
            ctx.inconclusive("reference KL expansion disagrees with scipy idst")
        if not np.allclose(g.fun2par(g.par2fun(p)), p, atol=1e-10):
            ctx.inconclusive("reference KL fun2par is not a left inverse")
    # every geometry: fun2par(par2fun(p)) == p, dfun == finite differences of par2fun
    rnd = core.rng_for("selftest", PROPERTY)
    d1, d2 = _dom_templates()
    for t in d1 + d2:
        for _ in range(3):
            s = _size_geom(t, rnd, True)
            _fill_arrays(s, rs)
            g = R.make_geom(s)
            p = rs.uniform(0.5, 2.0, g.par_dim) if g.positive_pars else rs.uniform(-1, 1, g.par_dim)
            if g.has_fun2par and not np.allclose(g.fun2par(g.par2fun(p)), p, atol=1e-9):
                ctx.inconclusive("reference geometry %s: fun2par(par2fun(p)) != p" % _label(s))
            J, err = R.fd_jacobian(lambda q: np.asarray(g.par2fun(q)).reshape(-1), p)
            if not np.allclose(J, g.dfun(p), atol=1e-6):
                ctx.inconclusive("reference geometry %s: dfun disagrees with finite differences" % _label(s))
            if s["kind"] == "step" and g.margin < 1e-3:
                ctx.inconclusive("step grid has a node on an interval boundary")
    # operators: analytic Jacobian vs finite differences
    ops = [R.Nonlinear(rs.uniform(-1, 1, (3, 4)), rs.uniform(-1, 1, (4, 5)), rs.uniform(-1, 1, 4), rs.uniform(-1, 1, (3, 5))),
           R.WangCubic(), R.Heat(5, max_time=0.05),
           R.ParamPDE(4 * np.eye(4) + 0.3 * rs.uniform(-1, 1, (4, 4)), 0.1 * rs.uniform(-1, 1, (3, 4, 4)), rs.uniform(-1, 1, 4),
                      rs.uniform(-1, 1, (4, 3)), rs.uniform(-1, 1, (2, 4)))]
    for op in ops:
        u = rs.uniform(-1, 1, op.n)
        J, err = R.fd_jacobian(lambda q: np.atleast_1d(op(q)), u)
        if not np.allclose(J, op.jac(u), atol=1e-6):
            ctx.inconclusive("reference operator %s: Jacobian disagrees with finite differences" % type(op).__name__)
    # Poisson reference solves its own system
    po = R.Poisson(6)
    kap = rs.uniform(0.5, 2, 6)
    u = po(kap)
    if not np.allclose(po.Dx.T @ np.diag(kap) @ po.Dx @ u, po.rhs, atol=1e-9):
        ctx.inconclusive("reference Poisson solve is inconsistent")
