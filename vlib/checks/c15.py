"""C15 - MAP/ML estimates are true maximisers; direct Gaussian sampling has exact moments.

Workload
  lg : linear-Gaussian BayesianProblems over sizes (under/square/over-determined), every
       specification of the two Gaussians (cov / prec / sqrtcov / sqrtprec  x  scalar / vector /
       diagonal matrix / full / sparse), prior means (zero / scalar / vector), matrix-, sparse-matrix-
       and function-backed LinearModels, generic Models (optimisation route), GMRF priors, identity-like
       (default, Continuous1D, Discrete, Image2D C/F) and expansion (Step, KL, mapped-linear) geometries,
       with/without compute_cov(), re-specification of the prior after the problem was built.
  nl : non-linear / non-Gaussian problems through the optimisation route (tanh / cubic forward maps with
       Jacobian, gradient or none; Cauchy, Laplace, smoothed Laplace, LMRF, CMRF priors; Cauchy and Laplace
       noise; WangCubic).
Monitors
  * pass-through recorders on cuqi.solver.minimize / L_BFGS_B (route taken, solver's own result),
  * BayesianProblem._sampleMapCholesky contract (route of sample_posterior / UQ),
  * scripted numpy.random.randn: the direct sampler's draws are read off as an affine map x_bar + B e.
Oracle
  * closed-form posterior mean / covariance / weighted least squares (vlib/refs/c15_ref.py) built from the
    model's observed parameter-space action forward(e_i) and the harness' own covariance matrices,
  * for every returned estimate: no probed nearby point (64 random, +-h e_i, gradient direction, polished
    point of an independent search) has a larger log-density as evaluated by the real posterior/likelihood,
    and the gradient, where defined, is small relative to its size away from the estimate,
  * a refusal (ValueError/TypeError/NotImplementedError) is accepted, a wrong value is not.
"""
import numpy as np
import scipy.sparse as sps
import scipy.optimize as sopt
from vlib import core
from vlib.rngscript import Scripted
from vlib.contracts import ContractLog, ensure
from vlib.refs import c15_ref as R
from vlib.refs import stencils as S

PROPERTY = "C15"
RULE = ("lg: stratified sampling of (size class, model backing, domain/range geometry, prior and noise "
        "specification form x shape, prior mean form, compute_cov, build path, re-specification history); "
        "nl: family x size x start point. A case is non-trivial when an estimate (or direct-sampler affine map) "
        "returned by the library was compared against the closed form or probed in its neighbourhood, the "
        "reference posterior mean differs from both the prior mean and the likelihood-only solution, or when a "
        "refusal was observed for a configuration that cannot be computed; distinct = distinct descriptors")
ASSUMPTIONS = [
    "the observed parameter-space action forward(e_i) of the model defines the linear map of the posterior "
    "(correctness of forward itself is C07/C13)",
    "sqrtcov specifications are symmetric (R R^T vs R^T R for non-symmetric R is a C04 documentation finding)",
    "refusal = ValueError (incl. LinAlgError) / TypeError / NotImplementedError raised by the call",
    "posterior.logd / likelihood.logd of the tree under test arbitrate 'larger value' (their correctness is C03/C04); "
    "an independent numpy log-density is used to search for better points and as a cross-check",
]
REQUIRED_COUNTERS = {
    "quick": {"lg_map_closed_form_compared": 140, "lg_map_optim_compared": 65, "ml_wls_compared": 80,
              "ml_underdetermined_compared": 22, "direct_mean_compared": 120, "direct_cov_compared": 120,
              "neighbourhood_points_probed": 40000, "nl_estimates_probed": 130, "gradient_norm_checked": 200,
              "solver_result_passthrough_checked": 300},
    "thorough": {"lg_map_closed_form_compared": 1050, "lg_map_optim_compared": 500, "ml_wls_compared": 550,
                 "ml_underdetermined_compared": 190, "direct_mean_compared": 960, "direct_cov_compared": 960,
                 "neighbourhood_points_probed": 360000, "nl_estimates_probed": 850, "gradient_norm_checked": 1500,
                 "solver_result_passthrough_checked": 2150},
}
BUDGET_S = {"quick": 240.0, "thorough": 1500.0}

REFUSALS = (ValueError, TypeError, NotImplementedError)

# tolerances (see the measurements quoted in the report; >= 100x the largest discrepancy seen on the unchanged tree)
TOL_DIRECT_REL = 1e-7        # closed-form route, in posterior standard deviations: 1e-7 + TOL*1e-2*(size of the numbers in sd)
TOL_GAP_REL = 1e-5           # optimisation route: f(x_ref) - f(x) <= TOL * max(1, f(x_ref) - f(x_start))
TOL_GAIN_REL = 1e-6          # neighbourhood: logd(x+d) - logd(x) <= TOL * max(1, |logd(x) - logd(x_start)|)
TOL_GRAD_REL = 1e-2          # |grad(x)|_inf <= TOL * gradient scale away from x
TOL_COV_REL = 1e-6
ABS_TOL_GAP = 1e-5           # linear-Gaussian cases: log-density gaps are scale free (0.5 = one posterior standard deviation)
GROSS_RATIO = 1.0            # non-smooth objectives: a neighbour better by more than the whole climb from the start is never excused

# ----------------------------------------------------------------------------- case generation

_GEOMS_MATRIX = ("default", "cont1d", "discrete", "step", "kl", "klfull", "mapped", "mapscalar")
_GEOMS_FUNC = ("default", "cont1d", "discrete", "image2d", "image2dF", "step", "kl", "klfull", "mapped", "mapscalar")
_NL_FAMILIES = ("nonlin_jac", "nonlin_grad", "nonlin_nograd", "cauchy", "slaplace", "laplace", "lmrf", "cmrf",
                "wang", "gmrf_nonlin", "nonlin_fullcov", "nonlin_ml")

def _is_big(tier, i):
    """Cases whose parameter and/or data dimension lies above cuqi.config.MIN_DIM_SPARSE (75), where the Gaussian takes its
    eigen-decomposition / sparse code paths."""
    return i % (23 if tier == "quick" else 19) == 5

def _pick_size(rng, tier, i):
    r = rng.random()
    if tier == "quick":
        n = rng.randint(2, 12) if r < 0.85 else rng.randint(13, 30)
    else:
        n = rng.randint(2, 12) if r < 0.6 else (rng.randint(13, 40) if r < 0.93 else rng.randint(41, 70))
    return n

_SCALES = (-12, -10, -8, -6, -4, 0, 4, 8)
_MODELS = ("matrix", "func", "spmatrix", "func", "matrix", "Model_jac", "Model_grad", "Model_nograd", "func", "matrix", "funcview")
_VIEWS = ("identity", "subsample", "window", "reverse", "image_transpose")
_STRUCTURED = ("blockdiag", "blockdiag", "banded", "kron")

def _lg_case(rng, tier, i, specs_p, specs_e, models):
    form_p, shape_p = specs_p[i]
    form_e, shape_e = specs_e[i]
    model = models[i]
    geoms = _GEOMS_MATRIX if model in ("matrix", "spmatrix") else _GEOMS_FUNC
    dgeom = rng.choice(geoms) if rng.random() < 0.7 else "default"
    n = _pick_size(rng, tier, i)
    big = _is_big(tier, i)
    big_side = rng.choice(["n", "m", "both"]) if big else None
    view = None
    if model == "funcview":
        # function-backed LinearModel whose forward (and, where possible, adjoint) returns a VIEW of its input
        view = rng.choice(_VIEWS)
        dgeom = "image2d" if view == "image_transpose" else rng.choice(["default", "cont1d", "discrete"])
        big = False
    if big:
        if model == "Model_nograd":
            model = "Model_grad"                         # finite-difference gradients in ~100 dimensions are too slow
        if dgeom in ("image2d", "image2dF"):
            dgeom = "default"
        n = rng.randint(8, 30) if big_side == "m" else rng.randint(76, 120 if big_side == "n" else 100)
    if dgeom in ("image2d", "image2dF"):
        h, w = rng.randint(2, 4), rng.randint(2, 4)
        n = h * w
    else:
        h = w = 0
    if model == "Model_jac" and dgeom == "image2dF":
        model = "Model_grad"        # a flat Jacobian cannot express an image-shaped gradient in F order
    if model.startswith("Model") and n > 14 and not h and not big:
        n = rng.randint(2, 12)                       # optimisation route: keep the search cheap
    cls = rng.choice(["over", "over", "square", "under"])
    m = n if cls == "square" else (n + rng.randint(1, max(2, n // 2 + 1)) if cls == "over" else max(1, n - rng.randint(1, max(1, n // 2))))
    rgeom = "default"
    if model not in ("matrix", "spmatrix", "Model_jac"):
        rr = rng.random()
        rgeom = "cont1d" if rr < 0.15 else ("image2d" if rr < 0.3 else "default")
    elif rng.random() < 0.2:
        rgeom = "cont1d"
    if big:
        if rgeom == "image2d":
            rgeom = "default"
        if big_side == "m":
            m = rng.randint(76, 120)
        elif big_side == "both":
            m = n + rng.randint(0, 20)
    rh = rw = 0
    if rgeom == "image2d":
        rh, rw = rng.randint(1, 4), rng.randint(2, 4)
        m = rh * rw
    if view is not None:
        rgeom = "cont1d" if rng.random() < 0.3 else "default"
        rh = rw = 0
        if view in ("identity", "reverse"):
            m = n
        elif view == "subsample":
            m = (n + 1) // 2
        elif view == "window":
            m = max(1, n - rng.randint(1, max(1, n // 2)))
            view = "window%d" % rng.randint(0, n - m)            # offset of the window
        else:                                                    # X.T[:-1, :] : (h, w) image -> (w-1, h) image
            rgeom, rh, rw = "image2d", w - 1, h
            m = rh * rw
    nf = n
    if dgeom == "step":
        nf = n * rng.randint(1, 3) + rng.randint(0, 2)
        if nf == n and rng.random() < 0.7:
            nf = n + rng.randint(1, 4)
    elif dgeom == "kl":
        nf = n + rng.randint(1, 6)
    # specifications that are known to end in a refusal (sparse non-cov forms; non-cov forms above MIN_DIM_SPARSE,
    # where compute_cov returns a numpy.matrix) are kept but thinned so that most cases produce a value to judge
    if shape_p == "sparse" and form_p != "cov" and rng.random() < 0.7:
        shape_p = "full"
    if shape_e == "sparse" and form_e != "cov" and rng.random() < 0.7:
        shape_e = "full"
    if big:
        # structured dense matrices (independent groups, bands, separable) in every parameterisation on the large side(s)
        if big_side in ("n", "both") and rng.random() < 0.8:
            shape_p = rng.choice(_STRUCTURED)
            if rng.random() < 0.35: form_p = "cov"
        if big_side in ("m", "both") and rng.random() < 0.8:
            shape_e = rng.choice(_STRUCTURED)
            if rng.random() < 0.35: form_e = "cov"
    # above MIN_DIM_SPARSE compute_cov() of a Gaussian with a sparse-stored (scalar/vector/diagonal) non-cov matrix returns a
    # numpy.matrix and the closed form refuses: keep some, thin the rest
    if n > 75 and shape_p in ("scalar", "vector", "diagmat", "sparse") and rng.random() < 0.7:
        form_p = "cov"
    if m > 75 and shape_e in ("scalar", "vector", "diagmat", "sparse") and rng.random() < 0.7:
        form_e = "cov"
    prior = {"type": "gaussian", "form": form_p, "shape": shape_p, "scale": rng.choice([0.3, 1.0, 3.0])}
    if model in ("matrix", "func") and dgeom in ("default", "cont1d") and i % 9 == 4 and n >= 3:
        prior = {"type": "gmrf", "order": rng.choice([1, 2]), "delta": rng.choice([0.5, 3.0, 20.0])}
    tp = None
    if i % 25 == 11:
        # the library's own Deconvolution1D test problem (convolution operator backed by functions, or the legacy matrix)
        model, dgeom, rgeom, h, w, rh, rw, view = "deconv1d", "cont1d", "cont1d", 0, 0, 0, 0, None
        n = m = nf = rng.randint(8, 28 if tier == "quick" else 48)
        legacy = rng.random() < 0.25
        tp = {"psf": "Gauss" if legacy else rng.choice(["Gauss", "Moffat", "Defocus"]),
              "bc": "periodic" if legacy else rng.choice(["periodic", "zero", "Mirror", "Reflect", "Nearest"]),
              "phantom": rng.choice(["Gauss", "sinc", "pc", "skyscraper"]), "legacy": legacy,
              "noise_std": rng.choice([0.01, 0.05, 0.2])}
        form_e, shape_e = "cov", "scalar"
        prior = {"type": "gaussian", "form": form_p, "shape": shape_p, "scale": rng.choice([0.3, 1.0, 3.0])}
    case = {"kind": "lg", "i": i, "n": n, "m": m, "nf": nf, "h": h, "w": w, "rh": rh, "rw": rw, "tp": tp, "view": view,
            "model": model, "dgeom": dgeom, "rgeom": rgeom, "prior": prior,
            "noise": {"form": form_e, "shape": shape_e, "scale": rng.choice([0.01, 0.05, 0.3, 1.0])},
            "mean": rng.choice(["vector"] * 8 + ["zero", "zero", "scalar", "scalar0"]),
            "prior_geom": rng.random() < 0.4,
            "compute_cov": rng.random() < 0.9,
            "build": rng.choice(["set_data", "set_data", "kwargs", "likelihood"]),
            "respec": rng.choice(["none"] * 5 + ["mean", "matrix", "matrix", "noise", "swap_prior"]),
            "pre_map": False,
            "via": "UQ" if (i % 53 == 7 and dgeom in ("default", "cont1d") and n <= 12) else "sample_posterior",
            "disp": rng.random() < 0.2,
            "x0": rng.choice(["default", "default", "random"])}
    # history: estimates / draws computed before a re-specification must not leak into the ones computed after it
    case["pre_map"] = rng.random() < (0.6 if case["respec"] != "none" else 0.2)
    # scale axis: prior covariance x 10^kx, noise covariance x 10^ke (extreme but legal magnitudes); the operator is
    # scaled by 10^((ke-kx)/2) in the builder so that the signal-to-noise ratio, hence the conditioning of the
    # posterior, is that of the unscaled problem
    if rng.random() < 0.45:
        kx = ke = 0
    else:
        kx = rng.choice(_SCALES)
        ke = kx if rng.random() < 0.4 else rng.choice(_SCALES)
    if view is not None:
        ke = kx                                   # a view of the input cannot be rescaled
    if tp is not None:
        ke = kx                                   # the test problem's operator cannot be rescaled
        tp["noise_std"] = tp["noise_std"] * 10.0 ** (ke / 2)
    case["kx"], case["ke"] = kx, ke
    if (kx, ke) != (0, 0) and rng.random() < 0.7:
        case["x0"] = "near"          # user-specified initial guess a few standard deviations from the solution (the default
                                     # start, a vector of ones, is up to 1e6 standard deviations away at these scales)
    if prior["type"] == "gmrf":
        prior["delta"] = prior["delta"] * 10.0 ** (-kx)
    else:
        prior["scale"] = prior["scale"] * 10.0 ** kx
        if prior["shape"] == "full" and rng.random() < 0.35:
            prior["shape"] = "corr"
    case["noise"]["scale"] = case["noise"]["scale"] * 10.0 ** ke
    if case["noise"]["shape"] == "full" and rng.random() < 0.35:
        case["noise"]["shape"] = "corr"
    return case

def cases(tier, seed):
    rng = core.rng_for(seed, PROPERTY, tier)
    n_lg, n_nl = (800, 300) if tier == "quick" else (6000, 2000)
    specs = [(f, s) for f in R.FORMS for s in R.SHAPES]
    def blocks(items, total):        # every block of len(items) cases covers all values, in a fresh random order
        seq = []
        while len(seq) < total:
            blk = list(items); rng.shuffle(blk); seq += blk
        return seq[:total]
    specs_p, specs_e, models = blocks(specs, n_lg), blocks(specs, n_lg), blocks(_MODELS, n_lg)
    out = []
    for i in range(n_lg):
        out.append(_lg_case(rng, tier, i, specs_p, specs_e, models))
    for i in range(n_nl):
        fam = _NL_FAMILIES[i % len(_NL_FAMILIES)]
        n = 2 if fam == "wang" else rng.randint(3 if fam == "gmrf_nonlin" else 2, 10 if tier == "quick" else 14)
        over = fam in ("nonlin_ml", "cauchy", "cmrf") or rng.random() < 0.6      # cauchy/cmrf: over-determined, so that unimodality can be guaranteed
        m = 1 if fam == "wang" else (n + rng.randint(1, n + 2) if over else max(1, n - rng.randint(0, n // 2)))
        out.append({"kind": "nl", "i": i, "family": fam, "n": n, "m": m,
                    "fun": rng.choice(["tanh", "cubic"]), "x0": rng.choice(["default", "default", "random", "cuqiarray"]),
                    "noise_scale": rng.choice([0.01, 0.05, 0.3]), "prior_scale": rng.choice([0.3, 1.0, 3.0]),
                    "disp": rng.random() < 0.2})
    # interleave so that every shard sees a mix of cheap and expensive cases
    rng.shuffle(out)
    return out

def crash_config(case):
    if case.get("kind") == "lg":
        return _cfg_lg(case)
    return {"kind": "nl", "family": case.get("family")}

def _cfg_lg(case):
    p = case["prior"]
    return {"kind": "lg", "model": case["model"], "dgeom": case["dgeom"], "rgeom": case["rgeom"],
            "prior_type": p["type"], "prior_form": p.get("form", "gmrf"), "prior_shape": p.get("shape", "gmrf"),
            "noise_form": case["noise"]["form"], "noise_shape": case["noise"]["shape"],
            "mean": case["mean"], "compute_cov": case["compute_cov"], "respec": case["respec"],
            "kx": case.get("kx", 0), "ke": case.get("ke", 0), "view": (case.get("view") or "none").rstrip("0123456789"),
            "geom_identity": case["dgeom"] in ("default", "cont1d", "discrete", "image2d", "image2dF")
                             or (case["dgeom"] == "step" and case["nf"] == case["n"])}

# ----------------------------------------------------------------------------- monitors

class SolverRecorder:
    """Pass-through recorder on the solver classes BayesianProblem looks up at call time."""
    def __enter__(self):
        import cuqi
        self.calls = []
        self._saved = {k: getattr(cuqi.solver, k) for k in ("minimize", "L_BFGS_B")}
        rec = self
        def wrap(cls, label):
            class Recording(cls):
                def solve(self):
                    sol, info = cls.solve(self)
                    rec.calls.append({"solver": label, "has_grad": self.gradfunc is not None,
                                      "x0": np.array(self.x0, dtype=float, copy=True),
                                      "sol": np.array(sol, dtype=float, copy=True),
                                      "success": bool(info.get("success")), "nit": int(info.get("nit", -1))})
                    return sol, info
            Recording.__name__ = cls.__name__
            return Recording
        for k, cls in self._saved.items():
            setattr(cuqi.solver, k, wrap(cls, k))
        return self
    def __exit__(self, *a):
        import cuqi
        for k, cls in self._saved.items():
            setattr(cuqi.solver, k, cls)
        return False

def _call(fn, *a, **k):
    """value / refused / crashed with the refusal types of this property."""
    return core.outcome(fn, *a, refusal=REFUSALS, **k)

def _vec(x):
    return np.asarray(x, dtype=float).ravel()

def optim_tolerance(H, xref, climb=None, exact_grad=False):
    """Log-density gap (a scale-free quantity: 0.5 = one posterior standard deviation) that a correct
    optimiser may leave on a quadratic with Hessian H.  It stops at |g|_inf <= gtol (1e-5 absolute, scipy
    default) or at the accuracy of its gradients (forward differences with absolute step 1.5e-8*max(1,|x|):
    about 1e-8*lambda_max*(1+|x|); exact gradients: rounding, 1e-13*lambda_max*|x|), and then
    f(x*) - f(x) <= |g|_2^2 / (2 lambda_min).  Factor 100 on top, floor ABS_TOL_GAP.
    Returns (tolerance, well_posed): when the derived tolerance exceeds 1e-2 (a tenth of a standard
    deviation) the problem is badly scaled for the library's fixed solver settings and is not judged."""
    w = np.linalg.eigvalsh(0.5 * (H + H.T))
    n = len(w)
    if w[0] <= 0:
        return ABS_TOL_GAP, False
    xm = float(np.max(np.abs(xref)))
    g_ach = 1e-5 + (1e-13 * w[-1] * xm if exact_grad else 1e-8 * w[-1] * (1.0 + xm))
    derived = 100.0 * n * g_ach ** 2 / (2.0 * w[0])
    tol = max(ABS_TOL_GAP, derived)
    return tol, bool(tol <= 1e-2)

# ----------------------------------------------------------------------------- neighbourhood oracle

def _safe_logd(dens, x):
    try:
        v = dens.logd(x)
        v = float(np.asarray(v).ravel()[0])
        return v
    except REFUSALS:
        return None

def _is_local_max_of(F, xh, x_better, gain, tol):
    """True when xh is a stationary point of F up to what `tol` allows: central-difference gradient g and Hessian H of the
    independent density; if H is negative definite the Newton decrement 0.5 g^T (-H)^-1 g must be below tol (xh is within
    tol of the top of its own basin); otherwise (saddle) the first-order gain g.(x_better-xh) must be a negligible part of
    the observed gain."""
    n = len(xh)
    h = 1e-4 * max(1.0, float(np.max(np.abs(xh))))
    E = np.eye(n) * h
    g = np.array([(F(xh + E[i]) - F(xh - E[i])) / (2 * h) for i in range(n)])
    H = np.zeros((n, n)); f0 = F(xh)
    for i in range(n):
        H[i, i] = (F(xh + E[i]) - 2 * f0 + F(xh - E[i])) / h ** 2
        for j in range(i):
            H[i, j] = H[j, i] = (F(xh + E[i] + E[j]) - F(xh + E[i] - E[j]) - F(xh - E[i] + E[j]) + F(xh - E[i] - E[j])) / (4 * h * h)
    if not (np.all(np.isfinite(g)) and np.all(np.isfinite(H))):
        return False
    w = np.linalg.eigvalsh(H)
    if w[-1] < 0:
        dec = 0.5 * float(g @ np.linalg.solve(-H, g))
        return bool(dec <= tol)
    return bool(abs(float(g @ (x_better - xh))) <= 0.01 * gain)

def probe_estimate(ctx, cfg, dens, xh, x_start, rs, f_ref=None, smooth=True, label="MAP", tol_floor=0.0, metric=None, solver_gtol=None):
    """Neighbourhood + gradient oracle for one returned estimate.  Returns a small dict of facts.
    `metric` = reference Hessian of the (quadratic) log-density when the harness knows it: neighbours are then
    also generated in units of standard deviations (the problem may live at any scale) and the tolerance on the
    gain is absolute in log-density units instead of relative to the climb from the start."""
    n = len(xh)
    Wm = None
    if metric is not None:
        try:
            Lm = np.linalg.cholesky(0.5 * (metric + metric.T))
            Wm = np.linalg.inv(Lm).T                      # columns: unit steps (1 sd) of the whitened coordinates
        except np.linalg.LinAlgError:
            Wm = None
    f0 = _safe_logd(dens, xh)
    if f0 is None or not np.isfinite(f0):
        ctx.count("logd_unavailable_at_estimate")
        return {"probed": False}
    fs = _safe_logd(dens, x_start)
    climb = abs(f0 - fs) if (fs is not None and np.isfinite(fs)) else 0.0
    if Wm is not None:
        tol = max(ABS_TOL_GAP * max(1.0, 1e-3 * abs(f0)), tol_floor)
    else:
        tol = max(TOL_GAIN_REL * max(1.0, climb, 1e-3 * abs(f0)), tol_floor)
    scale = max(1.0, float(np.linalg.norm(xh)))
    cands = []
    if Wm is not None:
        for _ in range(48):
            u = rs.standard_normal(n); u /= max(np.linalg.norm(u), 1e-300)
            cands.append(("random_sd", xh + Wm @ u * 10 ** rs.uniform(-2, 0.5)))
        if n <= 130:
            # central differences of the library's own logd along the whitened axes -> its Newton step
            hh = 0.5
            gw = np.zeros(n); ok = True
            for i in range(n):
                xp_, xm_ = xh + hh * Wm[:, i], xh - hh * Wm[:, i]
                cands.append(("whitened_axis", xp_)); cands.append(("whitened_axis", xm_))
                fp, fm = _safe_logd(dens, xp_), _safe_logd(dens, xm_)
                if fp is None or fm is None or not (np.isfinite(fp) and np.isfinite(fm)):
                    ok = False; break
                gw[i] = (fp - fm) / (2 * hh)
            if ok and np.linalg.norm(gw) > 0:
                for t in (1.0, 0.5, 0.1):
                    cands.append(("newton_fd", xh + t * (Wm @ gw)))
    for _ in range(64):
        d = rs.standard_normal(n); d /= max(np.linalg.norm(d), 1e-300)
        cands.append(("random", xh + d * scale * 10 ** rs.uniform(-3, -1)))
    for h in (1e-4, 1e-2):
        for i in range(min(n, 40)):
            for s in (1.0, -1.0):
                d = np.zeros(n); d[i] = s * h * scale
                cands.append(("coordinate", xh + d))
    g = None
    try:
        g = _vec(dens.gradient(xh))
        if g.shape != (n,) or not np.all(np.isfinite(g)):
            g = None
    except Exception:   # gradient not defined for this density / geometry: nothing to check
        g = None
    if g is not None and np.linalg.norm(g) > 0:
        for t in (1e-5, 1e-4, 1e-3, 1e-2):
            cands.append(("gradient", xh + t * scale * g / np.linalg.norm(g)))
        if Wm is not None:
            for t in (1.0, 0.3, 0.03):
                cands.append(("newton", xh + t * (Wm @ (Wm.T @ g))))
    # independent search for a better nearby point (on the numpy reference density when there is one)
    F = f_ref if f_ref is not None else (lambda x: _safe_logd(dens, x) or -np.inf)
    try:
        budget = 120 * n if f_ref is not None else 25 * n
        res = sopt.minimize(lambda x: -F(x), xh, method="Powell", options={"maxfev": budget, "xtol": 1e-9, "ftol": 1e-13})
        xp = _vec(res.x)
        step = xp - xh
        r = np.linalg.norm(step)
        if np.all(np.isfinite(xp)) and r > 0:
            if r > 0.1 * scale:
                step *= 0.1 * scale / r
            cands.append(("polished", xh + step))
            cands.append(("polished_half", xh + 0.5 * step))
    except Exception:   # the search is only a source of candidates
        pass
    # an optimiser that stopped at |g|_inf <= gtol may leave, at distance d, a first-order gain of |g|_2 d <= sqrt(n) gtol d
    # (flat shoulders of non-concave posteriors); factor 100.  Not granted to the closed-form route.
    slope = 100.0 * np.sqrt(n) * solver_gtol if solver_gtol else 0.0
    tol0 = tol
    best, best_kind, best_x, best_excess = 0.0, None, None, -np.inf
    nprobed = 0
    for kind, x in cands:
        v = _safe_logd(dens, x)
        if v is None or np.isnan(v):
            continue
        nprobed += 1
        excess = (v - f0) - max(tol, slope * float(np.linalg.norm(x - xh)))
        if excess > best_excess:
            best_excess, best, best_kind, best_x = excess, v - f0, kind, x
    ctx.count("neighbourhood_points_probed", nprobed)
    if best_x is not None:
        tol = max(tol, slope * float(np.linalg.norm(best_x - xh)))
    best = max(best, 0.0)
    facts = {"probed": True, "gain": best, "tol": tol, "climb": climb}
    c2 = {**cfg, "target": label, "smooth": smooth}
    if best > tol and smooth and Wm is None and f_ref is not None and n <= 16 and _is_local_max_of(f_ref, xh, best_x, best, tol):
        # the estimate is (within tolerance) a stationary point of the specified density itself, yet a better point exists at a
        # finite distance: the posterior has several stationary points, i.e. it is not unimodal - outside the property's quantifier
        ctx.count("multimodal_posterior_not_judged")
        facts["multimodal"] = True
        best = 0.0
    if best > tol:
        # "stall": the solver climbed and stopped short of the top; "gross": the neighbourhood offers more than the whole climb
        c2 = {**c2, "severity": "gross" if best > GROSS_RATIO * max(1.0, climb) else "stall"}
        detail = (f"{label} estimate is not a local maximiser: logd(x)={f0:.12g}, a {best_kind} point at distance "
                  f"{np.linalg.norm(best_x - xh):.3g} has logd larger by {best:.3g} (tolerance {tol:.3g}, climb from start {climb:.3g})")
        ctx.violation("not_local_max", c2, detail, witness={"x": xh, "better": best_x})
    if f_ref is not None:
        # cross-check with the independent density: the estimate must also be a local maximiser of it
        r0 = F(xh)
        rbest, rex = 0.0, -np.inf
        for _, x in cands:
            gr = F(x) - r0
            ex = gr - max(tol0, 1e-6 * abs(r0), slope * float(np.linalg.norm(x - xh)))
            if ex > rex:
                rex, rbest = ex, gr
        ctx.count("reference_density_crosschecks")
        if rex > 0 and best <= tol:
            ctx.violation("not_local_max_of_reference_density", c2,
                          f"{label}: the library's logd sees no better neighbour (gain {best:.3g}) but the independent "
                          f"log-density does (gain {rbest:.3g}): estimate maximises a different function")
    if g is not None and Wm is not None:
        # Newton decrement 0.5 g^T H^-1 g: the log-density still to be gained according to the library's own gradient
        dec = 0.5 * float(np.sum((Wm.T @ g) ** 2))
        ctx.count("gradient_norm_checked")
        facts["newton_decrement"] = dec
        if dec > tol and smooth:
            ctx.violation("gradient_not_vanishing", c2,
                          f"{label}: gradient of logd at the returned estimate has Newton decrement 0.5 g^T H^-1 g = {dec:.3g} "
                          f"({np.sqrt(2*dec):.3g} standard deviations from stationarity; tolerance {tol:.3g})")
    elif g is not None:
        gs = 0.0
        for xx in (x_start, xh + 0.1 * scale * np.ones(n) / np.sqrt(n), xh - 0.07 * scale * np.arange(1, n + 1) / np.linalg.norm(np.arange(1, n + 1))):
            try:
                gg = _vec(dens.gradient(xx))
                if np.all(np.isfinite(gg)):
                    gs = max(gs, float(np.max(np.abs(gg))))
            except Exception:
                pass
        ctx.count("gradient_norm_checked")
        gn = float(np.max(np.abs(g)))
        facts["grad_ratio"] = gn / gs if gs > 0 else None
        if gs > 0 and gn > TOL_GRAD_REL * gs and smooth:
            ctx.violation("gradient_not_vanishing", c2,
                          f"{label}: |grad logd(x)|_inf = {gn:.3g} at the returned estimate, gradient scale nearby {gs:.3g}")
    return facts

# ----------------------------------------------------------------------------- lg: building the problem

class Built:
    pass

def _geometry(case, rs, which):
    import cuqi
    G = cuqi.geometry
    if which == "range":
        m = case["m"]
        if case["rgeom"] == "cont1d":
            return G.Continuous1D(m)
        if case["rgeom"] == "image2d":
            return G.Image2D((case["rh"], case["rw"]))
        return m
    n, nf, d = case["n"], case["nf"], case["dgeom"]
    if d == "default":
        return n
    if d == "cont1d":
        return G.Continuous1D(n)
    if d == "discrete":
        return G.Discrete(n)
    if d == "image2d":
        return G.Image2D((case["h"], case["w"]))
    if d == "image2dF":
        return G.Image2D((case["h"], case["w"]), order="F")
    if d == "step":
        return G.StepExpansion(np.linspace(0, 1, nf), n_steps=n)
    if d == "kl":
        return G.KLExpansion(np.linspace(0, 1, nf), decay_rate=1.2, normalizer=2.0, num_modes=n)
    if d == "klfull":
        return G.KLExpansion(np.linspace(0, 1, nf), decay_rate=0.8, normalizer=1.5)
    if d == "mapscalar":
        return G.MappedGeometry(G.Continuous1D(n), map=lambda f: 2.5 * f, imap=lambda f: f / 2.5)
    if d == "mapped":
        B = np.eye(n) + 0.3 * rs.standard_normal((n, n)) / np.sqrt(n)
        Bi = np.linalg.inv(B)
        return G.MappedGeometry(G.Continuous1D(n), map=lambda f: B @ f, imap=lambda f: Bi @ f)
    raise ValueError(d)

def _make_gaussian_kwargs(rs, dim, spec):
    shape = "full" if (dim == 1 and spec["shape"] == "sparse") else spec["shape"]   # a 1x1 sparse matrix is not a sensible input
    val, C = R.make_spec(rs, dim, spec["form"], shape, spec["scale"])
    return {spec["form"]: val}, C

def build_lg(case, rs):
    """Build the BayesianProblem of an lg case from the real classes. Returns Built with the harness' truth."""
    import cuqi
    from cuqi.distribution import Gaussian, GMRF
    from cuqi.model import LinearModel, Model
    from cuqi.problem import BayesianProblem
    b = Built()
    b.data_override = None
    n, m, nf = case["n"], case["m"], case["nf"]
    if case["model"] == "deconv1d":
        return _build_deconv(case, rs, b)
    a_scale = 10.0 ** ((case.get("ke", 0) - case.get("kx", 0)) / 2)
    A_fun = rs.standard_normal((m, nf)) / np.sqrt(nf) * a_scale
    dgeom = _geometry(case, rs, "domain")
    rgeom = _geometry(case, rs, "range")
    r_img = case["rgeom"] == "image2d"
    rshape = (case["rh"], case["rw"])
    def out(y):
        return y.reshape(rshape) if r_img else y
    def fwd(x):
        return out(A_fun @ np.ravel(x))
    dshape = (case["h"], case["w"]) if case["dgeom"] in ("image2d", "image2dF") else None
    def adj(y):
        v = A_fun.T @ np.ravel(y)
        return v.reshape(dshape) if dshape else v
    mk = case["model"]
    if mk == "matrix":
        model = LinearModel(A_fun.copy(), range_geometry=rgeom if not isinstance(rgeom, int) else None,
                            domain_geometry=dgeom if not isinstance(dgeom, int) else None)
    elif mk == "spmatrix":
        As = A_fun.copy(); As[np.abs(As) < 0.3 * a_scale / np.sqrt(nf)] = 0.0
        As += 0.0
        A_fun = As
        model = LinearModel(sps.csr_matrix(As), range_geometry=rgeom if not isinstance(rgeom, int) else None,
                            domain_geometry=dgeom if not isinstance(dgeom, int) else None)
    elif mk == "func":
        model = LinearModel(fwd, adj, range_geometry=rgeom, domain_geometry=dgeom)
    elif mk == "funcview":
        vf, va = _view_functions(case)
        model = LinearModel(vf, va, range_geometry=rgeom, domain_geometry=dgeom)
        A_fun = None
    elif mk == "Model_jac":
        model = Model(fwd, rgeom, dgeom, jacobian=lambda x: A_fun)
    elif mk == "Model_grad":
        model = Model(fwd, rgeom, dgeom, gradient=lambda direction, wrt: adj(direction))
    else:
        model = Model(fwd, rgeom, dgeom)
    # prior mean
    mean_kind = case["mean"]
    if case["prior"]["type"] == "gmrf" and mean_kind in ("scalar", "scalar0"):
        mean_kind = "vector"
    mu_true = {"zero": np.zeros(n), "scalar0": np.zeros(n), "scalar": None, "vector": None}[mean_kind]
    fm = _mean_factor(case, rs)
    if mean_kind == "scalar":
        s = float(rs.uniform(-2, 2)) * fm; mu_arg, mu_true = s, s * np.ones(n)
    elif mean_kind == "scalar0":
        mu_arg = 0.0
    elif mean_kind == "zero":
        mu_arg = np.zeros(n)
    else:
        mu_true = rs.standard_normal(n) * 1.5 * fm; mu_arg = mu_true.copy()
    pg = {"geometry": model.domain_geometry} if case["prior_geom"] else {}
    if case["prior"]["type"] == "gmrf":
        delta = case["prior"]["delta"]
        prior = GMRF(mu_arg, delta, bc_type="zero", order=case["prior"]["order"], name="x", **pg)
        D = S.diff_op(n, "zero", case["prior"]["order"], 1)
        Px = delta * (D.T @ D)
        Cx = np.linalg.inv(Px)
        b.prior_kwargs = None
    else:
        kw, Cx = _make_gaussian_kwargs(rs, n, case["prior"])
        if "geometry" not in pg and mean_kind in ("scalar", "scalar0") and case["prior"]["shape"] == "scalar":
            pg = {"geometry": model.domain_geometry}          # dimension cannot be inferred otherwise
        prior = Gaussian(mu_arg, name="x", **kw, **pg)
        b.prior_kwargs = kw
    kwe, Ce = _make_gaussian_kwargs(rs, m, case["noise"])
    ydist = Gaussian(model(prior), name="y", **kwe)
    x_true = mu_true + np.linalg.cholesky(Cx) @ rs.standard_normal(n)
    b.model_user, b.A_fun = model, A_fun
    b.mu, b.Cx, b.Ce = mu_true, Cx, Ce
    b.x_true = x_true
    b.make_BP = None
    def make(data):
        if case["build"] == "set_data":
            return BayesianProblem(ydist, prior).set_data(y=data)
        if case["build"] == "kwargs":
            return BayesianProblem(ydist, prior, y=data)
        return BayesianProblem(ydist.to_likelihood(data), prior)
    b.make_BP = make
    return b

def _mean_factor(case, rs):
    """Prior means live either at the prior's own scale (sqrt of its variance scale) or stay O(1)."""
    kx = case.get("kx", 0)
    return 10.0 ** (kx / 2) if (kx != 0 and rs.uniform() < 0.5) else 1.0

def _view_functions(case):
    """forward/adjoint pairs that return VIEWS of their argument wherever numpy allows it (no arithmetic, no copy)."""
    v, n, m = case["view"], case["n"], case["m"]
    if v == "identity":
        return (lambda x: x), (lambda y: y)
    if v == "reverse":
        return (lambda x: x[::-1]), (lambda y: y[::-1])
    if v == "subsample":
        def adj(y):
            z = np.zeros(n); z[::2] = y
            return z
        return (lambda x: x[::2]), adj
    if v.startswith("window"):
        a = int(v[6:])
        def adj(y):
            z = np.zeros(n); z[a:a + m] = y
            return z
        return (lambda x: x[a:a + m]), adj
    h, w = case["h"], case["w"]                                    # image_transpose: X (h, w) -> X.T[:-1, :]
    def adj(Y):
        Z = np.zeros((h, w)); Z[:, :-1] = np.asarray(Y).T
        return Z
    return (lambda X: X.T[:-1, :]), adj

def _prior_mean(case, rs, n):
    mean_kind = case["mean"]
    fm = _mean_factor(case, rs)
    if mean_kind == "scalar":
        sc = float(rs.uniform(-2, 2)) * fm; return sc, sc * np.ones(n)
    if mean_kind == "scalar0":
        return 0.0, np.zeros(n)
    if mean_kind == "zero":
        return np.zeros(n), np.zeros(n)
    mu = rs.standard_normal(n) * 1.5 * fm
    return mu.copy(), mu

def _build_deconv(case, rs, b):
    import cuqi
    from cuqi.distribution import Gaussian
    n, tp = case["n"], case["tp"]
    mu_arg, mu_true = _prior_mean(case, rs, n)
    kw, Cx = _make_gaussian_kwargs(rs, n, case["prior"])
    pg = {"geometry": n} if (np.ndim(mu_arg) == 0 and case["prior"]["shape"] == "scalar") else {}
    prior = Gaussian(mu_arg, name="x", **kw, **pg)
    np.random.seed(int(rs.randint(0, 2 ** 31 - 1)))          # the test problem draws its noise from the global generator
    TP = cuqi.testproblem.Deconvolution1D(dim=n, PSF=tp["psf"], BC=tp["bc"], phantom=tp["phantom"],
                                          noise_std=tp["noise_std"], prior=prior, use_legacy=tp["legacy"])
    b.prior_kwargs = kw
    b.model_user, b.A_fun = TP.model, None
    b.mu, b.Cx, b.Ce = mu_true, Cx, tp["noise_std"] ** 2 * np.eye(n)
    b.x_true = mu_true
    b.data_override = _vec(TP.data).copy()
    b.make_BP = lambda data: TP
    return b

def _inputs_unchanged(ctx, cfg, BP, call, data0, mu, x0_passed, x0_orig):
    """The arrays the caller handed in (data, prior mean, initial guess) are the caller's: a call must not write through them."""
    ctx.count("inputs_unchanged_checked")
    bad = []
    try:
        if not np.array_equal(_vec(BP.data), data0):
            bad.append("data")
        pm = _vec(BP.prior.mean)
        if pm.shape == mu.shape and not np.array_equal(pm, mu):
            bad.append("prior mean")
    except Exception:   # attribute access refused: nothing to compare
        pass
    if x0_passed is not None and not np.array_equal(np.asarray(x0_passed, dtype=float), x0_orig):
        bad.append("x0")
    if bad:
        ctx.violation("argument_modified", {**cfg, "call": call, "what": "+".join(bad)},
                      f"{call} modified the caller's {', '.join(bad)} in place")

def observe_matrix(model, n, m, rs):
    """Parameter-space matrix of the model as observed through forward(e_i); None if not linear."""
    A = np.zeros((m, n))
    f0 = _vec(model.forward(np.zeros(n)))
    if f0.shape != (m,) or np.max(np.abs(f0)) > 1e-12:
        return None
    for i in range(n):
        e = np.zeros(n); e[i] = 1.0
        A[:, i] = _vec(model.forward(e))
    for _ in range(2):
        x = rs.standard_normal(n)
        y = _vec(model.forward(x))
        if not np.allclose(y, A @ x, rtol=1e-9, atol=1e-9 * np.max(np.abs(y))):
            return None
    return A

# ----------------------------------------------------------------------------- lg: the case

def run_lg(case, ctx):
    import cuqi
    from cuqi.distribution import Gaussian
    rs = core.np_rng(ctx.seed, PROPERTY, core.canon(case))
    cfg = _cfg_lg(case)
    n, m = case["n"], case["m"]
    try:
        B = build_lg(case, rs)
    except Exception as e:     # constructing the distributions/model is not this property's business
        ctx.refused("build", e); ctx.count("build_failed")
        return
    # data from the model's own forward on a prior draw + noise
    if B.data_override is not None:
        data = B.data_override
    else:
        y_clean = _vec(B.model_user.forward(B.x_true))
        data = y_clean + np.linalg.cholesky(B.Ce) @ rs.standard_normal(m)
    try:
        BP = B.make_BP(data)
    except Exception as e:
        ctx.refused("build_problem", e); ctx.count("build_failed")
        return
    gaussian_prior = case["prior"]["type"] == "gaussian"
    def do_compute_cov():
        for d in (BP.prior, BP.likelihood.distribution):
            if isinstance(d, Gaussian) and "cov" not in d.get_mutable_variables():
                k, v = _call(d.compute_cov)
                if k == "refused":
                    ctx.refused("compute_cov", v)
                elif k == "crashed":
                    raise v
    if case["compute_cov"]:
        do_compute_cov()
    mu, Cx, Ce = B.mu, B.Cx, B.Ce
    # history: an estimate computed before the prior is re-specified must not leak into the next one
    direct_expected = gaussian_prior and not case["model"].startswith("Model")
    if case["pre_map"]:
        _call(BP.MAP, disp=False)
        ctx.count("history_pre_map_calls")
        if direct_expected:
            k, v = _call(BP.sample_posterior, 2)
            if k == "crashed":
                raise v
            ctx.count("history_pre_sample_calls")
    if case["respec"] != "none" and gaussian_prior:
        form = case["prior"]["form"]
        if case["respec"] == "mean":
            mu = (rs.standard_normal(n) * 2.0 + 1.0) * _mean_factor(case, rs)
            BP.prior.mean = mu.copy()
        elif case["respec"] == "matrix":
            val, Cx = R.make_spec(rs, n, form, case["prior"]["shape"], case["prior"]["scale"] * 2.5)
            k, v = _call(setattr, BP.prior, form, val)
            if k == "refused":
                ctx.refused("respecify", v); Cx = B.Cx
            elif k == "crashed":
                raise v
            elif case["compute_cov"] and rs.uniform() < 0.5:
                do_compute_cov()
        elif case["respec"] == "noise":
            nform = case["noise"]["form"]
            val, Ce = R.make_spec(rs, m, nform, "full" if (m == 1 and case["noise"]["shape"] == "sparse") else case["noise"]["shape"],
                                  case["noise"]["scale"] * 3.0)
            k, v = _call(setattr, BP.likelihood.distribution, nform, val)
            if k == "refused":
                ctx.refused("respecify", v); Ce = B.Ce
            elif k == "crashed":
                raise v
            elif case["compute_cov"] and rs.uniform() < 0.5:
                do_compute_cov()
        else:
            val, Cx = R.make_spec(rs, n, "cov", "full", case["prior"]["scale"] * 0.6)
            mu = rs.standard_normal(n) * _mean_factor(case, rs)
            BP.prior = Gaussian(mu.copy(), cov=val, name="x")
        ctx.count("respecified_problems")
    model = BP.model
    data0 = np.array(data, dtype=float, copy=True)
    A = observe_matrix(model, n, m, rs)
    if A is None:
        ctx.inconclusive("model is not linear in parameter space: closed form not applicable")
        return
    ctx.count("model_columns_observed", n)
    mean_ref, C_ref, P_ref = R.posterior(A, data, mu, Cx, Ce)
    x_start_default = np.ones(n)
    f_ref = lambda x: -0.5 * float((_vec(x) - mean_ref) @ P_ref @ (_vec(x) - mean_ref))
    climb_ref = -f_ref(x_start_default)
    sd_dist = lambda a, b_: float(np.sqrt(max(0.0, 2.0 * R.quad_gap(P_ref, a, b_))))     # distance in posterior standard deviations
    sd_scale = 1.0 + sd_dist(mean_ref, np.zeros(n)) + sd_dist(mu, np.zeros(n))              # magnitude of the numbers involved, same unit
    tol_sd = 1e-7 + TOL_DIRECT_REL * 1e-2 * sd_scale                                        # closed-form route: rounding ~ eps*cond*sd_scale
    prior_matters = sd_dist(mean_ref, mu) > 0.1
    sd_med = float(np.median(np.sqrt(np.abs(np.diag(C_ref)))))
    sd_class = "tiny" if sd_med < 1e-4 else ("huge" if sd_med > 1e4 else "unit")       # size of one posterior standard deviation in x
    ml_ref = None
    if m >= n and np.linalg.cond(A) < 1e4:
        ml_ref, N_ml = R.wls(A, data, Ce)
    lik_matters = ml_ref is None or sd_dist(mean_ref, ml_ref) > 0.1
    ctx.note("n_m_route", [n, m, case["model"], case["dgeom"]])

    # ---------------- MAP
    det_overflow = bool(abs(np.linalg.slogdet(Cx)[1]) > 700 or abs(np.linalg.slogdet(Ce)[1]) > 700)
    def near(centre, H):
        try:
            return centre + np.linalg.solve(np.linalg.cholesky(0.5 * (H + H.T)).T, 3.0 * rs.standard_normal(len(centre)))
        except np.linalg.LinAlgError:
            return centre + 0.0
    def startable(dens, xs_, fq, cfg_, label, returned_by_optim):
        """Can the optimisation route be judged from this start?  Returns False (and reports) when the library's
        log-density is not finite there, or when the start is more than 1e4 standard deviations from the maximiser
        (objective range > 1e8: beyond what a double-precision line search with fixed settings resolves)."""
        fs_ = _safe_logd(dens, xs_)
        if fs_ is not None and not np.isfinite(fs_) and np.isfinite(fq(xs_)):
            if returned_by_optim:
                ctx.count("estimates_from_nonfinite_logd")
                ctx.violation("estimate_from_nonfinite_logd", {**cfg_, "target": label, "det_overflow": det_overflow},
                              f"{label}: the log-density that is optimised evaluates to {fs_} at the start although the specified density "
                              f"is finite there; a point was returned nevertheless (log-det of the covariances: "
                              f"{np.linalg.slogdet(Cx)[1]:.4g}, {np.linalg.slogdet(Ce)[1]:.4g})")
            return False
        if -fq(xs_) > 1e8:
            ctx.count("optim_compare_skipped_far_start")
            return False
        return True
    x0 = None if case["x0"] == "default" else (near(mean_ref, P_ref) if case["x0"] == "near" else rs.standard_normal(n))
    x_start = x_start_default if x0 is None else x0
    x0arg = None if x0 is None else x0.copy()
    with SolverRecorder() as rec:
        kind_, xm = _call(BP.MAP, disp=case["disp"], x0=x0arg)
    _inputs_unchanged(ctx, cfg, BP, "MAP", data0, mu, x0arg, x0)
    route = "optim" if rec.calls else "direct"
    cfgm = {**cfg, "route": route}
    if rec.calls:
        cfgm.update({"solver_success": rec.calls[-1]["success"], "sd_class": sd_class})
    if kind_ == "refused":
        ctx.refused("MAP", xm); ctx.count("map_refused"); ctx.nontrivial("refusal")
    elif kind_ == "crashed":
        ctx.violation("crash", {**cfgm, "exc": type(xm).__name__, "call": "MAP"}, detail=repr(xm))
    else:
        xv = np.asarray(xm, dtype=float)
        info = getattr(xm, "info", None)
        if xv.shape != (n,) or not np.all(np.isfinite(xv)):
            ctx.violation("estimate_malformed", {**cfgm, "call": "MAP"}, f"MAP returned shape {xv.shape}, finite={np.all(np.isfinite(xv))}")
        else:
            if rec.calls:
                ctx.count("solver_result_passthrough_checked")
                if not np.array_equal(rec.calls[-1]["sol"], xv):
                    ctx.violation("estimate_differs_from_solver_result", cfgm,
                                  f"MAP returned a point different from its solver's solution (max diff {np.max(np.abs(rec.calls[-1]['sol']-xv)):.3g})")
                if not rec.calls[-1]["success"]:
                    ctx.count("solver_reported_failure")
            err = float(np.max(np.abs(xv - mean_ref)))
            gap = R.quad_gap(P_ref, xv, mean_ref)
            map_floor = 0.0
            if route == "direct":
                ctx.count("lg_map_closed_form_compared")
                dsd = sd_dist(xv, mean_ref)
                if dsd > tol_sd:
                    ctx.violation("map_not_posterior_mean", cfgm,
                                  f"closed-form route: MAP is {dsd:.3g} posterior standard deviations from the posterior mean "
                                  f"(tolerance {tol_sd:.3g}; max|dx| = {err:.3g}, log-density gap {gap:.3g}); the posterior mean is "
                                  f"{sd_dist(mean_ref, mu):.3g} sd from the prior mean", witness={"map": xv, "ref": mean_ref})
            else:
                tolg, well = optim_tolerance(P_ref, mean_ref, exact_grad=rec.calls[-1]["has_grad"])
                well = well and startable(BP.posterior, x_start, f_ref, cfgm, "MAP", True)
                map_floor = tolg
                if not well:
                    ctx.count("optim_compare_skipped_illconditioned")
                else:
                    ctx.count("lg_map_optim_compared")
                if well and gap > tolg:
                    ctx.violation("map_not_posterior_mean", cfgm,
                                  f"optimisation route ({rec.calls[-1]['solver']}, exact gradient={rec.calls[-1]['has_grad']}, "
                                  f"success={rec.calls[-1]['success']}): log-density gap to the closed-form posterior mean {gap:.3g} "
                                  f"(tolerance {tolg:.3g}), max|dx| = {err:.3g}", witness={"map": xv, "ref": mean_ref})
            ctx.note("map_err_gap", [err, gap, route, (sd_dist(xv, mean_ref) / tol_sd) if route == "direct" else gap / map_floor, case.get("kx", 0), case.get("ke", 0), bool(route == "direct" or well)])
            if info is None or "solver" not in info:
                ctx.count("estimate_without_info")
            if any(v["mechanism"] == "map_not_posterior_mean" for v in ctx.violations):
                ctx.count("probe_skipped_after_closed_form_mismatch")     # already reported; the probes would only repeat it
            elif route == "optim" and not well:
                pass
            else:
                fm_ = probe_estimate(ctx, cfgm, BP.posterior, xv, x_start, rs, f_ref=f_ref, smooth=True, label="MAP", tol_floor=map_floor, metric=P_ref, solver_gtol=1e-5 if route == "optim" else None)
                ctx.note("map_probe", [fm_.get("gain"), fm_.get("tol"), fm_.get("newton_decrement")])
            if prior_matters and lik_matters:
                ctx.nontrivial()
            ctx.count("map_values_judged")

    # ---------------- ML (over-determined, full column rank)
    if ml_ref is not None and case["i"] % 2 == 0:
        x0l = None if case["x0"] == "default" else (near(ml_ref, N_ml) if case["x0"] == "near" else rs.standard_normal(n))
        xs = np.ones(n) if x0l is None else x0l
        x0arg = None if x0l is None else x0l.copy()
        with SolverRecorder() as rec:
            kind_, xl = _call(BP.ML, disp=case["disp"], x0=x0arg)
        _inputs_unchanged(ctx, cfg, BP, "ML", data0, mu, x0arg, x0l)
        cfgl = {**cfg, "route": "optim" if rec.calls else "direct"}
        if rec.calls:
            cfgl.update({"solver_success": rec.calls[-1]["success"], "sd_class": sd_class})
        if kind_ == "refused":
            ctx.refused("ML", xl); ctx.count("ml_refused")
        elif kind_ == "crashed":
            ctx.violation("crash", {**cfgl, "exc": type(xl).__name__, "call": "ML"}, detail=repr(xl))
        else:
            xv = np.asarray(xl, dtype=float)
            if xv.shape != (n,) or not np.all(np.isfinite(xv)):
                ctx.violation("estimate_malformed", {**cfgl, "call": "ML"}, f"ML returned shape {xv.shape}")
            else:
                if rec.calls:
                    ctx.count("solver_result_passthrough_checked")
                    if not np.array_equal(rec.calls[-1]["sol"], xv):
                        ctx.violation("estimate_differs_from_solver_result", {**cfgl, "call": "ML"}, "ML returned a point different from its solver's solution")
                gap = R.quad_gap(N_ml, xv, ml_ref)
                fl = lambda x: -0.5 * float((_vec(x) - ml_ref) @ N_ml @ (_vec(x) - ml_ref))
                tolg, well = optim_tolerance(N_ml, ml_ref, exact_grad=bool(rec.calls and rec.calls[-1]["has_grad"]))
                well = well and startable(BP.likelihood, xs, fl, cfgl, "ML", bool(rec.calls))
                if not well:
                    ctx.count("optim_compare_skipped_illconditioned")
                else:
                  ctx.count("ml_wls_compared")
                  if gap > tolg:
                    ctx.violation("ml_not_likelihood_maximiser", cfgl,
                                  f"log-likelihood gap to the weighted least-squares solution {gap:.3g} (tolerance {tolg:.3g}), "
                                  f"max|dx| = {np.max(np.abs(xv-ml_ref)):.3g}; distance to the posterior mean {np.max(np.abs(xv-mean_ref)):.3g}",
                                  witness={"ml": xv, "ref": ml_ref})
                  probe_estimate(ctx, cfgl, BP.likelihood, xv, xs, rs, f_ref=fl, smooth=True, label="ML", tol_floor=tolg, metric=N_ml, solver_gtol=1e-5 if rec.calls else None)
                  ctx.note("ml_gap", [gap, gap / tolg])

    # ---------------- ML, under-determined with full row rank: every maximiser reproduces the data exactly
    if m < n and case["i"] % 2 == 0 and np.linalg.cond(A) < 1e4:
        Pe = np.linalg.inv(Ce)
        fl = lambda x: -0.5 * float((A @ _vec(x) - data) @ Pe @ (A @ _vec(x) - data))
        xs = np.ones(n)
        with SolverRecorder() as rec:
            kind_, xl = _call(BP.ML, disp=False)
        cfgl = {**cfg, "route": "optim" if rec.calls else "direct", "determined": "under"}
        if rec.calls:
            cfgl.update({"solver_success": rec.calls[-1]["success"], "sd_class": sd_class})
        if kind_ == "refused":
            ctx.refused("ML", xl); ctx.count("ml_refused")
        elif kind_ == "crashed":
            ctx.violation("crash", {**cfgl, "exc": type(xl).__name__, "call": "ML"}, detail=repr(xl))
        else:
            xv = np.asarray(xl, dtype=float)
            if xv.shape != (n,) or not np.all(np.isfinite(xv)):
                ctx.violation("estimate_malformed", {**cfgl, "call": "ML"}, f"ML returned shape {xv.shape}")
            else:
                gap = -fl(xv)
                WA = np.linalg.solve(np.linalg.cholesky(Ce), A)
                tolg, well = optim_tolerance(WA @ WA.T, xv, exact_grad=bool(rec.calls and rec.calls[-1]["has_grad"]))      # Hessian restricted to the row space
                well = well and startable(BP.likelihood, xs, fl, cfgl, "ML", bool(rec.calls))
                if not well:
                    ctx.count("optim_compare_skipped_illconditioned")
                    tolg = np.inf
                else:
                    ctx.count("ml_underdetermined_compared")
                if gap > tolg:
                    ctx.violation("ml_not_likelihood_maximiser", cfgl,
                                  f"under-determined problem: the likelihood attains its maximum where A x = data, the returned ML "
                                  f"estimate leaves a log-likelihood gap {gap:.3g} (tolerance {tolg:.3g})")
                if well:
                    probe_estimate(ctx, cfgl, BP.likelihood, xv, xs, rs, f_ref=fl, smooth=True, label="ML", tol_floor=tolg, solver_gtol=1e-5 if rec.calls else None)
                    ctx.note("ml_under_gap", [gap, gap / tolg])

    # ---------------- direct sampler read off as an affine map of the scripted normals
    if case["model"].startswith("Model") or not gaussian_prior:
        return            # not the direct Gaussian route by construction (other samplers are C02/C06/C08)
    Ns = n + 2
    z_last = rs.standard_normal(n)
    state = {"k": 0}
    def provider(shape, api, seq):
        k = state["k"]; state["k"] += 1
        if shape != (n,):
            return None
        z = np.zeros(n)
        if k < n:
            z[k] = 1.0
        elif k == n + 1:
            z = z_last.copy()
        return z
    log = ContractLog()
    import cuqi.problem
    with ensure(cuqi.problem.BayesianProblem, "_sampleMapCholesky", lambda *a: None, log, name="direct_route"):
        with Scripted(normal=provider) as scr:
            if case["via"] == "UQ":
                import matplotlib.pyplot as plt
                kind_, smp = _call(BP.UQ, Ns=Ns)
                plt.close("all")
                ctx.count("uq_calls")
            else:
                kind_, smp = _call(BP.sample_posterior, Ns)
    took_direct = log.evaluations.get("direct_route", 0) > 0
    _inputs_unchanged(ctx, cfg, BP, case["via"], data0, mu, None, None)
    cfgs = {**cfg, "route": "direct_sampler", "via": case["via"]}
    if kind_ == "refused":
        ctx.refused("sample_posterior", smp); ctx.count("sampler_refused"); ctx.nontrivial("refusal")
        return
    if kind_ == "crashed":
        ctx.violation("crash", {**cfgs, "exc": type(smp).__name__, "call": case["via"]}, detail=repr(smp))
        return
    if not took_direct:
        ctx.count("sampler_other_route")
        return
    ctx.count("direct_route_observed")
    draws = [d for d in scr.draws if d[1] == "randn" and d[2] == (n,)]
    Xs = np.asarray(smp.samples, dtype=float)
    if len(draws) != Ns or len(scr.draws) != Ns or Xs.shape != (n, Ns):
        ctx.inconclusive(f"direct sampler did not consume exactly Ns randn(n) draws ({len(draws)}/{len(scr.draws)} for Ns={Ns}, samples {Xs.shape}); affine read-off impossible")
        return
    xbar = Xs[:, n]
    Bm = Xs[:, :n] - xbar[:, None]
    ctx.count("direct_mean_compared")
    if sd_dist(xbar, mean_ref) > tol_sd:
        ctx.violation("direct_mean_mismatch", cfgs,
                      f"draw with e=0 is {sd_dist(xbar, mean_ref):.3g} posterior standard deviations from the posterior mean "
                      f"(tolerance {tol_sd:.3g}; max|dx| = {np.max(np.abs(xbar-mean_ref)):.3g})",
                      witness={"xbar": xbar, "ref": mean_ref})
    ctx.count("direct_cov_compared")
    Cobs = Bm @ Bm.T
    cs = float(np.max(np.abs(C_ref)))
    if np.max(np.abs(Cobs - C_ref)) > TOL_COV_REL * cs:
        ctx.violation("direct_cov_mismatch", cfgs,
                      f"B B^T read off the scripted draws differs from the posterior covariance: max abs diff {np.max(np.abs(Cobs-C_ref)):.3g} "
                      f"(scale {cs:.3g})", witness={"BBt": Cobs, "ref": C_ref})
    ctx.count("direct_affinity_checked")
    if np.max(np.abs(Xs[:, n + 1] - (xbar + Bm @ z_last))) > 1e-9 * (1 + np.max(np.abs(Xs[:, n + 1]))):
        ctx.violation("direct_not_affine", cfgs, "draw is not the affine image x_bar + B e of its standard normal vector")
    if prior_matters and lik_matters:
        ctx.nontrivial()
    ctx.note("direct_err", [sd_dist(xbar, mean_ref) / tol_sd, float(np.max(np.abs(Cobs - C_ref)) / cs)])

# ----------------------------------------------------------------------------- nl: the case

def run_nl(case, ctx):
    import cuqi
    from cuqi.distribution import Gaussian, Cauchy, Laplace, SmoothedLaplace, LMRF, CMRF
    from cuqi.model import LinearModel, Model
    from cuqi.problem import BayesianProblem
    rs = core.np_rng(ctx.seed, PROPERTY, core.canon(case))
    fam, n, m = case["family"], case["n"], case["m"]
    cfg = {"kind": "nl", "family": fam}
    smooth = fam not in ("laplace", "lmrf", "laplace_noise")      # laplace_noise is not generated by default (heavy-tailed stalls)
    se, sx = case["noise_scale"], case["prior_scale"]
    A = rs.standard_normal((m, n)) / np.sqrt(n)
    mu = rs.standard_normal(n)
    targets = ["MAP"]
    if fam == "wang":
        noise_std = float(rs.uniform(0.5, 2.0)); dat = float(rs.standard_normal() * 3)
        BP = cuqi.testproblem.WangCubic(noise_std=noise_std, data=dat)
        Fw = lambda x: 10 * x[1] - 10 * x[0] ** 3 + 5 * x[0] ** 2 + 6 * x[0]
        mu_w = np.array([1.0, 0.0])
        f_post = lambda x: -0.5 * (dat - Fw(x)) ** 2 / noise_std ** 2 - 0.5 * float((x - mu_w) @ (x - mu_w))
        f_lik = None
    else:
        c = 0.3 if case["fun"] == "tanh" else 0.1
        if fam.startswith("nonlin") or fam == "gmrf_nonlin":
            if case["fun"] == "tanh":
                F = lambda x: A @ x + c * np.tanh(A @ x)
                J = lambda x: (1 + c / np.cosh(A @ x) ** 2)[:, None] * A
            else:
                F = lambda x: A @ x + c * (A @ x) ** 3
                J = lambda x: (1 + 3 * c * (A @ x) ** 2)[:, None] * A
            if fam in ("nonlin_jac", "nonlin_ml", "gmrf_nonlin", "nonlin_fullcov"):
                model = Model(F, m, n, jacobian=J)
            elif fam == "nonlin_grad":
                model = Model(F, m, n, gradient=lambda direction, wrt: J(wrt).T @ direction)
            else:
                model = Model(F, m, n)
        else:
            F = lambda x: A @ x
            model = LinearModel(A.copy())
        # prior
        if fam == "gmrf_nonlin":
            order = 1 + (case["i"] // len(_NL_FAMILIES)) % 2
            delta = 1.0 / sx
            prior = cuqi.distribution.GMRF(mu.copy(), delta, bc_type="zero", order=order, name="x")
            Dg = S.diff_op(n, "zero", order, 1)
            Pg = delta * (Dg.T @ Dg)
            lp = lambda x: R.logprior("gaussian_prec", x, mu, Pg)
        elif fam == "nonlin_fullcov":
            _, Cp = R.make_spec(rs, n, "cov", "full", sx)
            prior = Gaussian(mu.copy(), cov=Cp.copy(), name="x")
            Pp = np.linalg.inv(Cp)
            lp = lambda x: R.logprior("gaussian_prec", x, mu, Pp)
        elif fam in ("nonlin_jac", "nonlin_grad", "nonlin_nograd", "nonlin_ml", "laplace_noise"):
            var = sx * rs.uniform(0.5, 2.0, n)
            prior = Gaussian(mu.copy(), cov=var.copy(), name="x")
            lp = lambda x: R.logprior("gaussian_prec", x, mu, np.diag(1 / var))
        elif fam == "cauchy":
            # unimodal by construction (the property quantifies over unimodal posteriors): log-Cauchy has curvature at most
            # +0.25/scale^2, the Gaussian log-likelihood at most -lambda_min(A^T A)/var; keep the sum strictly concave
            lam = float(np.linalg.eigvalsh(A.T @ A)[0]) / se
            sc = np.maximum(sx * rs.uniform(0.3, 1.0, n), np.sqrt(0.5 / lam))
            prior = Cauchy(mu.copy(), sc.copy(), name="x")
            lp = lambda x: R.logprior("cauchy", x, mu, sc)
        elif fam == "laplace":
            prior = Laplace(mu.copy(), sx, name="x")
            lp = lambda x: R.logprior("laplace", x, mu, sx)
        elif fam == "slaplace":
            beta = 1e-2
            prior = SmoothedLaplace(mu.copy(), sx, beta=beta, name="x", geometry=n)
            lp = lambda x: R.logprior("slaplace", x, mu, (sx, beta))
        elif fam == "lmrf":
            prior = LMRF(mu.copy(), sx, geometry=n, name="x")
            lp = lambda x: R.logprior("lmrf", x, mu, sx)
        elif fam == "cmrf":
            lam = float(np.linalg.eigvalsh(A.T @ A)[0]) / se
            sx = float(max(sx, np.sqrt(2.0 / lam)))       # |D^T D| <= 4: curvature of the log-prior at most +1/scale^2 (see cauchy)
            prior = CMRF(mu.copy(), sx, geometry=n, name="x")
            lp = lambda x: R.logprior("cmrf", x, mu, sx)
        else:
            raise ValueError(fam)
        x_true = mu + np.sqrt(sx) * rs.standard_normal(n)
        # noise
        if fam == "laplace_noise":
            data = F(x_true) + rs.laplace(0, se, m)
            ydist = Laplace(model(prior), se, name="y")
            ln = lambda r: R.lognoise("laplace", r, se)
        elif fam == "nonlin_fullcov":
            form = ("cov", "prec", "sqrtprec")[(case["i"] // len(_NL_FAMILIES)) % 3]
            val, Cn = R.make_spec(rs, m, form, "full", se)
            data = F(x_true) + np.linalg.cholesky(Cn) @ rs.standard_normal(m)
            ydist = Gaussian(model(prior), name="y", **{form: val})
            Pn = np.linalg.inv(Cn)
            ln = lambda r: R.lognoise("gaussian", r, Pn)
        else:
            data = F(x_true) + np.sqrt(se) * rs.standard_normal(m)
            ydist = Gaussian(model(prior), cov=se, name="y")
            ln = lambda r: R.lognoise("gaussian", r, np.eye(m) / se)
        BP = BayesianProblem(ydist, prior).set_data(y=data)
        f_lik = lambda x: ln(data - F(_vec(x)))
        f_post = lambda x: f_lik(x) + lp(_vec(x))
        if fam == "nonlin_ml" and m > n:
            targets.append("ML")
    for target in targets:
        x0 = None if case["x0"] == "default" else rs.standard_normal(n)
        x_start = np.ones(n) if x0 is None else x0
        with SolverRecorder() as rec:
            fn = BP.MAP if target == "MAP" else BP.ML
            x0arg = None if x0 is None else x0.copy()
            if case["x0"] == "cuqiarray" and fam != "wang":          # documented: "x0 : CUQIarray or ndarray"
                x0arg = cuqi.array.CUQIarray(x0.copy(), geometry=BP.model.domain_geometry)
            kind_, xh = _call(fn, disp=case["disp"], x0=x0arg)
        c2 = {**cfg, "route": "optim" if rec.calls else "direct"}
        if kind_ == "refused":
            ctx.refused(target, xh); ctx.count("nl_refused")
            continue
        if kind_ == "crashed":
            ctx.violation("crash", {**c2, "exc": type(xh).__name__, "call": target}, detail=repr(xh))
            continue
        xv = np.asarray(xh, dtype=float)
        if xv.shape != (n,) or not np.all(np.isfinite(xv)):
            ctx.violation("estimate_malformed", {**c2, "call": target}, f"{target} returned shape {xv.shape}")
            continue
        if rec.calls:
            ctx.count("solver_result_passthrough_checked")
            ctx.count("route_" + rec.calls[-1]["solver"] + ("_exactgrad" if rec.calls[-1]["has_grad"] else "_approxgrad"))
            if not np.array_equal(rec.calls[-1]["sol"], xv):
                ctx.violation("estimate_differs_from_solver_result", {**c2, "call": target}, f"{target} returned a point different from its solver's solution")
            if x0 is not None and not np.allclose(rec.calls[-1]["x0"], x0):
                ctx.violation("initial_guess_ignored", {**c2, "call": target}, "user-specified x0 did not reach the solver")
            if not rec.calls[-1]["success"]:
                ctx.count("solver_reported_failure")
        dens = BP.posterior if target == "MAP" else BP.likelihood
        facts = probe_estimate(ctx, c2, dens, xv, x_start, rs, f_ref=(f_post if target == "MAP" else f_lik), smooth=smooth, label=target,
                               solver_gtol=1e-5 if rec.calls else None)
        if facts.get("probed"):
            ctx.count("nl_estimates_probed")
            ctx.nontrivial()
            ctx.note(target + "_gain_tol_climb", [facts["gain"], facts["tol"], facts["climb"], facts.get("grad_ratio")])

def run_case(case, ctx):
    np.random.seed(core.np_rng(ctx.seed, PROPERTY, "global", core.canon(case)).randint(0, 2 ** 31 - 1))   # reproducible replays
    if case["kind"] == "lg":
        run_lg(case, ctx)
    else:
        run_nl(case, ctx)

def selftest(ctx):
    for msg in R.selftest():
        ctx.inconclusive("reference self-test: " + msg)
