"""C02 - Metropolis-type kernels accept with exactly the Metropolis-Hastings probability.

Samplers: MH, CWMH, pCN/PCN, MALA in cuqi.sampler (stateless) and cuqi.experimental.mcmc (stateful);
ULA only for "documented proposal, no accept step, NaN never accepted".

Three kinds of cases, all observing real executions of the tree under test:

thr   deterministic threshold test of single transitions under a scripted random stream:
      (a) the proposal map xi -> x*(xi) is *identified* from the target-evaluation trace
          (xi = 0, e_i, two random xi for affinity)  =>  q(.|x) = N(a(x), B B^T) as implemented;
      (b) the identified q is compared with the documented proposal for the sampler's current scale;
      (c) reference alpha = min(1, pi(x')q(x|x') / (pi(x)q(x'|x))) from the harness's own pi and the
          identified q (a(x') is probed from state x'); the transition is replayed with the same xi
          and uniform u = alpha*exp(-+delta): must accept below, must reject above (u -> 1 if alpha = 1);
          the reverse transition x' -> x is tested the same way (detailed balance);
      (d) after a reject the state and every cached value are bit-identical, after an accept the
          state is the evaluated proposal and the caches equal fresh evaluations;
      (e) proposals steered into a NaN / -inf region of the target with u -> 0 are never accepted.
      Histories: fresh, default initial point, after warm-up / sample_adapt (tuned scale), after
      state reload (get_state/set_state or checkpoint file into a differently configured sampler).
chain offline checker over a recorded real run (warm-up with tuning + sampling, or sample_adapt):
      every transition's decision is recomputed from the recorded state, proposal, uniform draw and
      the scale in force at that step (documented proposal), including the steps during adaptation.
out   'start outside the support': the chain sits at a state whose log-density is -inf or NaN (explicit or default
      initial point outside a bounded support / inside a NaN region); scripted proposals to further inadmissible points
      must never be accepted whatever u and whatever the current density; moves to admissible points may be accepted
      and must then leave state and carried density consistent.
rep   'initial point representation': Python scalar/int, NumPy scalar, 0-d, length-1, list, tuple, ndarray, strided view,
      CUQIarray, default, on targets of dimension 1 and > 1: every transition from the initial state consumes one normal
      variate per component, the identified proposal is the documented one, and the acceptance oracle applies.
prop  'user-supplied proposal spelling' (MH, CWMH, both interfaces): conditional Normal/Uniform proposals with the lambdas'
      arguments in either order, split lambdas, plain callables, fixed symmetric distributions; identified proposal
      vs documented (centre = state, width = scale) and the threshold oracle; refused spellings are refusals.
stat  stationarity (second line): K independent chains started from exact draws of targets with a
      known law, k in {1,3} transitions, normal-score battery (KS, mean, second and cross moments),
      two-stage rule (p < 1e-7, then 4x sample, same statistic, same direction).
"""
import copy, math, os, tempfile
import numpy as np
from vlib import core
from vlib.rngscript import Scripted
from vlib.refs import c02_mhref as R

PROPERTY = "C02"
RULE = ("per sampler x interface: discrete axes (target family, dimension, history, scale kind, state kind, route, "
        "prior mean/covariance form, proposal kind) cycled/sampled deterministically, continuous parameters drawn per case; "
        "a thr case is non-trivial when the proposal map was identified and at least one transition was decided on "
        "both sides of the reference threshold (accept just below, reject just above); a chain case when >= 10 recorded "
        "transitions were re-decided with both outcomes present; a stat case when the battery was evaluated; "
        "distinct = distinct descriptors")
ASSUMPTIONS = ["the samplers take all randomness from numpy.random.<fn> looked up at call time (checked: every transition "
               "must consume exactly the expected scripted draws)",
               "targets, priors and likelihood functions are owned by the harness; their log-densities are evaluated by "
               "the reference model independently of cuqi (up to an additive constant)",
               "ULA is judged only for its documented proposal, absence of an accept step and NaN handling"]
REQUIRED_COUNTERS = {
    "quick": {"proposal_maps_identified": 2500, "documented_proposal_checked": 1200, "threshold_accept_side": 4400,
              "threshold_reject_side": 2000, "reject_state_unchanged_checked": 1700, "accept_cache_checked": 3500,
              "nan_inf_never_accepted_checked": 400, "reverse_direction_checked": 1600, "reload_equivalence_checked": 240,
              "chain_transitions_checked": 10000, "stationarity_tests": 12,
              "target_args_unchanged_checked": 50000, "forward_input_checked": 5000, "library_target_vs_reference_checked": 400,
              "outside_start_bad_proposals_checked": 600, "outside_start_inward_proposals_checked": 200,
              "initial_point_rep_checked": 90, "initial_point_rep_noise_dim_checked": 800,
              "proposal_spelling_checked": 25, "undefined_ratio_never_accepted_checked": 100},
    # thorough floors are ~30 % of a complete run, so that a heavily shared machine (cases cut by the wall-clock budget)
    # still gives a verdict
    "thorough": {"proposal_maps_identified": 10000, "documented_proposal_checked": 4500, "threshold_accept_side": 15000,
                 "threshold_reject_side": 7500, "reject_state_unchanged_checked": 6500, "accept_cache_checked": 13000,
                 "nan_inf_never_accepted_checked": 3000, "reverse_direction_checked": 6000, "reload_equivalence_checked": 900,
                 "chain_transitions_checked": 36000, "stationarity_tests": 30,
                 "target_args_unchanged_checked": 250000, "forward_input_checked": 30000, "library_target_vs_reference_checked": 1700,
                 "outside_start_bad_proposals_checked": 2400, "outside_start_inward_proposals_checked": 800,
                 "initial_point_rep_checked": 300, "initial_point_rep_noise_dim_checked": 3000,
                 "proposal_spelling_checked": 100, "undefined_ratio_never_accepted_checked": 400}}
BUDGET_S = {"quick": 240.0, "thorough": 2400.0}

LEGACY_NAME = {"MH": "MH", "CWMH": "CWMH", "PCN": "pCN", "MALA": "MALA", "ULA": "ULA"}
PLAIN_TARGETS = ["gauss", "banana", "funnel", "logistic", "student", "box", "nanhalf", "post_lin", "post_nonlin", "post_user",
                 # real library targets behind recording pass-throughs (reference = independent numpy re-implementation)
                 "lib_banana", "post_geom", "lib_gauss", "lib_squiggle", "lib_post_mat", "lib_funnel", "post_geom", "lib_donut", "lib_bivgauss"]
PCN_TARGETS = ["post_lin", "post_nonlin", "post_user", "post_user_nan", "post_user_neginf", "post_geom", "lib_post_mat", "post_geom"]
GEOM_KINDS = ["kl", "step", "mapped", "kl_lin"]
GAUSS_FORMS = ["cov_scalar", "cov_vector", "cov", "prec", "sqrtcov", "sqrtprec"]


def _geom_attrs(c, rng, k):
    """attributes of a posterior whose forward model has a non-identity domain geometry; every third one is the
    configuration (KL expansion on the unit-spaced grid, unnamed prior with only the default geometry) in which
    proposals (CUQIarrays of the default geometry) and plain-ndarray states take different code paths in Model._2fun."""
    if k % 3 == 0:
        c["geom"], c["pname"], c["pgeom"] = "kl", "unnamed", "default"
    else:
        c["geom"] = rng.choice(GEOM_KINDS)
        c["pname"] = rng.choice(["unnamed", "named"])
        c["pgeom"] = rng.choice(["default", "same"])
TINY_U = 1e-300
ONE_U = 1.0 - 2.0 ** -53
DL = 1e-6                                                # log-margin around the reference threshold
TS = min(1.0, float(os.environ.get("VERIF_C02_TOLSCALE", "1")))    # development only: shrink every threshold margin to measure the head-room

# =========================================================================== case generation

def _thr_cases(tier, seed):
    n_main, n_ula = (400, 50) if tier == "quick" else (1500, 250)
    out = []
    for name in ("MH", "CWMH", "PCN", "MALA", "ULA"):
        for iface in ("exp", "legacy"):
            rng = core.rng_for(seed, PROPERTY, "thr", name, iface, tier)
            n = n_ula if name == "ULA" else n_main
            targets = PCN_TARGETS if name == "PCN" else PLAIN_TARGETS
            if name == "PCN" and iface == "legacy":
                targets = targets + ["tuple_user", "tuple_udprior_zero", "tuple_udprior_nonzero"]
            if name == "MALA":
                targets = targets + ["gradbad", "gradbad"]      # finite log-density, NaN / +-inf gradient on a half space
            hists = ["fresh", "default", "warm", "reload"] if iface == "exp" else ["fresh", "default", "adapted"]
            routes = ["step", "sample"] if iface == "exp" else ["single_update", "sample2"]
            ngeom = 0
            for i in range(n):
                tgt = targets[i % len(targets)]
                if tgt == "post_geom" and name in ("MALA", "ULA"):
                    tgt = "lib_post_mat"          # Posterior.gradient is not available through KL/step/mapped domain geometries
                d = rng.choice([1, 2, 3, 5] if tier == "quick" else [1, 2, 3, 4, 6])
                d = max(d, R.MIN_DIM.get(tgt, 1), 2 if name == "CWMH" else 1)   # CWMH refuses dim 1 (IndexError) in both interfaces
                if tgt == "post_geom":
                    d = max(d, 2)
                if tgt in ("lib_banana", "lib_squiggle", "lib_funnel", "lib_donut", "lib_bivgauss"):
                    d = 2
                c = {"kind": "thr", "sampler": name, "iface": iface, "target": tgt, "d": d,
                     "hist": hists[(i // len(targets)) % len(hists)] if i < 4 * len(targets) else rng.choice(hists),
                     "scale": rng.choice(["one", "mid", "mid", "small", "tiny"] + (["vec", "vec"] if name == "CWMH" else [])),
                     "state": rng.choice(["typ", "typ", "tail"]), "route": rng.choice(routes), "i": i}
                if tgt.startswith("post") or tgt.startswith("tuple") or tgt == "lib_post_mat":
                    c["pmean"] = ["nonzero", "zero"][(i // len(targets)) % 2]
                    c["pcov"] = rng.choice(["scalar", "vector", "matrix"] + (["normal"] if (name == "PCN" and tgt != "post_geom") else []))
                    if tgt == "post_geom":
                        _geom_attrs(c, rng, ngeom); ngeom += 1
                    if tgt.startswith("tuple_udprior"):
                        c["pmean"] = "nonzero" if tgt.endswith("nonzero") else "zero"
                        c["pcov"] = rng.choice(["scalar", "vector", "matrix"])
                if tgt in ("box", "nanhalf") and name in ("MALA", "ULA"):
                    c["grad_bad"] = rng.choice(["finite", "nan"])
                if tgt == "gradbad":
                    c["grad_kind"] = ["nan", "nan_one", "posinf", "neginf", "nan"][(i // len(targets)) % 5]
                if tgt == "lib_gauss":
                    forms = GAUSS_FORMS[:-1] if name in ("MALA", "ULA") else GAUSS_FORMS   # sqrtprec form: gradient refused (NotImplementedError)
                    c["gform"] = forms[(i // len(targets)) % len(forms)]
                if name == "MH":
                    c["proposal"] = rng.choice(["default", "default", "corr"]) if i % 23 != 22 else "shifted"
                out.append(c)
    return out


def _chain_cases(tier, seed):
    n = 24 if tier == "quick" else 120
    out = []
    for name in ("MH", "CWMH", "PCN", "MALA"):
        for iface in ("exp", "legacy"):
            rng = core.rng_for(seed, PROPERTY, "chain", name, iface, tier)
            targets = ["post_lin", "post_geom", "post_nonlin", "lib_post_mat", "post_user", "post_user_nan"] if name == "PCN" else \
                      ["gauss", "lib_banana", "banana", "post_geom", "logistic", "lib_gauss", "box", "lib_squiggle", "post_lin", "funnel",
                       "lib_post_mat", "student", "post_user"]
            ngeom = 0
            for i in range(n):
                tgt = targets[i % len(targets)]
                if tgt == "post_geom" and name == "MALA":
                    tgt = "gradbad"
                d = max(rng.choice([1, 2, 3, 4]), R.MIN_DIM.get(tgt, 1), 2 if name == "CWMH" else 1)
                if tgt == "post_geom":
                    d = max(d, 2)
                if tgt in ("lib_banana", "lib_squiggle", "lib_funnel", "lib_donut", "lib_bivgauss"):
                    d = 2
                c = {"kind": "chain", "sampler": name, "iface": iface, "target": tgt, "d": d,
                     "scale": rng.choice(["one", "mid", "small"] + (["vec"] if name == "CWMH" else [])),
                     "mode": rng.choice(["adapt", "adapt", "plain"]), "n": rng.choice([40, 100, 200] + ([600] if tier == "thorough" else [])), "i": i}
                if tgt.startswith("post") or tgt == "lib_post_mat":
                    c["pmean"] = ["nonzero", "zero"][i % 2]
                    c["pcov"] = rng.choice(["scalar", "vector", "matrix"] + (["normal"] if (name == "PCN" and tgt != "post_geom") else []))
                    if tgt == "post_geom":
                        _geom_attrs(c, rng, ngeom); ngeom += 1
                if tgt == "gradbad":
                    c["grad_kind"] = rng.choice(["nan", "nan_one", "posinf", "neginf"])
                if tgt == "lib_gauss":
                    c["gform"] = rng.choice(GAUSS_FORMS[:-1] if name == "MALA" else GAUSS_FORMS)
                out.append(c)
    return out


STAT_TARGETS = {"MH": ["s_gauss1", "s_banana", "s_logistic1", "s_trunc1", "s_gauss2", "s_prod2", "s_linpost2"],
                "MALA": ["s_logistic1", "s_gauss1", "s_prod2", "s_banana", "s_gauss2", "s_trunc1", "s_linpost2"],
                "CWMH": ["s_gauss2", "s_banana", "s_prod2", "s_linpost2"],      # CWMH refuses dim 1
                "PCN": ["s_linpost1", "s_linpost2", "s_linpost2z"]}


def _stat_cases(tier, seed):
    out = []
    K = 6000 if tier == "quick" else 30000
    n = 0
    for name in ("MH", "CWMH", "PCN", "MALA"):
        for iface in ("exp", "legacy"):
            tl = STAT_TARGETS[name]
            if tier == "quick":
                chosen = [(tl[(seed + n + j) % len(tl)], 1 + 2 * ((seed + n + j) % 2), "adapted" if (j == 1 and name != "MALA") else "fresh") for j in range(3)]
            else:
                chosen = [(t, k, h) for t in tl for k in (1, 3) for h in (("fresh", "adapted") if name != "MALA" else ("fresh",))
                          if not (h == "adapted" and k == 3)]
            for t, k, h in chosen:
                out.append({"kind": "stat", "sampler": name, "iface": iface, "target": t, "k": k, "K": K, "hist": h})
            n += 1
    return out


OUT_TARGETS = {"MH": ["box", "box_ones_out", "nanhalf", "uni_post", "uni_post_ones_out"],
               "CWMH": ["box", "box_ones_out", "uni_post_ones_out", "nanhalf", "uni_post"],
               "MALA": ["box", "box_ones_out", "nanhalf"],
               "PCN": ["post_user_neginf", "post_user_nan"]}


def _out_cases(tier, seed):
    """'start outside the support': the chain sits at a point whose target log-density is -inf or NaN (explicit
    initial point outside a bounded support / inside a NaN region, or the default initial point ones(dim) outside)."""
    n = 30 if tier == "quick" else 150
    out = []
    for name in ("MH", "CWMH", "PCN", "MALA"):
        for iface in ("exp", "legacy"):
            rng = core.rng_for(seed, PROPERTY, "out", name, iface, tier)
            tl = OUT_TARGETS[name]
            routes = ["step", "sample"] if iface == "exp" else ["single_update", "sample2"]
            for i in range(n):
                tgt = tl[i % len(tl)]
                d = max(rng.choice([1, 2, 3, 4]), 2 if name == "CWMH" else 1)
                c = {"kind": "out", "sampler": name, "iface": iface, "target": tgt, "d": d,
                     "start": "default" if tgt.endswith("ones_out") and rng.random() < 0.6 else "explicit",
                     "scale": rng.choice(["one", "mid", "mid", "small"] + (["vec"] if name == "CWMH" else [])),
                     "route": routes[(i // len(tl)) % 2], "i": i}
                if tgt.startswith("post"):
                    c["pmean"] = ["nonzero", "zero"][i % 2]
                    c["pcov"] = rng.choice(["scalar", "vector", "matrix"])
                out.append(c)
    return out


REPS = ["pyscalar", "pyint", "npfloat", "np0d", "len1", "list", "tuple", "ndarray", "view", "cuqiarray", "default"]
REP_TARGETS = ["gauss", "logistic", "post_lin", "student", "lib_gauss", "banana"]


def _rep_cases(tier, seed):
    """'initial point representation': the same start handed over as Python scalar / int, NumPy scalar, 0-d array,
    length-1 array, list, tuple, ndarray, strided view, CUQIarray or not at all, on targets of dimension 1 and > 1."""
    reps_n = 1 if tier == "quick" else 5
    out = []
    for name in ("MH", "CWMH", "PCN", "MALA", "ULA"):
        for iface in ("exp", "legacy"):
            rng = core.rng_for(seed, PROPERTY, "rep", name, iface, tier)
            k = 0
            for rr in range(reps_n):
                for rp in REPS:
                    for dd in (1, 0):
                        if dd == 1 and name == "CWMH":
                            continue
                        tgt = "post_lin" if name == "PCN" else REP_TARGETS[(k + seed) % len(REP_TARGETS)]
                        k += 1
                        d = 1 if dd == 1 else rng.choice([2, 3, 4])
                        d = max(d, R.MIN_DIM.get(tgt, 1))
                        c = {"kind": "rep", "sampler": name, "iface": iface, "target": tgt, "d": d, "rep": rp, "hist": "fresh",
                             "state": "typ", "scale": rng.choice(["one", "mid", "mid", "small"]),
                             "route": rng.choice(["step", "sample"]) if iface == "exp" else "sample2", "i": rr}
                        if tgt.startswith("post"):
                            c["pmean"] = rng.choice(["nonzero", "zero"]); c["pcov"] = rng.choice(["scalar", "vector", "matrix"])
                        if tgt == "lib_gauss":
                            c["gform"] = rng.choice(GAUSS_FORMS[:-1])
                        out.append(c)
    return out


SPELLINGS = {"CWMH": ["none", "normal_ls", "normal_sl", "normal_split", "normal_split_sl", "uniform_ls", "uniform_sl", "normal_meanstd",
                      "callable", "callable_sl_kw", "fixed_normal"],
             "MH": ["none", "fixed_gauss", "fixed_normal", "fixed_uniform", "normal_ls", "uniform_sl", "callable"]}
SPELL_TARGETS = ["gauss", "logistic", "banana", "box", "student", "post_lin", "nanhalf"]


def _prop_cases(tier, seed):
    """'user-supplied proposal spelling' for every sampler that accepts a proposal (MH and CWMH, both interfaces)."""
    reps_n = 2 if tier == "quick" else 10
    out = []
    for name in ("MH", "CWMH"):
        for iface in ("exp", "legacy"):
            rng = core.rng_for(seed, PROPERTY, "prop", name, iface, tier)
            k = 0
            for rr in range(reps_n):
                for sp in SPELLINGS[name]:
                    tgt = SPELL_TARGETS[(k + seed) % len(SPELL_TARGETS)]; k += 1
                    d = max(rng.choice([2, 3, 4] if name == "CWMH" else [1, 2, 3]), R.MIN_DIM.get(tgt, 1))
                    c = {"kind": "prop", "sampler": name, "iface": iface, "target": tgt, "d": d, "spelling": sp,
                         "hist": rng.choice(["fresh", "fresh", "warm" if iface == "exp" else "adapted"]),
                         "scale": rng.choice(["one", "mid", "mid", "small"] + (["vec", "vec"] if name == "CWMH" else [])),
                         "state": rng.choice(["typ", "typ", "tail"]),
                         "route": rng.choice(["step", "sample"] if iface == "exp" else ["single_update", "sample2"]), "i": rr}
                    if tgt.startswith("post"):
                        c["pmean"] = rng.choice(["nonzero", "zero"]); c["pcov"] = rng.choice(["scalar", "vector", "matrix"])
                    out.append(c)
    return out


def cases(tier, seed):
    rest = _chain_cases(tier, seed) + _thr_cases(tier, seed) + _out_cases(tier, seed) + _rep_cases(tier, seed) + _prop_cases(tier, seed)
    core.rng_for(seed, PROPERTY, "order", tier).shuffle(rest)     # a wall-clock cut must not fall on one sampler
    out = _stat_cases(tier, seed) + rest                          # the expensive stat cases first, spread over all shards
    flt = os.environ.get("VERIF_C02_FILTER")       # development only, e.g. "MALA:exp" (a filtered run cannot reach the coverage floors)
    if flt:
        nm, _, ifc = flt.partition(":")
        out = [c for c in out if c["sampler"] in nm.split(",") and (not ifc or c["iface"] == ifc)]
    return out


def _cfg(case, **extra):
    keys = ("kind", "sampler", "iface", "target", "hist", "route", "pmean", "pcov", "grad_bad", "proposal", "mode", "start", "rep", "spelling", "grad_kind",
            "geom", "pname", "pgeom", "gform")
    c = {k: case[k] for k in keys if k in case}
    c.update(extra)
    return c


def crash_config(case):
    return _cfg(case)

# =========================================================================== environment (harness-owned targets)

class Rec:
    def __init__(self):
        self.pts, self.gpts = [], []
        self.fpts = []          # function values handed to a harness forward map behind a non-identity domain geometry
        self.changed = []       # (function, argument before, argument after): a library target wrote through its argument
        self.fwd_bad = []       # (parameter point, function values received, harness par2fun of the point)
        self.ncalls = 0         # calls observed by the recording pass-throughs

    def clear(self):
        self.pts.clear(); self.gpts.clear(); self.fpts.clear()


def _wrap(obj, rec, hook=None):
    """recording pass-through around the REAL library density `obj` (instance attributes shadow the methods):
    records a copy of every argument, checks afterwards that the argument was left unchanged."""
    for nm, store in (("logd", rec.pts), ("gradient", rec.gpts)):
        orig = getattr(obj, nm, None)
        if orig is None:
            continue
        def w(x, *a, _orig=orig, _store=store, _nm=nm, **k):
            pre = np.array(x, dtype=float, copy=True)
            _store.append(pre.ravel().copy())
            rec.ncalls += 1
            out = _orig(x, *a, **k)
            try:
                same = np.array_equal(np.asarray(x, dtype=float), pre, equal_nan=True)
            except (TypeError, ValueError):
                same = True
            if not same:
                rec.changed.append((_nm, pre.ravel(), np.array(x, dtype=float).ravel()))
            if hook is not None and _nm == "logd":
                hook(pre.ravel())
            return out
        setattr(obj, nm, w)


def _arr(x):
    return np.array(x, dtype=float, copy=True).ravel()


class Env:
    """reference target + the cuqi objects wrapping the same harness functions."""

    def __init__(self, case, rs, ref=None):
        import cuqi
        self.case, self.rec = case, Rec()
        name, tgt, d = case["sampler"], case["target"], case.get("d", 1)
        rec = self.rec
        self.prior = None
        self.prop_cov = self.prop_mean = None
        self.is_post = False
        if ref is not None:
            self.ref = ref
            d = ref.d
        elif tgt in R.TARGETS:
            kw = {"grad_bad": case.get("grad_bad", "finite")} if tgt in ("box", "nanhalf") else {}
            self.ref = R.TARGETS[tgt](rs, d, **kw)
        elif tgt == "gradbad":
            self.ref = R.GradBad(rs, d, case.get("grad_kind", "nan"))
        elif tgt == "box_ones_out":
            self.ref = R.Box(rs, d, grad_bad=case.get("grad_bad", "finite"), ones_inside=False)
        elif tgt in ("uni_post", "uni_post_ones_out"):
            prior = R.UniformPrior(rs, d, ones_inside=(tgt == "uni_post"))
            self.ref = R.PostRef(prior, R.LinLik(rs, d, prior))
        elif tgt == "lib_gauss":
            self.ref = R.LibGauss(rs, d, case.get("gform", "cov"))
        elif tgt.startswith("lib_") and tgt != "lib_post_mat":
            self.ref = R.GalleryRef(tgt[4:])
            d = 2
        else:
            pcov = case.get("pcov", "scalar")
            prior = R.GaussPrior(rs, d, case.get("pmean", "zero"), "vector" if pcov == "normal" else pcov)
            if tgt in ("post_lin", "lib_post_mat"):
                lik = R.LinLik(rs, d, prior)
            elif tgt == "post_geom":
                lik = R.GeomLik(rs, d, prior, case.get("geom", "kl"))
            elif tgt == "post_nonlin":
                lik = R.NonlinLik(rs, d, prior)
            else:
                bad = "nan" if tgt.endswith("_nan") else ("neginf" if tgt.endswith("_neginf") else None)
                lik = R.UserLik(rs, d, prior, bad=bad)
            self.ref = R.PostRef(prior, lik)
        self.d = d
        ref = self.ref
        self.wrapped = False
        if isinstance(ref, R.PostRef):
            self.is_post = True
            self.prior = prior = ref.prior
            lik = ref.lik
            pcov = case.get("pcov", "matrix" if d > 1 else "scalar")
            geom = None
            if lik.kind == "geom":
                G = cuqi.geometry
                if lik.gkind in ("kl", "kl_lin"):
                    geom = G.KLExpansion(d if lik.gkind == "kl" else lik.grid.copy(), decay_rate=lik.decay, normalizer=lik.tau)
                elif lik.gkind == "step":
                    geom = G.StepExpansion(lik.grid.copy(), n_steps=d)
                else:
                    geom = G.MappedGeometry(G.Continuous1D(d), map=lik.map_fn)
            pkw = {}
            if case.get("pname", "named") == "named":
                pkw["name"] = "x"
            if geom is not None and case.get("pgeom") == "same":
                pkw["geometry"] = geom
            if isinstance(prior, R.UniformPrior):
                self.cprior = cuqi.distribution.Uniform(prior.lo.copy(), prior.hi.copy(), **pkw)     # real library prior, -inf outside
            elif pcov == "normal":
                self.cprior = cuqi.distribution.Normal(prior.m.copy(), np.sqrt(np.diag(prior.C)), **pkw)
            else:
                self.cprior = cuqi.distribution.Gaussian(prior.m.copy(), copy.deepcopy(prior.cov_arg), **pkw)
            if lik.kind == "geom":
                # the harness forward map receives FUNCTION values; the parameter points are observed by the
                # pass-through around the library density, and the two are tied by the harness's own par2fun
                self.wrapped = True
                def fwd(x):
                    ff = _arr(x); rec.fpts.append(ff)
                    return lik.fwd_fun(ff)
                model = cuqi.model.Model(fwd, range_geometry=lik.m_out, domain_geometry=geom)
                ydist = cuqi.distribution.Gaussian(model, lik.s2, name="y")
                self.clik = ydist.to_likelihood(lik.y.copy())
            elif tgt == "lib_post_mat":
                self.wrapped = True
                model = cuqi.model.LinearModel(lik.A.copy())
                ydist = cuqi.distribution.Gaussian(model, lik.s2, name="y")
                self.clik = ydist.to_likelihood(lik.y.copy())
            elif lik.kind in ("lin", "nonlin"):
                def fwd(x):
                    xx = _arr(x); rec.pts.append(xx)
                    return lik.fwd(xx)
                if lik.kind == "lin":
                    def adj(y):
                        return lik.A.T @ _arr(y)
                    model = cuqi.model.LinearModel(fwd, adj, range_geometry=lik.m_out, domain_geometry=d)
                else:
                    def jac(x):
                        return lik.jac(_arr(x))
                    model = cuqi.model.Model(fwd, range_geometry=lik.m_out, domain_geometry=d, jacobian=jac)
                ydist = cuqi.distribution.Gaussian(model, lik.s2, name="y")
                self.clik = ydist.to_likelihood(lik.y.copy())
            else:
                def llf(x):
                    xx = _arr(x); rec.pts.append(xx)
                    return lik.ll(xx)
                def lgf(x):
                    xx = _arr(x); rec.gpts.append(xx)
                    return lik.grad(xx)
                self.clik = cuqi.likelihood.UserDefinedLikelihood(dim=d, logpdf_func=llf, gradient_func=lgf, name="y",
                                                                  geometry=cuqi.geometry._DefaultGeometry1D(d))
            if tgt.startswith("tuple"):
                if tgt.startswith("tuple_udprior"):
                    m, L = prior.m.copy(), prior.L.copy()
                    def sf():
                        return m[:, None] + L @ np.random.randn(d, 1)
                    up = cuqi.distribution.UserDefinedDistribution(dim=d, logpdf_func=lambda x: prior.lp(_arr(x)),
                                                                   sample_func=sf, name="x")
                    self.ctarget = (self.clik, up)
                else:
                    self.ctarget = (self.clik, self.cprior)
            else:
                self.ctarget = cuqi.distribution.Posterior(self.clik, self.cprior)
            if self.wrapped:
                hook = None
                if lik.kind == "geom":
                    def hook(xpar):
                        if rec.fpts:
                            f_got, f_ref = rec.fpts[-1], lik.p2f(xpar)
                            if f_got.shape != f_ref.shape or not np.all(np.abs(f_got - f_ref) <= 1e-9 * (1 + np.max(np.abs(f_ref)))):
                                rec.fwd_bad.append((xpar.copy(), f_got.copy(), f_ref.copy()))
                _wrap(self.clik if name == "PCN" else self.ctarget, rec, hook)
        elif getattr(ref, "lib", None) is not None:
            self.wrapped = True
            kind, arg = ref.lib
            if kind == "gallery":
                self.ctarget = cuqi.distribution.DistributionGallery(arg, name="x")
            else:
                key = {"cov_scalar": "cov", "cov_vector": "cov"}.get(arg, arg)
                self.ctarget = cuqi.distribution.Gaussian(ref.mu.copy(), **{key: copy.deepcopy(ref.arg)}, name="x")
            _wrap(self.ctarget, rec)
        else:
            def lpf(x):
                xx = _arr(x)
                if xx.size == 1 and d > 1:        # a scalar state stands for the vector with all components equal
                    xx = np.full(d, xx[0])
                rec.pts.append(xx)
                return ref.lp(xx)
            def gf(x):
                xx = _arr(x)
                if xx.size == 1 and d > 1:
                    xx = np.full(d, xx[0])
                rec.gpts.append(xx)
                return ref.grad(xx)
            self.ctarget = cuqi.distribution.UserDefinedDistribution(dim=d, logpdf_func=lpf, gradient_func=gf, name="x")
        self.noise_api, self.noise_gain, self.proposal_factory = "normal", 1.0, None
        sp = case.get("spelling")
        if sp is not None and sp != "none":
            Dm = cuqi.distribution
            w = rs.uniform(0.5, 2.0, d)
            fac = {
                # conditional on location/scale, the lambdas' argument order both ways
                "normal_ls": lambda: Dm.Normal(mean=lambda location, scale: location, std=lambda location, scale: scale, geometry=d),
                "normal_sl": lambda: Dm.Normal(mean=lambda scale, location: location, std=lambda scale, location: scale, geometry=d),
                "normal_split": lambda: Dm.Normal(mean=lambda location: location, std=lambda scale: scale, geometry=d),
                "normal_split_sl": lambda: Dm.Normal(std=lambda scale: scale, mean=lambda location: location, geometry=d),
                "uniform_ls": lambda: Dm.Uniform(low=lambda location, scale: location - scale, high=lambda location, scale: location + scale, geometry=d),
                "uniform_sl": lambda: Dm.Uniform(low=lambda scale, location: location - scale, high=lambda scale, location: location + scale, geometry=d),
                "normal_meanstd": lambda: Dm.Normal(geometry=d),
                "callable": lambda: (lambda x, sc_: np.asarray(x, float) + np.asarray(sc_, float) * np.random.randn(d)),
                "callable_sl_kw": lambda: (lambda location, scale: np.asarray(location, float) + np.asarray(scale, float) * np.random.randn(d)),
                # fixed symmetric distributions
                "fixed_gauss": lambda: Dm.Gaussian(np.zeros(d), np.diag(w ** 2)),
                "fixed_normal": lambda: Dm.Normal(np.zeros(d), w.copy()),
                "fixed_uniform": lambda: Dm.Uniform(-w.copy(), w.copy()),
            }
            self.proposal_factory = fac[sp]
            if sp.startswith("uniform") or sp == "fixed_uniform":
                self.noise_api, self.noise_gain = "uniform", 2.0      # x* = centre + 2*width*(u - 1/2)
            if sp.startswith("fixed"):
                self.prop_cov, self.prop_mean = np.diag((self.noise_gain * w) ** 2), np.zeros(d)
        if name == "MH" and case.get("proposal", "default") != "default":
            C = R._spd(rs, d, cond=10.0)
            self.prop_cov = 0.5 * (C + C.T)
            self.prop_mean = rs.uniform(0.5, 1.5, d) if case["proposal"] == "shifted" else np.zeros(d)

    # value the sampler caches for a point (likelihood-only for pCN)
    def ref_cached(self, name, x):
        return self.ref.ll(x) if name == "PCN" else self.ref.lp(x)

    def sanity(self, ctx, rs, name):
        """real library targets: the library density (evaluated by the harness on ndarray copies) must agree with the
        independent reference up to a constant; a disagreement is a density/geometry matter (C04/C13), the case is
        then inconclusive for C02."""
        if not self.wrapped:
            return True
        f = self.clik.logd if name == "PCN" else self.ctarget.logd
        pts = [self.ref.typical(rs) for _ in range(3)]
        vals = [float(np.asarray(f(p.copy()), float).ravel()[0]) for p in pts]
        refs = [self.ref_cached(name, p) for p in pts]
        ok = all(abs((vals[i] - vals[0]) - (refs[i] - refs[0])) <= 1e-8 * (1 + abs(refs[i]) + abs(refs[0])) for i in (1, 2))
        bad_fwd = bool(self.rec.fwd_bad)
        self.rec.fwd_bad.clear()
        self.rec.clear()
        ctx.count("library_target_vs_reference_checked")
        if not ok or bad_fwd:
            ctx.inconclusive(f"library target disagrees with the independent reference on plain ndarray input "
                             f"(density diff {[v - vals[0] for v in vals]} vs {[r - refs[0] for r in refs]}, par2fun mismatch {bad_fwd})")
            return False
        return True

    def report_side_effects(self, ctx, cfg, where=""):
        """violations observed by the pass-throughs since the last call."""
        rec = self.rec
        if rec.ncalls:
            ctx.count("target_args_unchanged_checked", rec.ncalls)
            if self.ref.__class__.__name__ == "PostRef" and getattr(self.ref.lik, "kind", "") == "geom":
                ctx.count("forward_input_checked", rec.ncalls)
            rec.ncalls = 0
        if rec.changed:
            nm, pre, post = rec.changed[0]
            ctx.violation("target_argument_modified", {**cfg, "fn": nm},
                          f"{where}: {nm} of the target overwrote the array it was given: {pre} -> {post} ({len(rec.changed)} calls)")
            rec.changed.clear()
        if rec.fwd_bad:
            xp, fg, fr = rec.fwd_bad[0]
            ctx.violation("forward_input_not_par2fun", cfg,
                          f"{where}: the target was evaluated at parameters {xp} but the forward map received {fg}; "
                          f"documented par2fun gives {fr} ({len(rec.fwd_bad)} evaluations)")
            rec.fwd_bad.clear()

    def scale_value(self, rs, name, kind):
        d = self.d
        if kind == "one":
            return 1.0
        if kind == "mid":
            return float(rs.uniform(0.15, 0.9))
        if kind == "small":
            return 0.05
        if kind == "tiny":
            return 1e-3
        if kind == "vec":
            return rs.uniform(0.05, 1.5, d)
        raise KeyError(kind)

# =========================================================================== driving one transition

class Obs:
    pass


def _zprov(z):
    st = {"n": 0}
    def f(shape, api, seq):
        k = st["n"]; st["n"] += 1
        if k == 0 and z is not None:
            if np.size(z) != int(np.prod(shape)):
                return None          # the sampler asks for a different number of variates: pass through, flagged as unscripted
            return np.asarray(z, float).reshape(shape)
        return None
    return f


def _uprov(us):
    st = {"n": 0}
    def f(shape, api, seq):
        k = st["n"]; st["n"] += 1
        if us is not None and k < len(us):
            return np.full(shape, float(us[k])) if shape != () else float(us[k])
        return None
    return f


class Driver:
    """One sampler object in a given configuration/history; runs single transitions from arbitrary states."""

    def __init__(self, env, case, ctx):
        import cuqi
        self.cuqi, self.env, self.case, self.ctx = cuqi, env, case, ctx
        self.name, self.iface, self.d = case["sampler"], case["iface"], env.d
        self.n_unif = self.d if self.name == "CWMH" else (0 if self.name == "ULA" else 1)

    # ---- construction
    def make(self, x0, scale, callback=None, raw_x0=False):
        cuqi, env = self.cuqi, self.env
        sc = copy.deepcopy(scale)
        if raw_x0:
            keep = x0
        if self.iface == "exp":
            cls = getattr(cuqi.experimental.mcmc, self.name)
            kw = {"scale": sc, "initial_point": None if x0 is None else (keep if raw_x0 else np.array(x0, float)), "callback": callback}
            if getattr(env, "proposal_factory", None) is not None:
                kw["proposal"] = env.proposal_factory()
            elif self.name == "MH" and env.prop_cov is not None:
                kw["proposal"] = cuqi.distribution.Gaussian(env.prop_mean.copy(), env.prop_cov.copy(), name="xi")
            return cls(env.ctarget, **kw)
        cls = getattr(cuqi.sampler, LEGACY_NAME[self.name])
        kw = {"scale": sc, "x0": None if x0 is None else (keep if raw_x0 else np.array(x0, float)), "callback": callback}
        if getattr(env, "proposal_factory", None) is not None:
            kw["proposal"] = env.proposal_factory()
        elif self.name == "MH" and env.prop_cov is not None:
            kw["proposal"] = cuqi.distribution.Gaussian(env.prop_mean.copy(), env.prop_cov.copy(), name="xi")
        return cls(env.ctarget, **kw)

    # ---- library evaluations used as cached values when a state is injected
    def lib_eval(self, s, x):
        x = np.array(x, float)
        if self.name == "PCN":
            out = {"lik": s._loglikelihood(x)}
        else:
            out = {"logd": s.target.logd(x)}
            if self.name in ("MALA", "ULA"):
                out["grad"] = s.target.gradient(x)
        self.env.rec.clear()
        return out

    def _script(self, z, us):
        """scripted stream: z is the proposal noise (standard normal variates, or for a uniform-family proposal the centred
        uniform variates u - 1/2 delivered on the `uniform` API), us the accept/reject uniforms (`rand` API)."""
        if getattr(self.env, "noise_api", "normal") != "uniform":
            return Scripted(normal=_zprov(z), uniform=_uprov(us))
        st = {"z": False, "k": 0}
        def f(shape, api, seq):
            if api == "uniform":
                if not st["z"] and z is not None and np.size(z) == int(np.prod(shape)):
                    st["z"] = True
                    return np.asarray(z, float).reshape(shape) + 0.5
                return None
            k = st["k"]; st["k"] += 1
            if us is not None and k < len(us):
                return np.full(shape, float(us[k])) if shape != () else float(us[k])
            return None
        return Scripted(normal=None, uniform=f)

    def _full(self, v):
        """a scalar / length-1 state stands for the vector with all components equal."""
        return np.full(self.d, v[0]) if (v.size == 1 and self.d > 1) else v

    def snapshot(self, s):
        return {k: copy.deepcopy(getattr(s, k)) for k in sorted(s._STATE_KEYS)}

    def scale_of(self, s):
        return np.array(s.scale, dtype=float)

    # ---- one transition from state x (None = the base state of sampler s)
    def transition(self, s, x, z, us, route=None, x0_obj=None):
        env, name = self.env, self.name
        route = route or ("step" if self.iface == "exp" else "single_update")
        o = Obs()
        o.refused = None
        if self.iface == "exp":
            s = copy.deepcopy(s)
            if x is not None:
                ev = self.lib_eval(s, x)
                st = s.get_state()
                st["state"]["current_point"] = np.array(x, float)
                if "current_target_logd" in st["state"]:
                    st["state"]["current_target_logd"] = ev["logd"]
                if "current_target_grad" in st["state"]:
                    st["state"]["current_target_grad"] = ev["grad"]
                if "current_likelihood_logd" in st["state"]:
                    st["state"]["current_likelihood_logd"] = ev["lik"]
                s.set_state(st)
            o.pre = self.snapshot(s)
            o.x_prev = self._full(_arr(o.pre["current_point"]))
            env.rec.clear()
            with self._script(z, us) as scr:
                if route == "step":
                    acc = s.step()
                else:
                    s.sample(1)
                    acc = s._acc[-1]
            o.post = self.snapshot(s)
            o.x_next = self._full(_arr(o.post["current_point"]))
            o.acc = np.array(acc, float).ravel()
            o.cache_pre = {k: o.pre[k] for k in ("current_target_logd", "current_target_grad", "current_likelihood_logd") if k in o.pre}
            o.cache_post = {k: o.post[k] for k in o.cache_pre}
            o.sampler = s
        else:
            x = _arr(x)
            o.x_prev = x.copy()
            scale_before = copy.deepcopy(s.scale)
            if route == "single_update":
                ev = self.lib_eval(s, x)
                args = [ev["lik"]] if name == "PCN" else ([ev["logd"], ev["grad"]] if name in ("MALA", "ULA") else [ev["logd"]])
                args_copy = copy.deepcopy(args)
                x_in = x.copy()
                env.rec.clear()
                with self._script(z, us) as scr:
                    try:
                        out = s.single_update(x_in, *args)
                    except NameError as e:        # legacy ULA: documented refusal of a NaN potential
                        o.refused = e
                        out = None
                o.args_changed = None
                if name != "CWMH" and not _same_bits(x_in, x):      # legacy CWMH updates its argument in place (known C14 finding)
                    o.args_changed = f"state argument {x} -> {x_in}"
                elif name in ("MALA", "ULA") and not _same_bits(np.asarray(args[1], float).ravel(), np.asarray(args_copy[1], float).ravel()):
                    o.args_changed = f"gradient argument {args_copy[1]} -> {args[1]}"
                if out is not None:
                    o.x_next = _arr(out[0])
                    o.acc = np.array(out[-1], float).ravel()
                    o.cache_pre = {"current_target_logd": args_copy[0]}
                    o.cache_post = {"current_target_logd": out[1]}
                    if name in ("MALA", "ULA"):
                        o.cache_pre["current_target_grad"] = args_copy[1]
                        o.cache_post["current_target_grad"] = out[2]
            else:
                s.x0 = x.copy() if x0_obj is None else x0_obj      # x0_obj: the caller's own representation of the initial point
                env.rec.clear()
                with self._script(z, us) as scr:
                    try:
                        r = s.sample(2)
                    except NameError as e:
                        o.refused = e
                        r = None
                if r is not None:
                    o.x_next = _arr(r.samples[:, 1])
                    o.acc = np.array(2 * np.array(r.acc_rate, float) - 1, float).ravel()
                    o.cache_pre = {"current_target_logd": r.loglike_eval[0]}
                    o.cache_post = {"current_target_logd": r.loglike_eval[1]}
            o.scale_changed = not np.array_equal(np.asarray(scale_before, float), np.asarray(s.scale, float))
            o.sampler = s
        o.pts = [p.copy() for p in env.rec.pts]
        if getattr(env, "noise_api", "normal") == "uniform":
            noise = [dr for dr in scr.draws if dr[1] == "uniform"]
            o.n_norm, o.n_unif = len(noise), len([dr for dr in scr.draws if dr[1] in ("rand", "random", "random_sample")]) + len(scr.normals())
        else:
            noise = scr.normals()
            o.n_norm, o.n_unif = len(noise), len(scr.uniforms())
        o.norm_size = sum(int(np.prod(dr[2])) if dr[2] != () else 1 for dr in noise)
        o.norm_scripted = all(dr[4] for dr in noise)
        env.rec.clear()
        return o

    def xstar(self, o):
        """the proposal as evaluated by the sampler (read from the harness-owned target's argument trace)."""
        if self.name == "CWMH":
            if len(o.pts) < self.d:
                return None
            last = o.pts[-self.d:]
            return np.array([last[j][j] for j in range(self.d)])
        return None if not o.pts else o.pts[-1].copy()


def _u_above(t):
    """a uniform value whose logarithm is safely above log alpha: exp(t) in the normal range; in the
    sub-normal range log(exp(t)) is no longer accurate, so a value far above the threshold is used."""
    return math.exp(t) if t > -700 else TINY_U


def _close(a, b, rtol, atol=0.0):
    a, b = np.asarray(a, float), np.asarray(b, float)
    if a.shape != b.shape:
        return False
    if not np.all(np.isfinite(a) == np.isfinite(b)):
        return False
    f = np.isfinite(a)
    if not np.array_equal(a[~f], b[~f], equal_nan=True):
        return False
    sc = max(float(np.max(np.abs(a[f]))) if f.any() else 0.0, float(np.max(np.abs(b[f]))) if f.any() else 0.0)
    return bool(np.all(np.abs(a[f] - b[f]) <= atol + rtol * sc))


def _same_bits(a, b):
    a, b = np.asarray(a, float), np.asarray(b, float)
    return a.shape == b.shape and np.array_equal(a, b, equal_nan=True)


def _same_state(p, q):
    for k in p:
        a, b = p[k], q[k]
        try:
            if not _same_bits(np.asarray(a, float).ravel(), np.asarray(b, float).ravel()):
                return k
        except (TypeError, ValueError):
            if a is not b and a != b:
                return k
    return None

# =========================================================================== thr cases

class Thr:
    def __init__(self, case, ctx):
        self.case, self.ctx = case, ctx
        self.rs = core.np_rng(ctx.seed, PROPERTY, core.canon(case))
        self.env = Env(case, self.rs)
        self.D = Driver(self.env, case, ctx)
        self.name, self.iface, self.d = self.D.name, self.D.iface, self.env.d
        self.ref = self.env.ref
        self.cfg = _cfg(case)

    def viol(self, mech, detail, **extra):
        self.ctx.violation(mech, {**self.cfg, **extra}, detail)

    # ---- history
    def start_point(self):
        ref, rs = self.ref, self.rs
        x = None
        for _ in range(30):
            x = ref.typical(rs)
            if self.name == "PCN" and not np.isfinite(self.ref.ll(x)):
                x = ref.prior.m.copy()
            if self.usable_state(x):
                break
        if self.case["state"] == "tail":
            c = ref.typical(rs)
            y = c + 6.0 * (x - c)
            if self.usable_state(y):
                x = y
        return x

    def build(self):
        case, D, rs, env = self.case, self.D, self.rs, self.env
        if not env.sanity(self.ctx, rs, self.name):
            return False
        scale = env.scale_value(rs, self.name, case["scale"])
        if self.name == "PCN" and case["scale"] == "one" and rs.uniform() < 0.5:
            scale = 0.999
        hist = case["hist"]
        x0 = None if hist == "default" else self.start_point()
        np.random.seed(int(rs.randint(2 ** 31 - 1)))
        if self.iface == "exp":
            s = D.make(x0, scale)
            s.initialize()
            if hist in ("warm", "reload"):
                if hist == "warm" or rs.uniform() < 0.6:
                    s.warmup(int(rs.choice([20, 40])))
                if rs.uniform() < 0.5:
                    s.sample(5)
            if hist == "reload":
                other_scale = env.scale_value(rs, self.name, "mid")
                sB = D.make(self.ref.typical(rs) if not self.ref.has_bad else np.ones(self.d), other_scale)
                if rs.uniform() < 0.5:
                    path = os.path.join(tempfile.mkdtemp(prefix="c02_"), "ck.pkl")
                    s.save_checkpoint(path)
                    sB.load_checkpoint(path)
                    try:
                        os.remove(path); os.rmdir(os.path.dirname(path))
                    except OSError:
                        pass
                else:
                    sB.initialize()
                    sB.set_state(copy.deepcopy(s.get_state()))
                self.reload_equivalence(s, sB)
                s = sB
            xx = _arr(s.current_point)
            if hist in ("warm", "reload") and not self.usable_state(xx):
                self.ctx.count("history_left_usable_region")      # e.g. ULA with a large step diverges: restart fresh
                s = D.make(self.start_point(), scale)
                s.initialize()
            self.s = s
            self.x = _arr(s.current_point)
        else:
            s = D.make(x0, scale)
            x = np.ones(self.d) if x0 is None else x0
            if hist == "adapted":
                try:
                    r = s.sample_adapt(int(rs.choice([30, 50])), int(rs.choice([0, 5])))
                    x = _arr(r.samples[:, -1])
                except NameError:
                    self.ctx.count("adapt_run_refused_nan")
            if not self.usable_state(x):
                if hist == "adapted":
                    self.ctx.count("history_left_usable_region")
                    s = D.make(x0, scale)
                x = self.start_point()
            self.s, self.x = s, x
        env.rec.clear()
        if rs.uniform() < 0.35:
            self.decoy()
        self.scale = D.scale_of(self.s)
        env.report_side_effects(self.ctx, self.cfg, "history (" + str(hist) + ")")
        return True

    def decoy(self):
        """another sampler of the same class, configured differently and built/run AFTER the one under test, must not
        change it (class-level shared state, order of construction)."""
        D, rs, env = self.D, self.rs, self.env
        before = D.snapshot(self.s) if self.iface == "exp" else {"scale": copy.deepcopy(self.s.scale), "x0": copy.deepcopy(self.s.x0)}
        other = D.make(self.start_point(), env.scale_value(rs, self.name, "mid") * (0.5 if self.name == "PCN" else 1.0))
        try:
            if self.iface == "exp":
                other.initialize(); other.warmup(10)
            else:
                other.sample_adapt(20, 0)
        except NameError:
            pass
        env.rec.clear()
        after = D.snapshot(self.s) if self.iface == "exp" else {"scale": copy.deepcopy(self.s.scale), "x0": copy.deepcopy(self.s.x0)}
        self.ctx.count("decoy_isolation_checked")
        k = _same_state(before, after)
        if k is not None:
            self.viol("sampler_instances_share_state", f"building and running a second sampler changed {k} of the first: {before[k]} -> {after[k]}", key=k)

    def usable_state(self, x):
        x = np.asarray(x, float)
        if not np.all(np.isfinite(x)) or np.max(np.abs(x)) > 1e6 or self.ref.in_bad(x):
            return False
        v = self.env.ref_cached(self.name, x)
        if not np.isfinite(v) or not np.isfinite(self.ref.lp(x)):
            return False
        if self.name in ("MALA", "ULA"):
            # a state whose Langevin drift is astronomically larger than the state itself cannot be probed
            # to the accuracy the threshold test needs (identified factor B = x*(e_i) - a loses all digits)
            g = self.ref.grad(x)
            if not np.all(np.isfinite(g)) or np.max(np.abs(g)) > 1e4:
                return False
            if self.env.wrapped:
                # real library target: its own gradient must be computable there (e.g. the gallery funnel overflows
                # to NaN for x1 > ~1400 where a diverged Langevin run may end up)
                gl = np.asarray(self.env.ctarget.gradient(x.copy()), float).ravel()
                self.env.rec.clear()
                if gl.shape != g.shape or not np.all(np.isfinite(gl)) or not np.allclose(gl, g, rtol=1e-6, atol=1e-9):
                    self.ctx.count("library_gradient_unusable_state")
                    return False
        return True

    def reload_equivalence(self, sA, sB):
        """a reloaded sampler must make the same transition as the original under the same stream."""
        D, rs = self.D, self.rs
        for _ in range(2):
            z = rs.standard_normal(self.d)
            us = list(rs.uniform(0.05, 0.95, max(1, D.n_unif)))
            oa, ob = D.transition(sA, None, z, us), D.transition(sB, None, z, us)
            self.ctx.count("reload_equivalence_checked")
            if not (_same_bits(oa.x_next, ob.x_next) and len(oa.pts) == len(ob.pts)
                    and all(_same_bits(p, q) for p, q in zip(oa.pts, ob.pts)) and _same_state(oa.post, ob.post) is None):
                self.viol("reload_changes_kernel", f"after set_state/load_checkpoint the same (xi,u) gives x_next={ob.x_next} "
                          f"instead of {oa.x_next}; state key differing: {_same_state(oa.post, ob.post)}")

    # ---- the state from which transitions are made: None = the sampler's own state (exp), else injected
    def at(self, x):
        if self.iface == "exp" and x is self.x:
            return None
        return x

    def trans(self, x, z, us, route=None):
        o = self.D.transition(self.s, self.at(x), z, us, route)
        self.env.report_side_effects(self.ctx, self.cfg, "transition")
        if hasattr(o, "args_changed"):
            self.ctx.count("kernel_args_unchanged_checked")
            if o.args_changed:
                self.viol("kernel_argument_modified", f"single_update wrote through its {o.args_changed}")
        exp_norm = 1
        if o.refused is None and (o.n_norm != exp_norm or o.n_unif != self.D.n_unif or not o.norm_scripted):
            self.viol("unexpected_random_draws", f"transition consumed {o.n_norm} normal and {o.n_unif} uniform draws, "
                      f"expected {exp_norm} and {self.D.n_unif}")
        return o

    # ---- (a) identification
    def identify(self, x, full=True, Bknown=None):
        D, d, rs = self.D, self.d, self.rs
        us = [TINY_U] * max(1, D.n_unif)
        a = D.xstar(self.trans(x, np.zeros(d), us))
        if a is None:
            return None
        if full:
            cols = []
            for i in range(d):
                e = np.zeros(d); e[i] = 1.0
                c = D.xstar(self.trans(x, e, us))
                if c is None:
                    return None
                cols.append(c)
            a, B = R.fit_affine(a, cols)
            ntest = 2
        else:
            B, ntest = Bknown, 1
        for _ in range(ntest):
            z = rs.standard_normal(d) * rs.choice([0.5, 2.0])
            got = D.xstar(self.trans(x, z, us))
            pred = a + B @ z
            self.ctx.count("affinity_checked")
            if got is None or not np.all(np.abs(got - pred) <= 1e-9 * (1 + np.max(np.abs(pred)))):
                if full:
                    self.viol("proposal_not_affine", f"x*(xi) is not affine in the noise: got {got}, a+B xi = {pred}")
                    return None
                return self.identify(x, full=True)       # B differs at this state: identify it in full
        self.ctx.count("proposal_maps_identified")
        return a, B

    # ---- (b) documented proposal
    def check_documented(self, x, a, B, where):
        env = self.env
        if self.case["target"] == "tuple_udprior_nonzero":
            return      # a user-defined prior exposes no mean; nothing is documented for this configuration
        prior = env.prior
        a_doc, S_doc = R.documented_proposal(self.name, x, self.scale, self.ref, env.prop_cov, prior)
        if self.name == "CWMH":
            S_doc = S_doc * getattr(env, "noise_gain", 1.0) ** 2      # uniform family: half-width = scale
        if self.name == "MH" and env.prop_mean is not None:
            a_doc = a_doc + float(self.scale) * env.prop_mean
        S = B @ B.T
        self.ctx.count("documented_proposal_checked")
        ok_a = np.all(np.abs(a - a_doc) <= 1e-9 * (1 + np.max(np.abs(a_doc)) + np.max(np.abs(x))))
        ok_S = np.all(np.abs(S - S_doc) <= 1e-7 * np.max(np.abs(S_doc)) + 1e-13 * (1 + np.max(np.abs(a))) * np.sqrt(np.max(np.abs(S_doc))))
        if self.name == "CWMH" and not np.all(np.abs(B - np.diag(np.diag(B))) <= 1e-12 * (1 + np.max(np.abs(a)))):
            self.viol("proposal_not_documented", f"CWMH proposal couples components: B={B.tolist()}", part="coupling")
        if not ok_a:
            self.viol("proposal_not_documented", f"proposal mean at {where}: identified {a}, documented {a_doc} (x={x}, scale={self.scale})", part="mean")
        if not ok_S:
            self.viol("proposal_not_documented", f"proposal covariance at {where}: identified {S.tolist()}, documented {S_doc.tolist()} (scale={self.scale})", part="cov")

    # ---- judging one executed transition
    def judge(self, o, x, expect_accept, la, what, y_pred=None):
        """expect_accept True/False; checks decision, (d) state/caches."""
        ctx, name = self.ctx, self.name
        if o.refused is not None:
            if expect_accept:
                self.viol("alpha_mismatch", f"{what}: transition refused ({o.refused}) where acceptance was due", side="accept")
            else:
                ctx.refused("nan_potential", o.refused)
            return
        moved = not _same_bits(o.x_next, o.x_prev)
        ystar = self.D.xstar(o)
        if name == "CWMH":
            raise RuntimeError("judge is not used for CWMH")
        accflag = bool(o.acc[0] > 0.5)
        if accflag != moved and not (ystar is not None and _same_bits(ystar, o.x_prev)):
            self.viol("acc_flag_inconsistent", f"{what}: returned acc={o.acc} but state moved={moved}")
        if expect_accept and not moved:
            self.viol("alpha_mismatch", f"{what}: log u just below reference log alpha={la:.12g} (delta={DL}) but the proposal was "
                      f"rejected; x={x}, x'={ystar}", side="accept")
            return
        if (not expect_accept) and moved:
            mech = "nan_inf_accepted" if (la == -np.inf) else "alpha_mismatch"
            self.viol(mech, f"{what}: log u above reference log alpha={la} but the proposal was accepted; x={x}, x'={ystar}, "
                      f"pi(x')={self.ref.lp(ystar) if ystar is not None else None}", side="reject")
            return
        if moved:
            ctx.count("accept_cache_checked")
            if ystar is None or not _same_bits(o.x_next, ystar):
                self.viol("accepted_state_not_proposal", f"{what}: new state {o.x_next} is not the evaluated proposal {ystar}")
            fresh = self.D.lib_eval(o.sampler, o.x_next)
            k2f = {"current_target_logd": "logd", "current_target_grad": "grad", "current_likelihood_logd": "lik"}
            if name == "PCN" and self.iface == "legacy":
                k2f["current_target_logd"] = "lik"
            for k, v in o.cache_post.items():
                if not _close(np.asarray(v, float).ravel(), np.asarray(fresh[k2f[k]], float).ravel(), 1e-12, 1e-13):
                    self.viol("stale_cache_after_accept", f"{what}: cached {k}={v} differs from a fresh evaluation {fresh[k2f[k]]} at the new state", key=k)
            # cached value difference equals the reference difference (harness's own pi)
            key = "current_likelihood_logd" if "current_likelihood_logd" in o.cache_post else "current_target_logd"
            dv = float(np.asarray(o.cache_post[key], float).ravel()[0]) - float(np.asarray(o.cache_pre[key], float).ravel()[0])
            dr = self.env.ref_cached(name, o.x_next) - self.env.ref_cached(name, o.x_prev)
            if np.isfinite(dr) and not abs(dv - dr) <= 1e-8 * (1 + abs(dr) + abs(self.env.ref_cached(name, o.x_prev))):
                self.viol("cache_vs_reference", f"{what}: cached log-density changed by {dv}, reference by {dr}")
        else:
            ctx.count("reject_state_unchanged_checked")
            if self.iface == "exp":
                k = _same_state(o.pre, o.post)
                if k is not None:
                    self.viol("state_changed_on_reject", f"{what}: state key {k} changed on a rejected transition: {o.pre[k]} -> {o.post[k]}", key=k)
            else:
                for k in o.cache_pre:
                    if not _same_bits(np.asarray(o.cache_pre[k], float).ravel(), np.asarray(o.cache_post[k], float).ravel()):
                        self.viol("state_changed_on_reject", f"{what}: returned {k} changed on a rejected transition: {o.cache_pre[k]} -> {o.cache_post[k]}", key=k)
        if self.iface == "exp":
            for k in o.pre:
                if k in ("scale", "_scale_temp", "lambd") and not _same_bits(np.asarray(o.pre[k], float), np.asarray(o.post[k], float)):
                    self.viol("scale_changed_by_step", f"{what}: {k} changed by a plain transition: {o.pre[k]} -> {o.post[k]}", key=k)
        elif getattr(o, "scale_changed", False):
            self.viol("scale_changed_by_step", f"{what}: scale changed by a plain transition")

    # ---- (c) threshold test of x -> y under noise z
    def threshold(self, x, z, ax, Bx, what, route=None, reverse_ok=True):
        ctx, ref, D = self.ctx, self.ref, self.D
        probe = self.trans(x, z, [0.5], route=None)
        y = D.xstar(probe)
        if y is None:
            ctx.inconclusive("no evaluation trace"); return
        y_pred = ax + Bx @ z
        if not np.all(np.abs(y - y_pred) <= 1e-9 * (1 + np.max(np.abs(y_pred)))):
            self.viol("proposal_not_affine", f"{what}: x*(xi)={y} differs from identified a+B xi={y_pred}"); return
        bad = ref.in_bad(y) or not np.isfinite(self.env.ref_cached(self.name, y))
        lib_overflow = False
        if not bad and self.env.wrapped:
            # a real library density may over/underflow to -inf/NaN at an extreme proposal where the reference is
            # still finite: what the kernel sees is then a NaN/-inf proposal, which must never be accepted
            ev = self.D.lib_eval(self.s, y)
            v = float(np.asarray(ev["lik" if self.name == "PCN" else "logd"], float).ravel()[0])
            gl = np.asarray(ev.get("grad", 0.0), float)
            if not np.isfinite(v):
                bad = lib_overflow = True
                ctx.count("library_density_overflow_proposals")
            elif not np.all(np.isfinite(gl)):
                ctx.count("library_gradient_unusable_state"); return
        if self.name == "ULA":
            # no accept step: any u; NaN never accepted (experimental: rejected; legacy: refused)
            o = self.trans(x, z, [ONE_U], route)
            if lib_overflow:
                return
            if ref.has_bad == "nan" and ref.in_bad(y):
                ctx.count("nan_inf_never_accepted_checked")
                self.judge(o, x, False, -np.inf, what + " [ULA NaN proposal]")
            elif not bad:
                ctx.count("ula_always_moves_checked")
                ctx.nontrivial("ula")
                self.judge(o, x, True, 0.0, what + " [ULA]")
            return
        if bad:
            ctx.nontrivial("bad:" + str(ref.has_bad))
            for u in (TINY_U, 0.5, ONE_U):      # whatever the uniform draw: a NaN / -inf / undefined-ratio move is never accepted
                ctx.count("nan_inf_never_accepted_checked")
                if ref.has_bad == "gradnan":
                    ctx.count("undefined_ratio_never_accepted_checked")
                self.judge(self.trans(x, z, [u], route), x, False, -np.inf, what + f" [proposal in {ref.has_bad} region, u={u}]")
            return
        idy = self.identify(y, full=False, Bknown=Bx)
        if idy is None:
            return
        ay, By = idy
        lpx, lpy = ref.lp(x), ref.lp(y)
        A = R.log_alpha_full(lpx, lpy, R.log_q(x, ay, By), R.log_q(y, ax, Bx))
        la, raw = A["la"], A["raw"]
        if not np.isfinite(raw):
            ctx.inconclusive("reference ratio not finite"); return
        # cancellation in (y - a) when the proposal mean is huge compared with the proposal spread
        smin = float(np.min(np.linalg.svd(Bx, compute_uv=False)))
        kap = max(np.max(np.abs(ax)), np.max(np.abs(ay)), np.max(np.abs(x)), np.max(np.abs(y))) / smin
        rn = float(np.linalg.norm(np.linalg.solve(Bx, y - ax)) + np.linalg.norm(np.linalg.solve(By, x - ay)))
        canc = 1e-13 * kap * (1 + rn)
        dl = TS * (DL + 1e-10 * A["mag"] + canc)
        did_acc = did_rej = False
        if raw > dl:
            ctx.count("alpha1_accept_checked"); ctx.count("threshold_accept_side")
            self.judge(self.trans(x, z, [ONE_U], route), x, True, 0.0, what + " [alpha=1, u->1]")
        elif raw < -dl:
            if la - dl > -700:
                ctx.count("threshold_accept_side"); did_acc = True
                self.judge(self.trans(x, z, [math.exp(la - dl)], route), x, True, la, what + " [u below alpha]")
            if la + dl < -1e-15:
                ctx.count("threshold_reject_side"); did_rej = True
                u = _u_above(la + dl)
                self.judge(self.trans(x, z, [u], route), x, False, la, what + " [u above alpha]")
            if did_acc and did_rej:
                ctx.nontrivial()
        else:
            ctx.count("near_one_skipped")
        # reverse transition y -> x (detailed balance needs alpha(y->x) = min(1, 1/ratio))
        if reverse_ok and np.all(np.isfinite(ay)):
            try:
                zr = np.linalg.solve(By, x - ay)
            except np.linalg.LinAlgError:
                return
            if not np.all(np.isfinite(zr)) or np.max(np.abs(zr)) > 1e8:
                return
            # error bound of the landing point: identified B carries an absolute error ~ eps*|a|
            eps = np.finfo(float).eps
            land_err = 8 * eps * (1 + np.max(np.abs(ax)) + np.max(np.abs(ay))) * (1 + self.d * np.max(np.abs(zr)))
            if land_err > 1e-9 * (1 + np.max(np.abs(x))):
                ctx.count("reverse_skipped_illconditioned"); return
            pr = self.trans(y, zr, [0.5])
            xb = D.xstar(pr)
            if xb is None or not np.all(np.abs(xb - x) <= 1e-7 * (1 + np.max(np.abs(x)))):
                self.viol("proposal_not_affine", f"{what}: reverse proposal from x' steered to x landed at {xb} instead of {x}"); return
            if ref.in_bad(xb):
                return
            Ar = R.log_alpha_full(lpy, ref.lp(xb), R.log_q(y, ax + (xb - x), Bx), R.log_q(xb, ay, By))
            rawr, lar = Ar["raw"], Ar["la"]
            dlr = TS * (10 * DL + 1e-9 * Ar["mag"] + 10 * canc)     # a(x~) is taken from a(x): slightly wider margin
            ctx.count("reverse_direction_checked")
            if rawr > dlr:
                ctx.count("threshold_accept_side")
                self.judge(self.trans(y, zr, [ONE_U]), y, True, 0.0, what + " [reverse, alpha=1]")
            elif rawr < -dlr:
                if lar - dlr > -700:
                    ctx.count("threshold_accept_side")
                    self.judge(self.trans(y, zr, [math.exp(lar - dlr)]), y, True, lar, what + " [reverse, u below alpha]")
                if lar + dlr < -1e-15:
                    ctx.count("threshold_reject_side")
                    self.judge(self.trans(y, zr, [_u_above(lar + dlr)]), y, False, lar, what + " [reverse, u above alpha]")

    def pick_noises(self, x, ax, Bx):
        """noise vectors: one random, one chosen (among candidates) to give a clearly sub-unit target ratio."""
        rs, d, ref = self.rs, self.d, self.ref
        out = [rs.standard_normal(d) * rs.choice([0.5, 1.0, 2.0])]
        lpx = ref.lp(x)
        best, bestv = None, None
        for _ in range(8):
            z = rs.standard_normal(d) * rs.choice([0.5, 1.0, 2.0, 3.0])
            y = ax + Bx @ z
            if ref.in_bad(y):
                continue
            v = ref.lp(y) - lpx
            if np.isfinite(v) and -15 < v < -0.05 and (bestv is None or abs(v + 1.5) < abs(bestv + 1.5)):
                best, bestv = z, v
        if best is not None:
            out.append(best)
        else:
            out.append(rs.standard_normal(d) * 2.5)
        return out

    def run(self):
        if not self.build():
            return
        self.run_body()

    def run_body(self):
        ctx = self.ctx
        x = self.x
        ctx.note("scale", self.scale)
        if self.name == "CWMH":
            return self.run_cwmh()
        idx = self.identify(x, full=True)
        if idx is None:
            ctx.inconclusive("proposal map not identified"); return
        ax, Bx = idx
        if abs(np.linalg.det(Bx)) == 0 or np.linalg.cond(Bx) > 1e10:
            self.viol("proposal_degenerate", f"identified proposal factor is singular: {Bx.tolist()}"); return
        self.check_documented(x, ax, Bx, "base state")
        route = self.case["route"]
        for k, z in enumerate(self.pick_noises(x, ax, Bx)):
            self.threshold(x, z, ax, Bx, f"probe{k}", route=route)
        if self.ref.has_bad:
            for k in range(2):
                bp = self.ref.bad_point(self.rs, x)
                yb = bp[0]
                z = np.linalg.solve(Bx, yb - ax)
                if np.all(np.isfinite(z)) and np.max(np.abs(z)) < 1e8:
                    self.threshold(x, z, ax, Bx, f"bad{k}", route=route, reverse_ok=False)

    # ---------------------------------------------------------------- CWMH
    def cw_points(self, o):
        return o.pts[-self.d:] if len(o.pts) >= self.d else None

    def run_cwmh(self):
        ctx, D, d, rs, ref = self.ctx, self.D, self.d, self.rs, self.ref
        x = self.x
        idx = self.identify(x, full=True)
        if idx is None:
            ctx.inconclusive("proposal map not identified"); return
        ax, Bx = idx
        self.check_documented(x, ax, Bx, "base state")
        if np.any(np.diag(Bx) == 0):
            self.viol("proposal_degenerate", f"identified proposal factor is singular: {Bx.tolist()}"); return
        route = self.case["route"]
        x_end = None
        plans = ["rand", "rand", "down"] + (["bad", "bad"] if ref.has_bad else [])
        for k, plan in enumerate(plans):
            z = rs.standard_normal(d) * rs.choice([0.5, 1.0, 2.0])
            jbad = None
            if plan == "bad":
                yb, jbad = ref.bad_point(rs, x)
                if jbad is None:
                    continue
                z[jbad] = (yb[jbad] - ax[jbad]) / Bx[jbad, jbad]
            xall = ax + Bx @ z
            # reference sweep with thresholds chosen component by component
            xt = x.copy()
            lpt = ref.lp(xt)
            us, exp_acc, exp_pts, kinds = [], [], [], []
            for j in range(d):
                y = xt.copy(); y[j] = xall[j]
                exp_pts.append(y.copy())
                lpy = ref.lp(y)
                if ref.in_bad(y) or not np.isfinite(lpy):
                    us.append(TINY_U); exp_acc.append(0); kinds.append("bad")
                    continue
                raw = lpy - lpt
                dl = TS * (DL + 1e-10 * (abs(lpy) + abs(lpt)))
                want_acc = bool(rs.uniform() < 0.5)
                if raw > dl:
                    us.append(ONE_U); exp_acc.append(1); kinds.append("one")
                elif raw < -dl:
                    if want_acc and raw - dl > -700:
                        us.append(math.exp(raw - dl)); exp_acc.append(1); kinds.append("acc")
                    else:
                        us.append(_u_above(raw + dl)); exp_acc.append(0); kinds.append("rej")
                else:
                    us.append(TINY_U); exp_acc.append(1); kinds.append("skip")
                if exp_acc[-1]:
                    xt, lpt = y, lpy
            o = self.trans(x, z, us, route)
            pts = self.cw_points(o)
            what = f"sweep{k}({plan})"
            if pts is None:
                ctx.inconclusive("CWMH trace too short"); continue
            ctx.count("cwmh_eval_points_checked", d)
            for j in range(d):
                if not np.all(np.abs(pts[j] - exp_pts[j]) <= 1e-9 * (1 + np.max(np.abs(exp_pts[j])))):
                    # which side went wrong: the decision of an earlier component
                    jj = max(0, j - 1)
                    mech = "nan_inf_accepted" if kinds[jj] == "bad" else "alpha_mismatch"
                    self.viol(mech, f"{what}: component {j} was evaluated at {pts[j]}, the reference sweep expects {exp_pts[j]} "
                              f"(decision kinds {kinds}, u={us})", side=kinds[jj])
                    break
            acc_obs = (np.asarray(o.acc).ravel() > 0.5).astype(int)
            for j in range(d):
                if kinds[j] == "acc" or kinds[j] == "one":
                    ctx.count("threshold_accept_side")
                elif kinds[j] == "rej":
                    ctx.count("threshold_reject_side")
                elif kinds[j] == "bad":
                    ctx.count("nan_inf_never_accepted_checked")
            if acc_obs.size == d and not np.array_equal(acc_obs, np.array(exp_acc)):
                j = int(np.argmax(acc_obs != np.array(exp_acc)))
                mech = "nan_inf_accepted" if kinds[j] == "bad" else "alpha_mismatch"
                self.viol(mech, f"{what}: component {j} ({kinds[j]}) decided {acc_obs[j]}, reference {exp_acc[j]}; "
                          f"u={us[j]}, acc={acc_obs.tolist()} expected {exp_acc}", side=kinds[j])
            if not np.all(np.abs(o.x_next - xt) <= 1e-9 * (1 + np.max(np.abs(xt)))):
                self.viol("alpha_mismatch", f"{what}: final state {o.x_next}, reference sweep {xt} (kinds {kinds})", side="sweep")
            else:
                # caches: value after the sweep is a fresh evaluation at the final state
                ctx.count("accept_cache_checked" if any(exp_acc) else "reject_state_unchanged_checked")
                post = float(np.asarray(o.cache_post["current_target_logd"], float).ravel()[0])
                fresh = float(np.asarray(D.lib_eval(o.sampler, o.x_next)["logd"], float).ravel()[0])
                if not _close(post, fresh, 1e-12, 1e-13):
                    self.viol("stale_cache_after_accept", f"{what}: cached logd {post} differs from fresh evaluation {fresh} at {o.x_next}", key="current_target_logd")
                if not any(exp_acc):
                    if not _same_bits(o.x_next, o.x_prev):
                        self.viol("state_changed_on_reject", f"{what}: state changed although every component was rejected", key="current_point")
                    if self.iface == "exp":
                        kdiff = _same_state(o.pre, o.post)
                        if kdiff is not None:
                            self.viol("state_changed_on_reject", f"{what}: state key {kdiff} changed on an all-reject sweep", key=kdiff)
                elif self.iface == "exp":
                    for kk in ("scale", "_scale_temp"):
                        if not _same_bits(np.asarray(o.pre[kk], float), np.asarray(o.post[kk], float)):
                            self.viol("scale_changed_by_step", f"{what}: {kk} changed by a plain transition", key=kk)
                if "acc" in kinds and "rej" in kinds:
                    ctx.nontrivial()
                if "bad" in kinds:
                    ctx.nontrivial("bad:" + str(ref.has_bad))
                x_end = o.x_next.copy()
        # the proposal at the end state is again the documented random walk
        if x_end is not None and not ref.in_bad(x_end):
            ide = self.identify(x_end, full=False, Bknown=Bx)
            if ide is not None:
                self.check_documented(x_end, ide[0], ide[1], "state after a sweep")
                ctx.count("reverse_direction_checked")


# =========================================================================== start outside the support

class Out(Thr):
    """The chain currently sits at a point whose target log-density is -inf or NaN.  Under the scripted stream
    proposals are steered to further points without a valid log-density and to admissible points.
    Oracle: a move to a point whose log-density is -inf or NaN is never accepted, whatever the density of the current
    state and whatever the uniform draw; a move to an admissible point may be accepted - then the new state is the
    evaluated proposal and the carried density is its density, otherwise nothing changes."""

    def cur_kind(self, x):
        v = self.env.ref_cached(self.name, x)
        return "nan" if np.isnan(v) else ("neginf" if v == -np.inf else "finite")

    def inside_point(self):
        ref, rs = self.ref, self.rs
        for _ in range(50):
            x = ref.typical(rs)
            if not ref.in_bad(x) and np.isfinite(self.env.ref_cached(self.name, x)):
                return x
        return x

    def outside_point(self):
        y = self.ref.bad_point(self.rs, self.inside_point())[0]
        if self.rs.uniform() < 0.4 and self.d > 1 and hasattr(self.ref, "lo"):      # outside in a second coordinate
            y = self.ref.bad_point(self.rs, y)[0]
        return y

    def build_out(self):
        case, D, rs, env, ctx = self.case, self.D, self.rs, self.env, self.ctx
        if not env.sanity(ctx, rs, self.name):
            return False
        scale = env.scale_value(rs, self.name, case["scale"])
        default = case["start"] == "default"
        x0 = None if default else self.outside_point()
        np.random.seed(int(rs.randint(2 ** 31 - 1)))
        s = D.make(x0, scale)
        if self.iface == "exp":
            s.initialize()
            self.x = _arr(s.current_point)
        else:
            self.x = np.ones(self.d) if default else x0
        self.s = s
        env.rec.clear()
        self.scale = D.scale_of(s)
        kind = self.cur_kind(self.x)
        if kind == "finite" or not (self.ref.in_bad(self.x) or kind != "finite"):
            ctx.inconclusive("start point is not outside the support"); return False
        ctx.note("start_kind", kind)
        if self.iface == "exp":
            key = "current_likelihood_logd" if self.name == "PCN" else "current_target_logd"
            v = float(np.asarray(getattr(s, key), float).ravel()[0])
            ctx.count("outside_start_cached_density_checked")
            if np.isfinite(v):
                self.viol("cache_vs_reference", f"sampler initialised at {self.x} (reference log-density {kind}) carries {key}={v}")
        return True

    def run(self):
        ctx = self.ctx
        if not self.build_out():
            return
        x, kind0 = self.x, self.cur_kind(self.x)
        self.cfg = {**self.cfg, "from": kind0}
        if self.name == "CWMH":
            return self.run_cwmh_out()
        idx = self.identify(x, full=True)
        if idx is None or not np.all(np.isfinite(idx[0])) or not np.all(np.isfinite(idx[1])):
            ctx.inconclusive("proposal map not identified from the outside state"); return
        ax, Bx = idx
        if np.linalg.cond(Bx) > 1e10:
            ctx.inconclusive("singular proposal factor"); return
        route = self.case["route"]
        plans = ["out", "in", "out", "out", "in", "out"]
        n_bad = n_in = 0
        for k, plan in enumerate(plans):
            yt = self.outside_point() if plan == "out" else self.inside_point()
            if plan == "out" and self.rs.uniform() < 0.3:
                yt = x + 0.3 * self.rs.standard_normal(self.d) * (np.arange(self.d) != 0 if self.ref.has_bad == "nan" else 1.0)
            z = np.linalg.solve(Bx, yt - ax)
            if not np.all(np.isfinite(z)) or np.max(np.abs(z)) > 1e8:
                continue
            u = [TINY_U, 0.5, ONE_U][k % 3] if plan == "out" else TINY_U
            o = self.trans(x, z, [u], route)
            if o.refused is not None:
                ctx.refused("nan_potential", o.refused); continue
            y = self.D.xstar(o)
            if y is None:
                continue
            ybad = self.ref.in_bad(y) or not np.isfinite(self.env.ref_cached(self.name, y))
            what = f"from {kind0} state, plan {plan}, u={u}"
            if ybad:
                n_bad += 1
                ctx.count("outside_start_bad_proposals_checked")
                ctx.count("nan_inf_never_accepted_checked")
                self.judge(o, x, False, -np.inf, what)
            else:
                n_in += 1
                moved = not _same_bits(o.x_next, o.x_prev)
                ctx.count("outside_start_inward_proposals_checked")
                if moved:
                    ctx.count("outside_start_inward_moves_accepted")
                self.judge(o, x, moved, 0.0, what)
        if n_bad and n_in:
            ctx.nontrivial("out:" + kind0)
        elif n_bad:
            ctx.nontrivial()

    def coord_values(self, j):
        """(an admissible value, a value outside the support or None) for coordinate j."""
        ref, rs = self.ref, self.rs
        inside = self.inside_point()[j]
        if hasattr(ref, "lo"):
            out = ref.hi[j] + rs.uniform(0.05, 1.0) if rs.uniform() < 0.5 else ref.lo[j] - rs.uniform(0.05, 1.0)
        elif ref.has_bad == "nan" and j == 0:
            out = ref.c + rs.uniform(0.05, 1.5)
        else:
            out = None
        return inside, out

    def run_cwmh_out(self):
        ctx, D, d, rs, ref = self.ctx, self.D, self.d, self.rs, self.ref
        x, kind0 = self.x, self.cur_kind(self.x)
        idx = self.identify(x, full=True)
        if idx is None or not np.all(np.isfinite(idx[0])) or np.any(np.diag(idx[1]) == 0):
            ctx.inconclusive("proposal map not identified from the outside state"); return
        ax, Bx = idx
        route = self.case["route"]
        n_bad_from_bad = n_in = 0
        for k in range(6):
            xall = np.empty(d)
            for j in range(d):
                vin, vout = self.coord_values(j)
                r = rs.uniform()
                xall[j] = vout if (vout is not None and r < 0.45) else (x[j] + 0.2 * rs.standard_normal() if r < 0.6 else vin)
            z = (xall - ax) / np.diag(Bx)
            us = [float(rs.choice([TINY_U, 0.5, ONE_U])) for _ in range(d)]
            o = self.trans(x, z, us, route)
            pts = self.cw_points(o)
            if pts is None:
                ctx.inconclusive("CWMH trace too short"); continue
            what = f"sweep{k} from {kind0} state"
            xt = x.copy()
            ok = True
            for j in range(d):
                y = pts[j]
                expect = xt.copy(); expect[j] = ax[j] + Bx[j, j] * z[j]
                if not np.all(np.abs(y - expect) <= 1e-9 * (1 + np.max(np.abs(expect)))):
                    self.viol("alpha_mismatch", f"{what}: component {j} evaluated at {y}, expected {expect} from the decoded sweep state", side="sweep")
                    ok = False; break
                nxt = pts[j + 1] if j < d - 1 else o.x_next
                acc_j = bool(nxt[j] == y[j]) and not bool(y[j] == xt[j])
                cur = self.cur_kind(xt)
                ybad = ref.in_bad(y) or not np.isfinite(self.env.ref_cached(self.name, y))
                if ybad:
                    ctx.count("outside_start_bad_proposals_checked")
                    ctx.count("nan_inf_never_accepted_checked")
                    if cur != "finite":
                        n_bad_from_bad += 1
                    if acc_j:
                        self.viol("nan_inf_accepted", f"{what}: component {j}: the move {xt} -> {y} (log-density {self.env.ref_cached(self.name, y)}) "
                                  f"was accepted from a state of log-density {cur} with u={us[j]}", side="reject", cur=cur)
                        ok = False; break
                else:
                    n_in += 1
                    ctx.count("outside_start_inward_proposals_checked")
                    if acc_j:
                        ctx.count("outside_start_inward_moves_accepted")
                if acc_j:
                    xt = y.copy()
            if not ok:
                continue
            if not _same_bits(o.x_next, xt) and not np.all(np.abs(o.x_next - xt) <= 1e-12 * (1 + np.abs(xt))):
                self.viol("alpha_mismatch", f"{what}: final state {o.x_next} differs from the decoded sweep {xt}", side="sweep")
                continue
            ctx.count("accept_cache_checked")
            post = np.asarray(o.cache_post["current_target_logd"], float).ravel()[:1]
            fresh = np.asarray(D.lib_eval(o.sampler, o.x_next)["logd"], float).ravel()[:1]
            if not _close(post, fresh, 1e-12, 1e-13):
                self.viol("stale_cache_after_accept", f"{what}: carried logd {post} differs from a fresh evaluation {fresh} at {o.x_next}", key="current_target_logd")
            acc_obs = (np.asarray(o.acc).ravel() > 0.5)
            moved_any = not _same_bits(o.x_next, o.x_prev)
            if acc_obs.size == d and bool(acc_obs.any()) != moved_any:
                self.viol("acc_flag_inconsistent", f"{what}: returned acc={o.acc} but state moved={moved_any}")
        if n_bad_from_bad:
            ctx.nontrivial("out:" + kind0) if n_in else ctx.nontrivial()


# =========================================================================== initial point representation

class Rep(Thr):
    """The initial point is handed over in different representations.  Under the scripted stream (a) every transition from
    the initial state must consume one standard-normal variate per component of the target (componentwise independent
    noise) and the identified proposal must be the documented one at the broadcast state, (b) the acceptance oracle of
    the thr cases applies unchanged.  A representation the library refuses (exception at construction or at the
    first transition) is a refusal."""
    CANONICAL = ("ndarray", "default")

    def make_rep(self):
        rs, d, rp = self.rs, self.d, self.case["rep"]
        xv = self.start_point()
        v = float(np.round(rs.uniform(-1.5, 1.5), 3))
        if rp in ("pyscalar", "npfloat", "np0d", "len1", "pyint"):
            if rp == "pyint":
                v = float(rs.choice([-1, 0, 1, 2]))
            full = np.full(d, v)
            obj = {"pyscalar": v, "pyint": int(v), "npfloat": np.float64(v), "np0d": np.array(v), "len1": np.array([v])}[rp]
        elif rp == "default":
            full, obj = np.ones(d), None
        else:
            full = np.array(xv, float)
            if rp == "list":
                obj = [float(t) for t in full]
            elif rp == "tuple":
                obj = tuple(float(t) for t in full)
            elif rp == "view":
                big = np.full(2 * d + 1, -3.5); big[1::2] = full; obj = big[1::2]
            elif rp == "cuqiarray":
                obj = self.D.cuqi.array.CUQIarray(full.copy(), geometry=self.D.cuqi.geometry._DefaultGeometry1D(d))
            else:
                obj = full.copy()
        return obj, full

    def trans(self, x, z, us, route=None):
        if x is self.x and self.iface == "legacy":
            o = self.D.transition(self.s, x, z, us, "sample2", x0_obj=copy.deepcopy(self.obj) if self.obj is not None else x.copy())
            self.env.report_side_effects(self.ctx, self.cfg, "transition")
            if o.refused is None and (o.n_norm != 1 or o.n_unif != self.D.n_unif or not o.norm_scripted):
                self.viol("unexpected_random_draws", f"transition consumed {o.n_norm} normal ({o.norm_size} variates) and {o.n_unif} "
                          f"uniform draws, expected 1 ({self.d} variates) and {self.D.n_unif}")
        else:
            o = super().trans(x, z, us, route)
        if x is self.x and o.refused is None:
            self.ctx.count("initial_point_rep_noise_dim_checked")
            if o.norm_size != self.d:
                self.viol("proposal_noise_dimension", f"a transition from the initial state (given as {self.case['rep']}) of a {self.d}-dimensional "
                          f"target consumed {o.norm_size} standard-normal variate(s); the documented proposal has componentwise independent noise")
        return o

    def run(self):
        ctx, case, D, rs, env = self.ctx, self.case, self.D, self.rs, self.env
        if not env.sanity(ctx, rs, self.name):
            return
        self.obj, full = self.make_rep()
        if not np.isfinite(env.ref_cached(self.name, full)) or not np.isfinite(self.ref.lp(full)):
            ctx.inconclusive("broadcast start is not admissible"); return
        scale = env.scale_value(rs, self.name, case["scale"])
        self.x = full
        rp = case["rep"]
        self.cfg = {**self.cfg, "dimclass": "1" if self.d == 1 else ">1"}
        np.random.seed(int(rs.randint(2 ** 31 - 1)))
        try:
            self.s = D.make(copy.deepcopy(self.obj), scale, raw_x0=True)
            if self.iface == "exp":
                self.s.initialize()
            env.rec.clear()
            self.scale = D.scale_of(self.s)
            first = self.trans(self.x, np.zeros(self.d), [TINY_U] * max(1, D.n_unif))
        except (ValueError, TypeError, IndexError, AttributeError) as e:
            if rp in self.CANONICAL:
                raise
            ctx.refused("initial_point_" + rp, e)
            ctx.count("initial_point_rep_refused")
            ctx.nontrivial("refused:" + rp)
            env.rec.clear(); env.rec.changed.clear(); env.rec.fwd_bad.clear()
            return
        ctx.count("initial_point_rep_accepted")
        if D.xstar(first) is None:
            ctx.inconclusive("no evaluation trace"); return
        idx = self.identify(self.x, full=True)
        if idx is None:
            ctx.inconclusive("proposal map not identified") if not ctx.violations else None
            return
        ax, Bx = idx
        if self.name != "CWMH" and (abs(np.linalg.det(Bx)) == 0 or np.linalg.cond(Bx) > 1e10):
            self.viol("proposal_degenerate", f"identified proposal factor is singular: {Bx.tolist()}"); return
        self.check_documented(self.x, ax, Bx, f"initial state given as {rp}")
        ctx.count("initial_point_rep_checked")
        if self.name == "CWMH":
            ctx.nontrivial()
            return
        for k, z in enumerate(self.pick_noises(self.x, ax, Bx)):
            self.threshold(self.x, z, ax, Bx, f"rep {rp} probe{k}", route=case["route"])
        ctx.nontrivial("rep:" + rp)


# =========================================================================== user-supplied proposal spelling

class Prop(Thr):
    """A user-supplied proposal in different spellings (conditional library distributions with the lambdas' arguments in
    either order, split lambdas, Normal/Uniform families, plain callables, fixed symmetric distributions).  The proposal
    map is identified under the scripted stream and compared with the documented proposal (centre = current state
    component, width = scale), then the threshold oracle of the thr cases runs.  A spelling the library refuses
    (documented exception at construction or at the first transition) is a refusal."""

    def run(self):
        ctx, sp = self.ctx, self.case["spelling"]
        try:
            if not self.build():
                return
            probe = self.trans(self.x, np.zeros(self.d), [TINY_U] * max(1, self.D.n_unif))
        except (ValueError, TypeError, NotImplementedError) as e:
            if sp == "none":
                raise
            ctx.refused("proposal_" + sp, e)
            ctx.count("proposal_spelling_refused")
            ctx.nontrivial("refused:" + sp)
            self.env.rec.clear(); self.env.rec.changed.clear(); self.env.rec.fwd_bad.clear()
            return
        ctx.count("proposal_spelling_accepted")
        n0 = len(ctx.violations)
        self.run_body()
        ctx.count("proposal_spelling_checked")
        if len(ctx.violations) == n0:
            ctx.nontrivial("spelling:" + sp)


# =========================================================================== chain cases (offline checker)

def run_chain(case, ctx):
    rs = core.np_rng(ctx.seed, PROPERTY, core.canon(case))
    env = Env(case, rs)
    D = Driver(env, case, ctx)
    name, iface, d, ref = D.name, D.iface, env.d, env.ref
    cfg = _cfg(case)
    if not env.sanity(ctx, rs, name):
        return
    scale0 = env.scale_value(rs, name, case["scale"])
    x0 = ref.typical(rs)
    if name == "PCN" and not np.isfinite(ref.ll(x0)):
        x0 = ref.prior.m.copy()
    marks = []
    holder = {}
    def cb(sample, idx):
        s = holder["s"]
        marks.append((np.array(sample, float).ravel().copy(), len(env.rec.pts), len(holder["scr"].draws),
                      np.array(s.scale, float).copy()))
    big = np.full(2 * d + 1, 7.25)
    big[1::2] = x0
    x0_view = big[1::2]                 # the caller's initial point is a non-contiguous view of a larger buffer
    big_before = big.copy()
    s = D.make(x0_view, scale0, callback=cb, raw_x0=True)
    holder["s"] = s
    np.random.seed(int(rs.randint(2 ** 31 - 1)))
    n = case["n"]
    env.rec.clear()
    with Scripted() as scr:
        holder["scr"] = scr
        if iface == "exp":
            s.initialize()
            env.rec.clear()
            scale_first = np.array(s.scale, float).copy()
            if case["mode"] == "adapt":
                s.warmup(n)
            s.sample(n // 2)
        else:
            scale_first = np.array(s.scale, float).copy()
            if case["mode"] == "adapt":
                holder["res"] = s.sample_adapt(n, 0)
            else:
                holder["res"] = s.sample(n, 0)
    pts, draws = [p.copy() for p in env.rec.pts], list(scr.draws)
    env.rec.clear()
    env.report_side_effects(ctx, cfg, "recorded run")
    ctx.count("initial_point_unchanged_checked")
    if not _same_bits(big, big_before):
        ctx.violation("kernel_argument_modified", {**cfg, "arg": "initial_point"},
                      f"the run wrote through the caller's initial point (a view): buffer {big_before} -> {big}")
    # the values the kernel carries belong to the stored states (reference evaluated on copies)
    if iface == "exp":
        key = "current_likelihood_logd" if name == "PCN" else "current_target_logd"
        carried = float(np.asarray(getattr(s, key), float).ravel()[0])
        xf = _arr(s.current_point)
        fresh = float(np.asarray(D.lib_eval(s, xf)["lik" if name == "PCN" else "logd"], float).ravel()[0])
        ctx.count("chain_carried_density_checked")
        if np.isfinite(carried) and not _close(carried, fresh, 1e-10, 1e-12):
            ctx.violation("stale_cache_after_accept", {**cfg, "key": key},
                          f"after the run the carried {key}={carried} is not the density {fresh} of the stored state {xf}")
        if s._samples and not _same_bits(_arr(s._samples[-1]), xf):
            ctx.violation("stale_cache_after_accept", {**cfg, "key": "last_sample"}, "last stored sample is not the current point")
    elif name != "CWMH":      # legacy CWMH overwrites the stored previous states (known C14 finding)
        res = holder.get("res")
        if res is not None and getattr(res, "loglike_eval", None) is not None:
            ll, xs = np.asarray(res.loglike_eval, float).ravel(), np.asarray(res.samples, float)
            rv = np.array([env.ref_cached(name, xs[:, i].copy()) for i in range(xs.shape[1])])
            ok = np.isfinite(rv) & np.isfinite(ll)
            ctx.count("chain_carried_density_checked", int(ok.sum()))
            if ok.sum() > 1:
                i0 = int(np.argmax(ok))
                gap = np.abs((ll - ll[i0]) - (rv - rv[i0]))
                tol = 1e-8 * (1 + np.abs(rv) + abs(rv[i0]))
                badi = np.where(ok & (gap > tol))[0]
                if badi.size:
                    i = int(badi[0])
                    ctx.violation("stale_cache_after_accept", {**cfg, "key": "loglike_eval"},
                                  f"returned log-density {ll[i]} of sample {i} does not belong to the returned state {xs[:, i]} "
                                  f"(reference difference to sample {i0}: {rv[i] - rv[i0]}, returned: {ll[i] - ll[i0]}); {badi.size} samples")
    if iface == "legacy":
        # the run starts with an evaluation at x0 (not part of a transition)
        first_pt = 1
    else:
        first_pt = 0
    n_acc = n_rej = 0
    x_t = _arr(x0)
    scale_t = scale_first
    p0, d0 = first_pt, 0
    nunif = D.n_unif
    for t, (x_new, p1, d1, scale_next) in enumerate(marks):
        seg_pts = pts[p0:p1]
        seg_dr = draws[d0:d1]
        p0, d0 = p1, d1
        zs = [dr for dr in seg_dr if dr[1] in ("randn", "standard_normal", "normal")]
        usd = [dr for dr in seg_dr if dr[1] in ("rand", "uniform", "random", "random_sample")]
        if len(zs) != 1 or len(usd) != nunif or not seg_pts:
            ctx.violation("unexpected_random_draws", cfg, f"step {t}: {len(zs)} normal draws, {len(usd)} uniform draws, {len(seg_pts)} evaluations")
            break
        z = np.asarray(zs[0][3], float).ravel()
        us = [float(np.asarray(u[3]).ravel()[0]) for u in usd]
        prior = env.prior
        if name == "CWMH":
            ev = seg_pts[-d:]
            if len(ev) < d:
                ctx.inconclusive("short CWMH segment"); break
            xt, lpt = x_t.copy(), ref.lp(x_t)
            sc = np.ones(d) * scale_t
            ok = True
            skip = False
            for j in range(d):
                y = ev[j]
                expect = xt.copy(); expect[j] = x_t[j] + sc[j] * z[j]
                if not np.all(np.abs(y - expect) <= 1e-9 * (1 + np.max(np.abs(expect)))):
                    ok = False
                    ctx.violation("chain_decision_mismatch", {**cfg, "part": "proposal"},
                                  f"step {t} comp {j}: evaluated {y}, documented proposal/sweep state gives {expect} (scale {sc})")
                    break
                lpy = ref.lp(y)
                if ref.in_bad(y) or not np.isfinite(lpy):
                    acc = False
                else:
                    raw = lpy - lpt
                    if abs(math.log(us[j]) - min(0.0, raw)) < 1e-7 * (1 + abs(raw)) and raw < 1e-7:
                        skip = True; break
                    acc = math.log(us[j]) <= min(0.0, raw)
                if acc:
                    xt, lpt = y.copy(), lpy
                    n_acc += 1
                else:
                    n_rej += 1
            if not ok:
                break
            if skip:
                ctx.count("chain_near_threshold_skipped")
            else:
                ctx.count("chain_transitions_checked")
                ctx.count("chain_proposal_checked")
                if not np.all(np.abs(x_new - xt) <= 1e-9 * (1 + np.max(np.abs(xt)))):
                    ctx.violation("chain_decision_mismatch", {**cfg, "part": "decision"},
                                  f"step {t}: state after the sweep {x_new}, re-decided from the recorded draws {xt} (u={us}, scale={sc})")
                    break
        else:
            y = seg_pts[-1]
            a_x, S = R.documented_proposal(name, x_t, scale_t, ref, None, prior)
            r = y - a_x
            q = float(r @ np.linalg.solve(S, r))
            ctx.count("chain_proposal_checked")
            if not abs(q - float(z @ z)) <= 1e-6 * (1 + float(z @ z)) + 1e-9 * (1 + np.max(np.abs(y))) / float(np.min(np.sqrt(np.diag(S)))):
                ctx.violation("chain_decision_mismatch", {**cfg, "part": "proposal"},
                              f"step {t}: proposal {y} from {x_t} with scale {scale_t}: Mahalanobis distance to the documented mean {q}, |xi|^2={float(z @ z)}")
                break
            bad = ref.in_bad(y) or not np.isfinite(env.ref_cached(name, y))
            moved = not _same_bits(x_new, x_t)
            if bad:
                expect_acc = False
            else:
                a_y, _ = R.documented_proposal(name, y, scale_t, ref, None, prior)
                A = R.log_alpha_full(ref.lp(x_t), ref.lp(y), R.log_q_cov(x_t, a_y, S), R.log_q_cov(y, a_x, S))
                if not np.isfinite(A["raw"]):
                    ctx.count("chain_near_threshold_skipped"); x_t = x_new; scale_t = scale_next; continue
                if abs(math.log(us[0]) - A["la"]) < 1e-7 + 1e-9 * A["mag"] and A["raw"] < 1e-7 + 1e-9 * A["mag"]:
                    ctx.count("chain_near_threshold_skipped"); x_t = x_new; scale_t = scale_next; continue
                expect_acc = math.log(us[0]) <= A["la"]
            ctx.count("chain_transitions_checked")
            if expect_acc != moved:
                mech = "nan_inf_accepted" if bad else "chain_decision_mismatch"
                ctx.violation(mech, {**cfg, "part": "decision"},
                              f"step {t}: moved={moved}, re-decided accept={expect_acc}; x={x_t}, x'={y}, u={us[0]}, scale={scale_t}, "
                              f"reference log alpha={None if bad else A['la']}")
                break
            if moved and not _same_bits(x_new, y):
                ctx.violation("accepted_state_not_proposal", cfg, f"step {t}: new state {x_new} is not the evaluated proposal {y}")
                break
            n_acc += int(moved); n_rej += int(not moved)
        x_t = x_new
        scale_t = scale_next
    ctx.note("acc_rej", [n_acc, n_rej])
    ctx.note("final_scale", scale_t)
    if n_acc + n_rej >= 10 and n_acc > 0 and n_rej > 0:
        ctx.nontrivial()

# =========================================================================== stat cases

def _stat_target(case, rs):
    t = case["target"]
    if t == "s_gauss1":
        return R.Stat1DGauss(rs)
    if t == "s_logistic1":
        return R.Stat1DLogistic(rs)
    if t == "s_trunc1":
        return R.Stat1DTrunc(rs)
    if t == "s_gauss2":
        return R.Stat2DGauss(rs)
    if t == "s_linpost1":
        return R.StatLinPost(rs, 1)
    if t == "s_linpost2":
        return R.StatLinPost(rs, 2)
    if t == "s_linpost2z":
        return R.StatLinPost(rs, 2, mean_kind="zero")
    if t == "s_prod2":
        return R.Stat2DProd(rs)
    if t == "s_banana":
        return R.StatBanana(rs)
    raise KeyError(t)


def _run_chains(D, s, ref, X0, k, name, iface):
    K, d = X0.shape
    out = np.empty_like(X0)
    if iface == "exp":
        keys = s.get_state()["state"].keys()
        has_logd, has_grad, has_lik = "current_target_logd" in keys, "current_target_grad" in keys, "current_likelihood_logd" in keys
        for i in range(K):
            x = X0[i].copy()
            s.current_point = x
            if has_logd:
                s.current_target_logd = s.target.logd(x.copy())
            if has_grad:
                s.current_target_grad = s.target.gradient(x.copy())
            if has_lik:
                s.current_likelihood_logd = s._loglikelihood(x.copy())
            for _ in range(k):
                s.step()
            out[i] = np.asarray(s.current_point, float).ravel()
    else:
        for i in range(K):
            x = X0[i].copy()
            if name == "PCN":
                st = (x, s._loglikelihood(x.copy()))
            elif name == "MALA":
                st = (x, s.target.logd(x.copy()), s.target.gradient(x.copy()))
            else:
                st = (x, s.target.logd(x.copy()))
            for _ in range(k):
                r = s.single_update(np.array(st[0], float), *st[1:])
                st = r[:-1]
            out[i] = np.asarray(st[0], float).ravel()
    return out


def run_stat(case, ctx):
    rs = core.np_rng(ctx.seed, PROPERTY, core.canon(case))
    ref = _stat_target(case, rs)
    c2 = dict(case); c2["d"] = ref.d
    if isinstance(ref, R.PostRef):
        c2["pcov"] = "matrix" if ref.d > 1 else "scalar"
    env = Env(c2, rs, ref=ref)
    D = Driver(env, c2, ctx)
    name, iface = D.name, D.iface
    cfg = _cfg(case)
    if not env.sanity(ctx, rs, name):
        return
    ns = ref.natural_scale()
    if name in ("MH", "CWMH"):
        scale = float(rs.uniform(0.8, 2.0)) * ns
        scale = min(scale, 1.0) if case["hist"] == "adapted" else scale
    elif name == "PCN":
        scale = float(rs.uniform(0.3, 0.9))
    else:
        scale = float(rs.uniform(0.5, 1.5)) * ns ** 2
    s = D.make(np.asarray(ref.draw(rs, 1)[0], float), scale)
    np.random.seed(int(rs.randint(2 ** 31 - 1)))
    if iface == "exp":
        s.initialize()
        if case["hist"] == "adapted":
            s.warmup(200)
    elif case["hist"] == "adapted":
        s.sample_adapt(200, 0)
    ctx.note("scale", np.array(s.scale, float))
    K, k = case["K"], case["k"]
    def stage(Kn):
        X0 = np.asarray(ref.draw(rs, Kn), float).reshape(Kn, ref.d)
        np.random.seed(int(rs.randint(2 ** 31 - 1)))
        Xk = _run_chains(D, s, ref, X0, k, name, iface)
        moved = float(np.mean(np.any(Xk != X0, axis=1)))
        return R.normal_battery(np.asarray(ref.scores(Xk), float).reshape(Kn, -1)), moved
    b1, moved = stage(K)
    env.rec.clear()
    env.report_side_effects(ctx, cfg, "independent chains")
    ctx.count("stationarity_tests"); ctx.count("stationarity_chains", K); ctx.count("stationarity_statistics", len(b1))
    ctx.note("moved_fraction", moved)
    ctx.note("min_p", min(v[0] for v in b1.values()))
    if moved < 0.02:
        ctx.inconclusive(f"chains hardly move (moved fraction {moved})"); return
    ctx.nontrivial()
    fails = {n: v for n, v in b1.items() if v[0] < 1e-7}
    if not fails:
        return
    ctx.count("stationarity_second_stage")
    b2, _ = stage(4 * K)
    for n, v in fails.items():
        w = b2[n]
        if w[0] < 1e-7 and w[1] == v[1]:
            ctx.violation("not_stationary", {**cfg, "stat": n.rstrip("0123456789_")},
                          f"{n}: stage 1 p={v[0]:.3g} (stat {v[2]:.4g}, K={K}), stage 2 p={w[0]:.3g} (stat {w[2]:.4g}, K={4*K}), "
                          f"same direction; k={k} transitions from exact draws, scale={np.array(s.scale, float)}")

# =========================================================================== entry points

def run_case(case, ctx):
    import warnings
    warnings.filterwarnings("ignore")
    np.seterr(all="ignore")
    if case["kind"] == "thr":
        Thr(case, ctx).run()
    elif case["kind"] == "out":
        Out(case, ctx).run()
    elif case["kind"] == "rep":
        Rep(case, ctx).run()
    elif case["kind"] == "prop":
        Prop(case, ctx).run()
    elif case["kind"] == "chain":
        run_chain(case, ctx)
    else:
        run_stat(case, ctx)


def selftest(ctx):
    rs = np.random.RandomState(12345)
    # gradients of the reference targets against central differences
    for nm, cls in R.TARGETS.items():
        for d in (2, 3):
            t = cls(rs, d)
            for _ in range(3):
                x = t.typical(rs)
                if t.in_bad(x):
                    continue
                g, gf = t.grad(x), R.fd_grad(t.lp, x)
                if not np.allclose(g, gf, rtol=1e-5, atol=1e-6 * (1 + np.max(np.abs(g)))):
                    ctx.inconclusive(f"reference gradient of {nm} disagrees with finite differences: {g} vs {gf}")
    for pm in ("zero", "nonzero"):
        for pc in ("scalar", "vector", "matrix"):
            prior = R.GaussPrior(rs, 3, pm, pc)
            for lk in (R.LinLik(rs, 3, prior), R.NonlinLik(rs, 3, prior), R.UserLik(rs, 3, prior)):
                post = R.PostRef(prior, lk)
                x = post.typical(rs)
                g, gf = post.grad(x), R.fd_grad(post.lp, x)
                if not np.allclose(g, gf, rtol=1e-5, atol=1e-6 * (1 + np.max(np.abs(g)))):
                    ctx.inconclusive(f"reference posterior gradient ({lk.kind}) disagrees with finite differences")
                # pCN: for the documented proposal the general MH ratio reduces to the likelihood ratio
                s = 0.37
                y = post.typical(rs)
                ax, S = R.documented_proposal("PCN", x, s, post, None, prior)
                ay, _ = R.documented_proposal("PCN", y, s, post, None, prior)
                A = R.log_alpha_full(post.lp(x), post.lp(y), R.log_q_cov(x, ay, S), R.log_q_cov(y, ax, S))
                if abs(A["raw"] - (post.ll(y) - post.ll(x))) > 1e-8 * (1 + A["mag"]):
                    ctx.inconclusive("reference MH ratio for the documented pCN proposal is not the likelihood ratio")
    # log_q against scipy
    from scipy import stats
    B = rs.standard_normal((3, 3)) + 2 * np.eye(3)
    a, y = rs.standard_normal(3), rs.standard_normal(3)
    v = R.log_q(y, a, B) - 1.5 * math.log(2 * math.pi)
    if abs(v - stats.multivariate_normal(a, B @ B.T).logpdf(y)) > 1e-9:
        ctx.inconclusive("reference Gaussian proposal density disagrees with scipy")
    if abs(R.log_q_cov(y, a, B @ B.T) - R.log_q(y, a, B)) > 1e-9:
        ctx.inconclusive("log_q_cov and log_q disagree")
    # exact laws used by the stationarity tests: scores of exact draws pass the battery, a 10% scale error fails it
    for w in ("banana", "funnel", "squiggle", "donut", "bivgauss"):
        t = R.GalleryRef(w)
        for _ in range(3):
            x = t.typical(rs)
            g, gf = t.grad(x), R.fd_grad(t.lp, x, h=1e-6)
            if not np.allclose(g, gf, rtol=1e-4, atol=1e-5 * (1 + np.max(np.abs(g)))):
                ctx.inconclusive(f"reference gradient of gallery {w} disagrees with finite differences: {g} vs {gf}")
    for t in (R.Stat1DGauss(rs), R.Stat1DLogistic(rs), R.Stat1DTrunc(rs), R.Stat2DGauss(rs), R.Stat2DProd(rs), R.StatLinPost(rs, 2), R.StatBanana(rs)):
        X = t.draw(rs, 20000)
        b = R.normal_battery(np.asarray(t.scores(X), float).reshape(20000, -1))
        if min(v[0] for v in b.values()) < 1e-6:
            ctx.inconclusive(f"exact draws of {t.name} fail their own battery")
    t = R.Stat1DLogistic(rs)
    from scipy import stats as st
    X = t.draw(rs, 1000)
    if not np.allclose(R.norm_cdf(t.scores(X)), st.logistic(t.m, t.s).cdf(X), atol=1e-10):
        ctx.inconclusive("logistic reference cdf disagrees with scipy")
    t = R.Stat1DGauss(rs)
    b = R.normal_battery(np.asarray(t.scores(t.mu + 1.1 * (t.draw(rs, 40000) - t.mu)), float).reshape(40000, -1))
    if b["m2_0"][0] > 1e-7:
        ctx.inconclusive("battery has no power against a 10% scale error at K=40000")
