"""C09 - Gibbs sweeps draw each block from its conditional given the current other blocks.

Workload: joint targets with 2-4 blocks (hierarchical linear-Gaussian with Gamma hyper-parameters
in prior and likelihood, Gaussian chains a->b->c->e, the 3-scalar model of the unit tests), every
assignment of block samplers the library accepts, per-block step counts 1-4, warm-up followed by
sampling and a repeated sample call; both cuqi.experimental.mcmc.HybridGibbs and cuqi.sampler.Gibbs.

Monitors (all from outside the library):
  * JointDistribution.__call__ of the Gibbs object's own joint copy (runtime contract wrapper):
    the values every block update is conditioned on and the target object that comes out;
  * every block sampler's step (instance wrapper / recording factory for the legacy sampler):
    value before, value after, number of transitions, target in use, cached logd/grad versus a
    fresh evaluation under the current conditional, log-density differences of the target in use,
    parameters of exact draws (np.random.gamma arguments, zero-noise RTO / Direct draw);
  * gibbs.step / _store_samples / tune and the returned sample arrays.
Oracle: offline checker of the event log against the sequential-scan model, with the conditional
laws derived from a pure-numpy reference joint log-density (vlib/refs/c09_models.py).
Second line: K exact joint draws -> 1-3 sweeps -> exact-law tests on pivotal quantities (two-stage).
"""
import math, os
import numpy as np
from vlib import core, contracts, rngscript
from vlib.refs import c09_models as R

PROPERTY = "C09"
RULE = ("seeded generation over (driver HybridGibbs|legacy Gibbs) x (model family hier/chain/scalar3, prior and likelihood "
        "parameterisation, data observed or sampled as a block, block dimensions) x (sampler assigned to every block) x "
        "(per-block step counts 1-4) x (warm-up, sample, repeated sample schedule); a trace case is non-trivial when at least "
        "two sweeps were checked block by block against the sequential-scan model (conditioning values, start value, step "
        "count, conditional density in use, caches, stored tuple); a law case when all K replicates ran and every pivot "
        "statistic was evaluated; distinct = distinct descriptors")
ASSUMPTIONS = [
    "block samplers Conjugate, LinearRTO (converged CGLS), Direct are exact and MH, CWMH, MALA, PCN/pCN, NUTS leave their "
    "target invariant (their own correctness is the subject of C02/C06/C08/C10); ULA, UGLA, ConjugateApprox are only trace-checked",
    "the reference joint log-densities of vlib/refs/c09_models.py follow the documented parameterisations "
    "(Gamma(shape, rate), Gaussian cov/prec, GMRF with zero boundary = prec * D^T D, LMRF with scale)",
]
BUDGET_S = {"quick": 240.0, "thorough": 2400.0}
REQUIRED_COUNTERS = {
    "quick": {"conditioning_values_checked": 2000, "block_updates_checked": 900, "conditional_density_checked": 1500,
              "cache_consistency_checked": 1600, "stored_sweeps_checked": 450, "exact_draw_readoff_checked": 300,
              "continuation_checked": 30, "returned_samples_checked": 70, "law_statistics_checked": 300,
              "tuple_member_updates_checked": 40, "spelling_equivalence_checked": 4},
    "thorough": {"conditioning_values_checked": 30000, "block_updates_checked": 14000, "conditional_density_checked": 24000,
                 "cache_consistency_checked": 25000, "stored_sweeps_checked": 7000, "exact_draw_readoff_checked": 4500,
                 "continuation_checked": 300, "returned_samples_checked": 700, "law_statistics_checked": 1200,
                 "tuple_member_updates_checked": 600, "spelling_equivalence_checked": 40},
}
P_THRESHOLD = 1e-7

# =============================================================================== case generation

EXACT = {"Conjugate", "LinearRTO", "Direct", "DirectLike"}
INVARIANT = {"MH", "CWMH", "MALA", "PCN", "pCN", "NUTS"}
TRACE_ONLY = {"ULA", "UGLA", "ConjugateApprox"}

def _sampler_params(kind, role):
    if kind == "MH":
        return {"scale": 0.5 if role == "hyper" else 0.4}
    if kind == "CWMH":
        return {"scale": 0.5}
    if kind == "MALA":
        return {"scale": 0.06}
    if kind == "ULA":
        return {"scale": 0.01}
    if kind == "NUTS":
        return {"step_size": 0.15, "max_depth": 3}
    if kind in ("PCN", "pCN"):
        return {"scale": 0.4}
    if kind == "LinearRTO":
        return {"maxit": 30, "tol": 1e-8}
    return {}

def _menu(driver, family, role, dim, form, law):
    """Sampler kinds that are sensible for a block (role: hyper/hyper_lmrf/field/field_lmrf/data/chain_inner/chain_last/...)."""
    hg = driver == "hg"
    if role == "hyper":
        m = ["Conjugate", "Conjugate", "MH"]
    elif role == "hyper_prod":     # x ~ N(x0, I/(d1*d2)): Gamma conditional; the new-style Conjugate refuses the two-argument lambda
        m = ["MH"] if hg else ["Conjugate", "Conjugate", "MH"]
    elif role == "hyper_sum":      # x ~ N(x0, I/(d1+d2)): not a Gamma conditional
        m = ["MH"]
    elif role == "hyper_lmrf":
        m = ["ConjugateApprox", "ConjugateApprox", "MH"]
    elif role == "field":          # Posterior with Gaussian prior and linear-Gaussian likelihood
        m = ["LinearRTO", "LinearRTO", "MH", "CWMH", "MALA", "PCN" if hg else "pCN"] + (["NUTS", "ULA"] if hg else ["ULA"])
    elif role == "field_multi":    # MultipleLikelihoodPosterior: several different linear-Gaussian likelihoods (pCN refuses it)
        m = ["LinearRTO"] * 4 + ["MH", "CWMH"]       # (gradient samplers are refused: the fixed Gamma factors have no gradient)
    elif role == "field_lmrf":
        m = ["UGLA", "UGLA", "MH", "CWMH"]
    elif role == "data":           # conditioned Gaussian distribution
        m = ["Direct", "Direct", "MH", "CWMH"] if hg else ["DirectLike", "DirectLike", "MH", "CWMH"]
    elif role in ("chain_inner", "chain_fork"):      # fork: two children -> MultipleLikelihoodPosterior, which pCN refuses
        m = ["MH", "CWMH"] + ([("PCN" if hg else "pCN")] if role == "chain_inner" else [])
        if form == "model":
            m += ["LinearRTO"] * (4 if role == "chain_fork" else 2) + ["MALA"] + (["NUTS"] if hg else [])
    elif role == "chain_last":
        m = (["Direct", "Direct"] if hg else ["DirectLike", "DirectLike"]) + ["MH", "CWMH", "MALA"] + (["NUTS"] if hg else [])
    elif role == "s3_d":
        m = ["MH"]
    elif role == "s3_s":
        m = ["MH", "PCN" if hg else "pCN"]
    elif role == "s3_x":
        m = ["MH", "MALA"] + (["NUTS", "Direct"] if hg else ["DirectLike"])
    else:
        raise ValueError(role)
    if dim < 2:
        m = [k for k in m if k != "CWMH"]       # CWMH does not run on 1-D targets at all (not a Gibbs matter)
    if law:
        m = [k for k in m if k not in TRACE_ONLY]
    return m

def _gen_model(rng, driver, law, force_family=None, group_bias=False):
    fam = force_family or rng.choice(["hier", "hier", "hier", "chain", "chain", "scalar3", "multi", "multi", "prod"])
    if fam == "hier":
        prior = rng.choice(["cov", "prec", "gmrf"] if law else ["cov", "prec", "gmrf", "gmrf", "lmrf"])
        c = {"family": "hier", "prior": prior, "lik": rng.choice(["cov", "prec"]), "n": rng.randint(2, 6), "m": rng.randint(2, 7),
             "data": rng.choice(["observed", "observed", "block"]), "shift": rng.choice([0, 1]) if prior != "lmrf" else 0}
        roles = {"d": "hyper_lmrf" if prior == "lmrf" else "hyper", "l": "hyper",
                 "x": "field_lmrf" if prior == "lmrf" else "field"}
        dims = {"d": 1, "l": 1, "x": c["n"]}
        if c["data"] == "block":
            roles["y"] = "data"; dims["y"] = c["m"]
        form = None
    elif fam == "chain":
        k = rng.randint(2, 4)
        names = ["a", "b", "c", "e"][:k]
        parents = [None] + [j - 1 if rng.random() < 0.7 else rng.randrange(j) for j in range(1, k)]
        c = {"family": "chain", "form": rng.choice(["model", "model", "lambda"]), "names": names,
             "dims": [rng.randint(1, 3) for _ in names], "parents": parents}
        nchild = [sum(1 for q in parents[1:] if q == i) for i in range(k)]
        c["shape"] = "fork" if max(nchild) > 1 else "chain"
        roles = {nm: ("chain_last" if nchild[i] == 0 else "chain_inner" if nchild[i] == 1 else "chain_fork") for i, nm in enumerate(names)}
        dims = dict(zip(names, c["dims"]))
        form = c["form"]
    elif fam == "prod":
        c = {"family": "prod", "comb": rng.choice(["prod", "prod", "sum"]), "n": rng.randint(1, 5), "m": rng.choice([0, 0, 3, 5]),
             "shift": rng.choice([0, 1]), "order": rng.randrange(10 ** 6)}
        hr = "hyper_prod" if c["comb"] == "prod" else "hyper_sum"
        roles = {"d1": hr, "d2": hr, "x": "field" if c["m"] else "data"}
        dims = {"d1": 1, "d2": 1, "x": c["n"]}
        form = None
    elif fam == "multi":
        J = rng.choice([2, 2, 2, 3])
        m0 = rng.randint(2, 6)
        ms = [m0] * J if rng.random() < 0.5 else [rng.randint(2, 6) for _ in range(J)]
        c = {"family": "multi", "n": rng.randint(2, 6), "ms": ms, "hyper_d": rng.choice([True, False]),
             "liks": [rng.choice(["cov", "prec"]) for _ in range(J)], "shift": rng.choice([0, 1]),
             "lengths": "equal" if len(set(ms)) == 1 else "unequal", "order": rng.randrange(10 ** 6)}
        roles = {"x": "field_multi", **{f"l{j + 1}": "hyper" for j in range(J)}}
        if c["hyper_d"]:
            roles["d"] = "hyper"
        dims = {k: 1 for k in roles}; dims["x"] = c["n"]
        form = None
    else:
        c = {"family": "scalar3"}
        roles = {"x": "s3_x", "d": "s3_d", "s": "s3_s"}
        dims = {"x": 1, "d": 1, "s": 1}
        form = None
    samplers, nss = {}, {}
    for nm, role in roles.items():
        menu = _menu(driver, fam, role, dims[nm], form, law)
        if fam == "hier" and c["prior"] == "gmrf":
            menu = [k for k in menu if k not in ("PCN", "pCN")]      # pCN refuses a GMRF prior (not a Gaussian instance)
        kind = rng.choice(menu)
        if force_family == "multi" and role == "field_multi":
            kind = "LinearRTO"                                        # the guaranteed multi-likelihood RTO cases of every run
        samplers[nm] = [kind, _sampler_params(kind, "hyper" if role.startswith("hyper") or role == "s3_d" else "field")]
        nss[nm] = rng.choice([1, 1, 2, 3, 4])
    if group_bias:
        # make mutually dependent blocks share one sampler specification so that they can be listed under one tuple key
        by_role = {}
        for nm, role in roles.items():
            by_role.setdefault(role, []).append(nm)
        for role, members in by_role.items():
            if len(members) > 1 and role in ("hyper_prod", "hyper_sum", "chain_inner", "hyper"):
                pick = samplers[rng.choice(members)]
                if all(pick[0] in _menu(driver, fam, role, dims[nm], form, law) for nm in members):
                    for nm in members:
                        samplers[nm] = [pick[0], dict(pick[1])]
    c["samplers"] = samplers
    if driver == "hg":
        c["nss"] = nss
        c["nss_given"] = rng.choice(["all", "partial", "all"])
    c["mseed"] = rng.randrange(10 ** 9)
    return c

def _spelling(rng, samplers):
    """Keys of the legacy sampling_strategy: blocks with one and the same sampler specification are, with probability 0.8,
    listed together under tuple keys of 2-3 members (member order and key order shuffled, i.e. unrelated to the joint's order)."""
    groups = {}
    for nm, spec in samplers.items():
        groups.setdefault(core.canon(spec), []).append(nm)
    keys = []
    for members in groups.values():
        members = list(members); rng.shuffle(members)
        while members:
            if len(members) >= 2 and rng.random() < 0.8:
                size = 3 if (len(members) >= 3 and rng.random() < 0.5) else 2
                keys.append(members[:size]); members = members[size:]
            else:
                keys.append(members.pop())
    rng.shuffle(keys)
    return keys

def cases(tier, seed):
    rng = core.rng_for(seed, PROPERTY, tier, "cases")
    mult = 1 if tier == "quick" else 10
    n_hg_trace, n_lg_trace = 44 * mult, 20 * mult
    n_hg_law, n_lg_law = (20, 10) if tier == "quick" else (64, 32)
    K_hg, K_lg = (900, 1200) if tier == "quick" else (3000, 4000)
    def _K(base, sweeps):           # same cost per case whatever the number of sweeps (construction ~ 1.2 sweeps)
        return int(base * 3.2 / (sweeps + 1.2))
    trace, law = [], []
    for i in range(n_hg_trace):
        fam = ["hier", "chain", "scalar3", "multi", "multi", "prod", "prod"][i] if i < 7 else None
        c = _gen_model(rng, "hg", False, fam)
        c["dict_order"] = rng.randrange(10 ** 6)
        c.update({"kind": "hg_trace", "sched": [rng.choice([0, 3, 5, 10]), rng.randint(4, 8), rng.choice([0, 3, 5])] if tier == "quick" else
                  [rng.choice([0, 5, 10, 20]), rng.randint(5, 14), rng.choice([0, 4, 8])], "idx": i})
        trace.append(c)
    for i in range(n_lg_trace):
        fam = ["hier", "chain", "scalar3", "multi", "multi", "prod", "prod"][i] if i < 7 else None
        c = _gen_model(rng, "lg", False, fam, group_bias=(i % 2 == 1 or fam == "prod"))
        c["strategy_keys"] = _spelling(rng, c["samplers"])
        c["spelling"] = "tuple" if any(isinstance(k, list) for k in c["strategy_keys"]) else "string"
        c.update({"kind": "lg_trace", "sched": [rng.choice([0, 0, 3, 6]), rng.randint(4, 8), rng.choice([0, 3, 5])] if tier == "quick" else
                  [rng.choice([0, 0, 5, 12]), rng.randint(5, 14), rng.choice([0, 4, 8])],
                  "tuple_keys": rng.choice([True, False]), "idx": i})
        trace.append(c)
    for i in range(n_hg_law):
        fam = ["hier", "chain", "scalar3", "multi", "multi", "prod", "prod"][i] if i < 7 else None
        c = _gen_model(rng, "hg", True, fam)
        sw = rng.choice([1, 2, 3, 5])
        Kc = max(300, _K(K_hg, sw) // (2 if "NUTS" in [v[0] for v in c["samplers"].values()] else 1))
        c.update({"kind": "hg_law", "K": Kc, "sweeps": sw, "idx": i})
        law.append(c)
    for i in range(n_lg_law):
        fam = ["hier", "chain", "scalar3", "multi", "multi", "prod", "prod"][i] if i < 7 else None
        c = _gen_model(rng, "lg", True, fam, group_bias=(i % 2 == 1 or fam == "prod"))
        c["strategy_keys"] = _spelling(rng, c["samplers"])
        c["spelling"] = "tuple" if any(isinstance(k, list) for k in c["strategy_keys"]) else "string"
        sw = rng.choice([1, 2, 3, 5])
        c.update({"kind": "lg_law", "K": _K(K_lg, sw), "sweeps": sw, "idx": i})
        law.append(c)
    # interleave so that every shard gets a similar share of the expensive law cases
    out, ti = [], 0
    per = max(1, len(trace) // max(1, len(law)))
    for lc in law:
        out.append(lc)
        out.extend(trace[ti:ti + per]); ti += per
    out.extend(trace[ti:])
    only = os.environ.get("VERIF_C09_KINDS")          # development aid (mutation runs on a loaded machine); unset in normal use
    if only:
        out = [c for c in out if c["kind"] in only.split(",")]
    return out

def crash_config(case):
    return _cfg(case)

def _cfg(case, **extra):
    c = {"driver": "HybridGibbs" if case["kind"].startswith("hg") else "Gibbs", "family": case["family"]}
    for k in ("prior", "lik", "data", "form", "shape", "lengths", "comb", "spelling"):
        if k in case:
            c[k] = case[k]
    c.update(extra)
    return c

# =============================================================================== models (reference + cuqi side)

def _arr(v):
    return np.array(np.asarray(v, dtype=float).reshape(-1), copy=True)

def _named_lambda(arg, expr, env):
    return eval(f"lambda {arg}: {expr}", dict(env))

def build_model(case):
    """-> (reference model, function data->cuqi joint target, fixed observed data or None)."""
    import cuqi
    D = cuqi.distribution
    rs = core.np_rng(PROPERTY, "model", case["mseed"])
    fam = case["family"]
    if fam == "hier":
        n, m = case["n"], case["m"]
        A = rs.standard_normal((m, n)) / math.sqrt(n) + (np.eye(m, n) if m >= n else np.eye(m, n))
        a_d, b_d = float(rs.uniform(2.5, 5.0)), float(rs.uniform(1.0, 3.0))
        a_l, b_l = float(rs.uniform(2.5, 5.0)), float(rs.uniform(0.5, 2.0))
        x0 = rs.standard_normal(n) if case.get("shift") else np.zeros(n)
        y_obs = None
        if case["data"] == "observed":
            tmp = R.Hier(n, m, A, a_d, b_d, a_l, b_l, x0, "cov" if case["prior"] == "lmrf" else case["prior"])
            y_obs = tmp.draw(rs)["y"]
        ref = R.Hier(n, m, A, a_d, b_d, a_l, b_l, x0, case["prior"], y_obs=y_obs)
        Amodel = cuqi.model.LinearModel(A)
        d = D.Gamma(a_d, b_d, name="d")
        l = D.Gamma(a_l, b_l, name="l")
        if case["prior"] == "cov":
            x = D.Gaussian(x0, cov=lambda d: 1.0 / d, name="x")
        elif case["prior"] == "prec":
            x = D.Gaussian(x0, prec=lambda d: d, name="x")
        elif case["prior"] == "gmrf":
            x = D.GMRF(x0, lambda d: d, bc_type="zero", name="x")
        else:
            x = D.LMRF(0, lambda d: 1.0 / d, geometry=n, bc_type="zero", name="x")
        if case["lik"] == "cov":
            y = D.Gaussian(Amodel, cov=lambda l: 1.0 / l, name="y")
        else:
            y = D.Gaussian(Amodel, prec=lambda l: l, name="y")
        J = D.JointDistribution(d, l, x, y)
        def target(data=None):
            if case["data"] == "block":
                return J
            return J(y=y_obs if data is None else data["y"])
        return ref, target, y_obs
    if fam == "chain":
        names, dims, parents = case["names"], case["dims"], case["parents"]
        m1 = rs.standard_normal(dims[0])
        Bs, cs, svars = [], [], [rs.uniform(0.5, 1.5, dims[0])]
        for j in range(1, len(names)):
            B = rs.standard_normal((dims[j], dims[parents[j]])) * 0.8 + np.eye(dims[j], dims[parents[j]])
            Bs.append(B)
            cs.append(rs.standard_normal(dims[j]) if case["form"] == "lambda" else np.zeros(dims[j]))
            svars.append(rs.uniform(0.2, 0.8, dims[j]))
        ref = R.Chain(names, dims, m1, Bs, cs, svars, parents=parents)
        dists = [D.Gaussian(m1, cov=svars[0], name=names[0])]
        for j in range(1, len(names)):
            prev = names[parents[j]]
            B, c = Bs[j - 1], cs[j - 1]
            if case["form"] == "model":
                fwd = _named_lambda(prev, f"B_@{prev}", {"B_": B})
                mean = cuqi.model.LinearModel(fwd, adjoint=lambda w, B=B: B.T @ w, range_geometry=dims[j], domain_geometry=dims[parents[j]])
            else:
                mean = _named_lambda(prev, f"B_@{prev} + off_", {"B_": B, "off_": c})
            dists.append(D.Gaussian(mean, cov=svars[j], geometry=dims[j], name=names[j]))
        J = D.JointDistribution(*dists)
        return ref, (lambda data=None: J), None
    if fam == "prod":
        n, m = case["n"], case["m"]
        x0 = rs.standard_normal(n) if case.get("shift") else np.zeros(n)
        a = [float(rs.uniform(2.5, 5.0)) for _ in range(2)]; b = [float(rs.uniform(0.5, 2.5)) for _ in range(2)]
        A = (rs.standard_normal((m, n)) / math.sqrt(n) + np.eye(m, n)) if m else None
        s2 = float(rs.uniform(0.3, 1.5))
        y_obs = R.Prod(n, x0, a, b, case["comb"], A=A, s2=s2).draw(rs)["y"] if m else None
        ref = R.Prod(n, x0, a, b, case["comb"], A=A, s2=s2, y_obs=y_obs)
        dists = {"d1": D.Gamma(a[0], b[0], name="d1"), "d2": D.Gamma(a[1], b[1], name="d2")}
        if case["comb"] == "prod":
            dists["x"] = D.Gaussian(x0, cov=lambda d1, d2: 1.0 / (d1 * d2), name="x")
        else:
            dists["x"] = D.Gaussian(x0, cov=lambda d1, d2: 1.0 / (d1 + d2), name="x")
        if m:
            dists["y"] = D.Gaussian(cuqi.model.LinearModel(A), cov=s2, name="y")
        order = sorted(dists)
        core.rng_for("order", case["order"]).shuffle(order)
        Jp = D.JointDistribution(*[dists[k] for k in order])
        def target(data=None):
            if not m:
                return Jp
            return Jp(y=y_obs if data is None else data["y"])
        return ref, target, y_obs
    if fam == "multi":
        n, ms = case["n"], case["ms"]
        J = len(ms)
        As = [rs.standard_normal((m, n)) / math.sqrt(n) + np.eye(m, n) * rs.uniform(0.5, 1.5) for m in ms]
        x0 = rs.standard_normal(n) if case.get("shift") else np.zeros(n)
        a_l = [float(rs.uniform(2.5, 5.0)) for _ in ms]; b_l = [float(rs.uniform(0.3, 3.0)) for _ in ms]
        a_d, b_d, d_fixed = float(rs.uniform(2.5, 5.0)), float(rs.uniform(1.0, 3.0)), float(rs.uniform(0.5, 2.0))
        tmp = R.Multi(n, As, x0, a_l, b_l, case["hyper_d"], a_d, b_d, d_fixed)
        v = tmp.draw(rs)
        ys = [v[k] for k in tmp.data_names]
        ref = R.Multi(n, As, x0, a_l, b_l, case["hyper_d"], a_d, b_d, d_fixed, ys=ys)
        dists = {}
        if case["hyper_d"]:
            dists["d"] = D.Gamma(a_d, b_d, name="d")
            dists["x"] = D.Gaussian(x0, cov=lambda d: 1.0 / d, name="x")
        else:
            dists["x"] = D.Gaussian(x0, cov=1.0 / d_fixed, name="x")
        for j in range(J):
            ln, yn = ref.lnames[j], ref.data_names[j]
            dists[ln] = D.Gamma(a_l[j], b_l[j], name=ln)
            Aj = cuqi.model.LinearModel(As[j])              # every data set has its own forward model ...
            if case["liks"][j] == "cov":                     # ... and its own noise-precision block
                dists[yn] = D.Gaussian(Aj, cov=_named_lambda(ln, f"1.0/{ln}", {}), name=yn)
            else:
                dists[yn] = D.Gaussian(Aj, prec=_named_lambda(ln, f"{ln}", {}), name=yn)
        order = sorted(dists)
        core.rng_for("order", case["order"]).shuffle(order)
        Jd = D.JointDistribution(*[dists[k] for k in order])
        def target(data=None):
            data = data if data is not None else dict(zip(ref.data_names, ys))
            return Jd(**{k: data[k] for k in ref.data_names})
        return ref, target, ys
    if fam == "scalar3":
        mu, sig2 = float(rs.uniform(-1, 2)), float(rs.uniform(0.5, 2.0))
        lo, hi = 1.0, float(rs.choice([20.0, 100.0]))
        ref = R.Scalar3(mu, sig2, lo, hi)
        s = D.Gaussian(mu, sig2, name="s")
        d = D.Uniform(lo, hi, name="d")
        x = D.Gaussian(lambda s: s, lambda d: 1.0 / d, geometry=1, name="x")
        J = D.JointDistribution(x, d, s)
        return ref, (lambda data=None: J), None
    raise ValueError(fam)

def initial_state(ref, case, rs):
    """A well-posed starting state inside every support (exact joint draw where possible)."""
    if getattr(ref, "prior", None) == "lmrf":
        v = {"d": np.array([rs.uniform(0.5, 2)]), "l": np.array([rs.uniform(0.5, 2)]), "x": rs.standard_normal(ref.n)}
        if "y" in ref.names:
            v["y"] = rs.standard_normal(ref.m)
        return v
    v = ref.draw(rs)
    return {k: _arr(v[k]) for k in ref.names}

def make_exp_sampler(kind, params, initial_point):
    import cuqi
    M = cuqi.experimental.mcmc
    kw = dict(params)
    if initial_point is not None:
        if isinstance(initial_point, float):      # scalar form used by the library's own tests: MH(initial_point=3)
            kw["initial_point"] = initial_point
        elif isinstance(initial_point, np.ndarray) and not initial_point.flags["OWNDATA"]:
            kw["initial_point"] = initial_point       # a (strided) view of a caller's buffer, handed over as it is
        else:
            kw["initial_point"] = np.array(initial_point, dtype=float, copy=True)
    return getattr(M, kind)(**kw)

class DirectLike:
    """Harness-owned exact sampler for the legacy Gibbs (which has no Direct): draws from target.sample()."""
    def __init__(self, target):
        self.target = target
    def step(self, x=None):
        return np.asarray(self.target.sample()).reshape(-1)

def legacy_factory(kind, params):
    import cuqi
    if kind == "DirectLike":
        return DirectLike
    cls = getattr(cuqi.sampler, kind)
    if not params:
        return cls
    return lambda target: cls(target, **params)

# =============================================================================== observation helpers

class GammaSpy:
    """Pass-through recorder of np.random.gamma(shape, scale, size) arguments."""
    def __init__(self):
        self.calls = []
    def __enter__(self):
        self._real = np.random.gamma
        def gamma(shape, scale=1.0, size=None):
            self.calls.append((float(np.asarray(shape).reshape(-1)[0]), float(np.asarray(scale).reshape(-1)[0])))
            return self._real(shape, scale, size)
        np.random.gamma = gamma
        return self
    def __exit__(self, *a):
        np.random.gamma = self._real
        return False

def _probe(p1, positive, rs_probe):
    p1 = _arr(p1)
    if positive:
        return p1 * 1.37
    return p1 + 0.5 + 0.25 * rs_probe.standard_normal(p1.shape)

def _logd_diff(target, p1, p2):
    a = np.asarray(target.logd(p1), dtype=float).reshape(-1)[0]
    b = np.asarray(target.logd(p2), dtype=float).reshape(-1)[0]
    return float(a), float(b)

def _cache_snapshot(sampler):
    """[(attribute, cached value, fresh evaluation under the sampler's current target)]"""
    out = []
    tgt, pt = sampler.target, sampler.current_point
    if getattr(sampler, "current_target_logd", None) is not None:
        out.append(("current_target_logd", _arr(sampler.current_target_logd), _arr(tgt.logd(pt))))
    if getattr(sampler, "current_target_grad", None) is not None:
        out.append(("current_target_grad", _arr(sampler.current_target_grad), _arr(tgt.gradient(pt))))
    if getattr(sampler, "current_likelihood_logd", None) is not None:
        out.append(("current_likelihood_logd", _arr(sampler.current_likelihood_logd), _arr(tgt.likelihood.logd(pt))))
    return out

# =============================================================================== the offline checker

class SweepChecker:
    """Sequential-scan model fed with the recorded events (same code for both drivers)."""

    def __init__(self, ctx, case, ref, names, nss, kinds, init):
        self.ctx, self.case, self.ref, self.names, self.nss, self.kinds = ctx, case, ref, list(names), nss, kinds
        self.cur = {k: _arr(v) for k, v in init.items()}
        self.history = []            # model values after every sweep
        self.sweeps_checked = 0
        self.max_err = {"density": 0.0, "gamma": 0.0, "gauss_sd": 0.0, "cache": 0.0}   # largest normalised discrepancies (tolerance margins)

    def cfg(self, block=None, **extra):
        c = _cfg(self.case, **extra)
        if block is not None:
            c["sampler"] = self.kinds.get(block)
            c["block_pos"] = self.names.index(block) if block in self.names else -1
            c["block_dim"] = "1" if self.ref.dims.get(block, 0) == 1 else ">1"
        return c

    def same(self, a, b):
        a, b = _arr(a), _arr(b)
        return a.shape == b.shape and np.array_equal(a, b)

    def check_sweep(self, sweep_idx, phase, events, current_after=None):
        """events: the cond/step events recorded between the begin and the end of one sweep."""
        ctx, names = self.ctx, self.names
        pos = 0
        i = 0
        visited = []
        while i < len(events):
            ev = events[i]
            if ev["k"] != "cond":
                ctx.violation("step_without_reconditioning", self.cfg(ev.get("block"), phase=phase),
                              f"sweep {sweep_idx}: block sampler of {ev.get('block')} stepped without a preceding re-conditioning of the joint")
                i += 1
                continue
            missing = [k for k in names if k not in ev["kwargs"]]
            extra = [k for k in ev["kwargs"] if k not in names]
            if len(missing) != 1 or extra:
                ctx.violation("conditioning_set", self.cfg(None, phase=phase), f"sweep {sweep_idx}: joint conditioned on {sorted(ev['kwargs'])}, blocks are {names}")
                i += 1
                continue
            block = missing[0]
            visited.append(block)
            if pos >= len(names) or block != names[pos]:
                ctx.violation("visit_order", self.cfg(block, phase=phase), f"sweep {sweep_idx}: update #{pos} is block {block}, par_names order is {names}")
            # --- conditioning values: new values of blocks already updated, old values of the rest
            for o in names:
                if o == block:
                    continue
                ctx.count("conditioning_values_checked")
                if not self.same(ev["kwargs"][o], self.cur[o]):
                    rel = "earlier" if names.index(o) < names.index(block) else "later"
                    ctx.violation("stale_conditioning", self.cfg(block, phase=phase, other=rel),
                                  f"sweep {sweep_idx} ({phase}): block {block} conditioned on {o}={ev['kwargs'][o].tolist()} "
                                  f"but the most recent value of {o} is {self.cur[o].tolist()}")
            # --- the steps of this block
            steps = []
            j = i + 1
            while j < len(events) and events[j]["k"] == "step" and events[j]["block"] == block:
                steps.append(events[j]); j += 1
            want = self.nss[block]
            ctx.count("block_updates_checked")
            if len(steps) != want:
                ctx.violation("step_count", self.cfg(block, phase=phase, configured=want),
                              f"sweep {sweep_idx}: block {block} advanced by {len(steps)} transitions, configured {want}")
            prev = self.cur[block]
            for sidx, st in enumerate(steps):
                if st.get("target") is not None and st["target"] is not ev["result"]:
                    ctx.violation("target_not_the_reconditioned_joint", self.cfg(block, phase=phase),
                                  f"sweep {sweep_idx}: sampler of {block} stepped on a target that is not the joint conditioned in this update")
                ctx.count("target_identity_checked")
                ctx.count("start_value_checked")
                if not self.same(st["before"], prev):
                    ctx.violation("block_start_value", self.cfg(block, phase=phase, step=min(sidx, 1)),
                                  f"sweep {sweep_idx}: transition {sidx} of block {block} started from {st['before'].tolist()}, "
                                  f"the block's current value is {prev.tolist()}")
                # conditional density in use == reference joint with the other blocks at their most recent values
                if st.get("probe") is not None:
                    p1, p2, la, lb = st["probe"]
                    v1 = dict(self.cur); v1[block] = p1
                    v2 = dict(self.cur); v2[block] = p2
                    ra, rb = self.ref.logjoint(v1), self.ref.logjoint(v2)
                    if np.isfinite(ra) and np.isfinite(rb) and np.isfinite(la) and np.isfinite(lb):
                        ctx.count("conditional_density_checked")
                        tol = 1e-7 * (1.0 + abs(ra) + abs(rb) + abs(la) + abs(lb))
                        self.max_err["density"] = max(self.max_err["density"], abs((la - lb) - (ra - rb)) / tol * 1e-7)
                        if abs((la - lb) - (ra - rb)) > tol:
                            ctx.violation("conditional_density_mismatch", self.cfg(block, phase=phase),
                                          f"sweep {sweep_idx}: target used for block {block}: logd(p1)-logd(p2)={la - lb:.12g}, joint given the most "
                                          f"recent other blocks: {ra - rb:.12g} (p1={p1.tolist()}, p2={p2.tolist()})")
                    else:
                        ctx.count("conditional_density_nonfinite_skipped")
                for when in ("cache_pre", "cache_post"):
                    for attr, cached, fresh in st.get(when, []):
                        ctx.count("cache_consistency_checked")
                        if cached.shape == fresh.shape and np.all(np.isfinite(cached)) and np.all(np.isfinite(fresh)) and cached.size:
                            self.max_err["cache"] = max(self.max_err["cache"], float(np.max(np.abs(cached - fresh)) / (1e-1 + np.max(np.abs(fresh)))))
                        if not ctx.close(cached, fresh, rtol=1e-8, atol=1e-9):
                            ctx.violation("stale_cache", self.cfg(block, phase=phase, attr=attr, when=when[6:]),
                                          f"sweep {sweep_idx}: {self.kinds.get(block)}.{attr} of block {block} is {cached.tolist()} {when[6:]} the transition, "
                                          f"a fresh evaluation under the current conditional gives {fresh.tolist()}")
                self._check_readoff(sweep_idx, block, st, phase)
                prev = st["after"]
            if steps:
                self.cur[block] = _arr(steps[-1]["after"])
            pos += 1
            i = j
        if sorted(visited) != sorted(names) or len(visited) != len(names):
            ctx.violation("blocks_not_all_visited", self.cfg(None, phase=phase), f"sweep {sweep_idx}: visited {visited}, blocks {names}")
        if current_after is not None:
            for k in names:
                ctx.count("current_values_checked")
                if not self.same(current_after[k], self.cur[k]):
                    ctx.violation("current_value_mismatch", self.cfg(k, phase=phase),
                                  f"sweep {sweep_idx}: current value of {k} after the sweep is {current_after[k].tolist()}, the block sampler ended at {self.cur[k].tolist()}")
                    self.cur[k] = _arr(current_after[k])      # resynchronise to keep later reports meaningful
        self.history.append({k: v.copy() for k, v in self.cur.items()})
        self.sweeps_checked += 1

    def _check_readoff(self, sweep_idx, block, st, phase):
        ctx = self.ctx
        ro = st.get("readoff")
        if not ro:
            return
        if ro[0] == "gamma":
            calls = ro[1]
            if len(calls) != 1:
                return
            shape, scale = calls[0]
            sh_ref, rate_ref, defect = R.gamma_conditional(self.ref, self.cur, block)
            if defect > 1e-8 or not np.isfinite(sh_ref):
                ctx.count("readoff_reference_unusable"); return
            ctx.count("exact_draw_readoff_checked")
            self.max_err["gamma"] = max(self.max_err["gamma"], abs(shape - sh_ref) / (1 + abs(sh_ref)), abs(1.0 / scale - rate_ref) / (1 + abs(rate_ref)))
            if abs(shape - sh_ref) > 1e-6 * (1 + abs(sh_ref)) or abs(1.0 / scale - rate_ref) > 1e-6 * (1 + abs(rate_ref)):
                ctx.violation("exact_draw_not_from_current_conditional", self.cfg(block, phase=phase, law="gamma"),
                              f"sweep {sweep_idx}: block {block} drawn from Gamma(shape={shape:.10g}, rate={1.0 / scale:.10g}); the conditional given "
                              f"the most recent other blocks is Gamma({sh_ref:.10g}, {rate_ref:.10g})")
        elif ro[0] == "gauss_mean":
            mean_ref, P, defect = R.gauss_conditional(self.ref, self.cur, block)
            if defect > 1e-8 or not np.all(np.isfinite(mean_ref)):
                ctx.count("readoff_reference_unusable"); return
            ctx.count("exact_draw_readoff_checked")
            got = _arr(st["after"])
            sd = 1.0 / np.sqrt(np.maximum(np.diag(P), 1e-300))
            if got.shape == mean_ref.shape:
                self.max_err["gauss_sd"] = max(self.max_err["gauss_sd"], float(np.max(np.abs(got - mean_ref) / sd)))
            if got.shape != mean_ref.shape or np.max(np.abs(got - mean_ref) / sd) > 1e-4:
                ctx.violation("exact_draw_not_from_current_conditional", self.cfg(block, phase=phase, law="gauss"),
                              f"sweep {sweep_idx}: zero-noise draw of block {block} is {got.tolist()}; the conditional mean given the most recent "
                              f"other blocks is {mean_ref.tolist()}")

    def check_store(self, store_idx, stored, n_sweeps_since_last, phase):
        ctx = self.ctx
        ctx.count("stored_sweeps_checked")
        if n_sweeps_since_last != 1:
            ctx.violation("store_not_after_each_sweep", self.cfg(None, phase=phase),
                          f"store #{store_idx}: {n_sweeps_since_last} sweeps since the previous store")
        for k in self.names:
            if not self.same(stored[k], self.cur[k]):
                ctx.violation("stored_sample_mismatch", self.cfg(k, phase=phase),
                              f"store #{store_idx} ({phase}): stored {k}={_arr(stored[k]).tolist()}, value after the sweep {self.cur[k].tolist()}")

# =============================================================================== HybridGibbs: trace case

def _call_snapshot(self, args, kwargs):
    return {k: _arr(v) for k, v in kwargs.items()}

def run_hg_trace(case, ctx):
    import cuqi
    from cuqi.distribution import JointDistribution
    HG = cuqi.experimental.mcmc.HybridGibbs
    ref, target_fn, _ = build_model(case)
    rs = core.np_rng(ctx.seed, PROPERTY, core.canon(case))
    np.random.seed(rs.randint(2 ** 31 - 1))
    names_ref = ref.names
    init = initial_state(ref, case, rs)
    kinds = {k: v[0] for k, v in case["samplers"].items()}
    give_init = {k: (rs.uniform() < 0.75) for k in names_ref}
    # scalar initial points as in the library's own HybridGibbs tests (MH(initial_point=3)); only for the all-scalar model
    scalar_init = {k: (case["family"] == "scalar3" and kinds[k] in ("MH", "PCN", "MALA") and rs.uniform() < 0.3) for k in names_ref}
    init_form = "scalar" if any(scalar_init[k] and give_init[k] for k in names_ref) else "array"
    # half of the array initial points are strided views of a caller-owned buffer (which must stay untouched)
    buffers = {}
    for k in names_ref:
        if give_init[k] and not scalar_init[k] and rs.uniform() < 0.5:
            buf = np.full(2 * len(init[k]) + 1, 7.25); buf[1::2] = init[k]
            buffers[k] = (buf, buf.copy())
    def _ip(k):
        if not give_init[k]:
            return None
        if k in buffers:
            return buffers[k][0][1::2]
        return float(init[k][0]) if scalar_init[k] else init[k]
    # spelling axis of HybridGibbs: the order of the sampling_strategy / num_sampling_steps dicts is unrelated to the joint's order
    dict_order = sorted(case["samplers"])
    core.rng_for("dict_order", case.get("dict_order", 0)).shuffle(dict_order)
    kind_, strategy = core.outcome(lambda: {k: make_exp_sampler(case["samplers"][k][0], case["samplers"][k][1], _ip(k)) for k in dict_order})
    if kind_ != "value":
        ctx.refused("sampler construction", strategy); ctx.count("refused_configurations"); return
    nss_cfg = dict(case["nss"])
    if case.get("nss_given") == "partial":
        nss_cfg.pop(sorted(nss_cfg)[0])
    nss_arg = {k: nss_cfg[k] for k in reversed(dict_order) if k in nss_cfg}
    nss_eff = {k: nss_cfg.get(k, 1) for k in names_ref}

    raw = []                                  # every JointDistribution.__call__ seen by the contract wrapper
    clog = contracts.ContractLog()
    def post(self, args, kwargs, result, snap):
        raw.append({"k": "cond", "self": self, "kwargs": snap, "result": result})
        return True
    target = target_fn()
    with contracts.ensure(JointDistribution, "__call__", post, clog, snapshot=_call_snapshot):
        kind_, G = core.outcome(HG, target, strategy, nss_arg)
        if kind_ == "refused":
            ctx.refused("HybridGibbs(" + "/".join(kinds[k] for k in names_ref) + ")", G); ctx.count("refused_configurations")
            ctx.note("refusal", str(G)); return
        if kind_ == "crashed":
            ctx.violation("crash", _cfg(case, exc=type(G).__name__), repr(G)); return
        names = list(G.par_names)
        if sorted(names) != sorted(names_ref):
            ctx.violation("par_names", _cfg(case), f"{names} vs blocks {names_ref}"); return
        ctx.count("sweep_order_is_joint_order_checked")
        if names != list(target.get_parameter_names()):
            ctx.violation("par_names", _cfg(case), f"sweep order {names} is not the joint's parameter order {target.get_parameter_names()} (strategy dict order {dict_order})")
        # initial state and initial conditioning
        init_obs = {k: _arr(G.current_samples[k]) for k in names}
        for k in names:
            if give_init[k]:
                ctx.count("initial_point_checked")
                if not np.array_equal(init_obs[k], _arr(init[k])):
                    ctx.violation("initial_point_ignored", _cfg(case, sampler=kinds[k]), f"{k}: {init_obs[k]} vs given {init[k]}")
        for ev in raw:
            if ev["self"] is G.target and ev["kwargs"]:
                for o, val in ev["kwargs"].items():
                    ctx.count("init_conditioning_checked")
                    if o in init_obs and not np.array_equal(val, init_obs[o]):
                        ctx.violation("stale_conditioning", _cfg(case, phase="init"), f"initial target conditioned on {o}={val}, initial point {init_obs[o]}")
        del raw[:]
        probe_rs = core.np_rng("probe", core.canon(case))
        state = {"sweep": -1, "sweeps_since_store": 0, "stores": 0, "phase": "warmup", "steps_in_sweep": {}}
        checker = SweepChecker(ctx, case, ref, names, nss_eff, kinds, init_obs)
        stored_copies = []

        def wrap_sampler(block, sampler):
            orig = sampler.step
            kind = kinds[block]
            def step():
                ev = {"k": "step", "block": block, "before": _arr(sampler.current_point), "target": sampler.target}
                p1 = ev["before"]; p2 = _probe(p1, block in ref.positive, probe_rs)
                k_, val = core.outcome(_logd_diff, sampler.target, p1, p2)
                ev["probe"] = (p1, p2, val[0], val[1]) if k_ == "value" else None
                ev["cache_pre"] = _cache_snapshot(sampler)
                first = state["steps_in_sweep"].get(block, 0) == 0       # zero noise only in the first transition of an update:
                state["steps_in_sweep"][block] = state["steps_in_sweep"].get(block, 0) + 1   # CGLS started at its own solution never meets its relative tolerance
                zero_noise = first and kind in ("LinearRTO", "Direct") and state["sweep"] % 3 == 2 and block not in ref.positive
                if kind in ("Conjugate",):
                    with GammaSpy() as spy:
                        acc = orig()
                    ev["readoff"] = ("gamma", list(spy.calls))
                elif zero_noise:
                    with rngscript.Scripted(normal=rngscript.zeros_provider(), record=False):
                        acc = orig()
                    ev["readoff"] = ("gauss_mean",)
                else:
                    acc = orig()
                ev["after"] = _arr(sampler.current_point)
                ev["cache_post"] = _cache_snapshot(sampler)
                ev["acc"] = acc
                raw.append(ev)
                return acc
            sampler.step = step

        for k in names:
            wrap_sampler(k, G.samplers[k])

        orig_step, orig_store, orig_tune = G.step, G._store_samples, G.tune
        def gstep():
            state["sweep"] += 1
            state["steps_in_sweep"] = {}
            del raw[:]
            out = orig_step()
            evs = [e for e in raw if e["k"] == "step" or (e["self"] is G.target)]
            checker.check_sweep(state["sweep"], state["phase"], evs, {k: _arr(G.current_samples[k]) for k in names})
            state["sweeps_since_store"] += 1
            del raw[:]
            return out
        def gstore():
            out = orig_store()
            lens = {k: len(G.samples[k]) for k in names}
            state["stores"] += 1
            stored = {k: _arr(G.samples[k][-1]) for k in names}
            if any(v != state["stores"] for v in lens.values()):
                ctx.violation("stored_length", _cfg(case, phase=state["phase"]), f"after store #{state['stores']} the sample lists have lengths {lens}")
            checker.check_store(state["stores"], stored, state["sweeps_since_store"], state["phase"])
            stored_copies.append(stored)
            state["sweeps_since_store"] = 0
            return out
        def gtune(*a, **kw):
            before = {k: _arr(G.current_samples[k]) for k in names}
            out = orig_tune(*a, **kw)
            ctx.count("tune_calls_observed")
            for k in names:
                if not np.array_equal(before[k], _arr(G.current_samples[k])) or not np.array_equal(before[k], _arr(G.samplers[k].current_point)):
                    ctx.violation("tuning_changed_state", _cfg(case, sampler=kinds[k]), f"{k} changed by tune()")
            return out
        G.step, G._store_samples, G.tune = gstep, gstore, gtune

        Nb, N1, N2 = case["sched"]
        plan = [("warmup", Nb), ("sample", N1), ("sample", N2)]
        total = 0
        for pi, (phase, N) in enumerate(plan):
            if N == 0:
                continue
            state["phase"] = phase if pi < 2 else "resample"
            before_call = {k: v.copy() for k, v in checker.cur.items()}
            n_hist = len(checker.history)
            k_, val = core.outcome(getattr(G, phase), N)
            if k_ != "value":
                # construction validated every conditional target: an exception out of a sweep is a failure, not a refusal
                ctx.violation("failure_mid_run", _cfg(case, exc=type(val).__name__, phase=phase, samplers="/".join(kinds[k] for k in names)),
                              f"{phase}({N}) raised {val!r} after {checker.sweeps_checked} checked sweeps; blocks {kinds}"); break
            total += N
            if len(checker.history) - n_hist != N:
                ctx.violation("sweep_count", _cfg(case, phase=phase), f"{phase}({N}) performed {len(checker.history) - n_hist} sweeps")
            if pi > 0 and n_hist > 0:
                # continuation: the first sweep of this call was checked against the values left by the previous call
                ctx.count("continuation_checked")
        for k, (buf, buf0) in buffers.items():
            ctx.count("caller_arrays_unchanged_checked")
            if not np.array_equal(buf, buf0):
                ctx.violation("caller_array_modified", _cfg(case, sampler=kinds[k], what="initial_point"),
                              f"the buffer behind the initial point of {k} changed during the run: {buf0.tolist()} -> {buf.tolist()}")
        # returned arrays
        k_, samples = core.outcome(G.get_samples)
        if k_ == "value" and stored_copies:
            for k in names:
                arr = np.asarray(samples[k].samples)
                ctx.count("returned_samples_checked")
                want = np.array([sc[k] for sc in stored_copies]).T
                if arr.shape != want.shape or not np.array_equal(arr, want):
                    ctx.violation("returned_samples_mismatch", _cfg(case, sampler=kinds[k]),
                                  f"get_samples()['{k}'] has shape {arr.shape}; recorded stores give {want.shape}; equal={arr.shape == want.shape and bool(np.array_equal(arr, want))}")
        elif k_ != "value":
            shapes = {k: sorted(set(str(np.shape(v)) for v in G.samples[k])) for k in names}
            ctx.violation("returned_samples_unavailable", _cfg(case, exc=type(samples).__name__, init=init_form),
                          f"get_samples() raised {samples!r} after {len(stored_copies)} stored sweeps; shapes of the stored entries: {shapes}")
    ctx.count("contract_evaluations", clog.evaluations.get("JointDistribution.__call__", 0))
    ctx.note("blocks", {k: [kinds[k], nss_eff[k]] for k in names})
    ctx.note("sweeps_checked", checker.sweeps_checked)
    ctx.note("max_normalised_discrepancies", checker.max_err)
    if checker.sweeps_checked >= 2:
        ctx.nontrivial("hg_trace:" + case["family"] + ":" + "/".join(sorted(set(kinds.values()))))

# =============================================================================== legacy Gibbs: trace case

def _block_of(target):
    """Name of the block a conditional target belongs to (used by the callable given for a tuple key)."""
    pr = getattr(target, "prior", None)
    if pr is not None and getattr(pr, "name", None) is not None:
        return pr.name
    nm = getattr(target, "name", None)
    return nm if nm is not None else target.get_parameter_names()[0]

def legacy_strategy(keys, factory_of, direct=False):
    """sampling_strategy of the legacy Gibbs in the given spelling: string keys and tuple keys (a list in the descriptor).
    factory_of(block) -> callable(target) -> sampler.  The callable given for a tuple key serves all its members."""
    strategy = {}
    for key in keys:
        if isinstance(key, (list, tuple)):
            if direct:      # documented spelling: the sampler class (or one factory) itself is the value of the tuple key
                strategy[tuple(key)] = factory_of(key[0])
                continue
            shared = {m: factory_of(m) for m in key}
            strategy[tuple(key)] = (lambda target, shared=shared: shared[_block_of(target)](target))
        else:
            strategy[key] = factory_of(key)
    return strategy

def run_lg_trace(case, ctx):
    import cuqi
    from cuqi.distribution import JointDistribution
    ref, target_fn, _ = build_model(case)
    rs = core.np_rng(ctx.seed, PROPERTY, core.canon(case))
    stream_seed = int(rs.randint(2 ** 31 - 1))
    kinds = {k: v[0] for k, v in case["samplers"].items()}
    raw = []
    state = {"sweep": -1, "probe_rs": None}
    keys = case.get("strategy_keys") or list(case["samplers"])
    later_members = set(m for k in keys if isinstance(k, list) for m in k[1:])
    grouped = set(m for k in keys if isinstance(k, list) for m in k)

    def recording_factory(block):
        kind, params = case["samplers"][block]
        real_factory = legacy_factory(kind, params)
        def factory(target):
            real = real_factory(target)
            class Proxy:
                def step(self_p, x=None):
                    ev = {"k": "step", "block": block, "before": _arr(x), "target": target}
                    p1 = ev["before"]; p2 = _probe(p1, block in ref.positive, state["probe_rs"])
                    k_, val = core.outcome(_logd_diff, target, p1, p2)
                    ev["probe"] = (p1, p2, val[0], val[1]) if k_ == "value" else None
                    zero_noise = kind in ("LinearRTO", "DirectLike") and state["sweep"] % 3 == 2
                    if kind == "Conjugate":
                        with GammaSpy() as spy:
                            out = real.step(x)
                        ev["readoff"] = ("gamma", list(spy.calls))
                    elif zero_noise:
                        with rngscript.Scripted(normal=rngscript.zeros_provider(), record=False):
                            out = real.step(x)
                        ev["readoff"] = ("gauss_mean",)
                    else:
                        out = real.step(x)
                    ev["after"] = _arr(out)
                    raw.append(ev)
                    return out
            return Proxy()
        return factory

    init = initial_state(ref, case, rs)
    Nb, N1, N2 = case["sched"]

    def drive(spelling_keys, judge):
        """One complete history (construction, sample(N1, Nb), sample(N2)) under the library random stream `stream_seed`.
        judge=True: every sweep goes through the sequential-scan checker; returns the arrays returned by the calls."""
        state["sweep"] = -1
        state["probe_rs"] = core.np_rng("probe", core.canon(case))
        del raw[:]
        returned = []
        clog = contracts.ContractLog()
        def post(self, args, kwargs, result, snap):
            raw.append({"k": "cond", "self": self, "kwargs": snap, "result": result})
            return True
        strategy = legacy_strategy(spelling_keys, recording_factory)
        with contracts.ensure(JointDistribution, "__call__", post, clog, snapshot=_call_snapshot):
            k_, G = core.outcome(cuqi.sampler.Gibbs, target_fn(), strategy)
            if k_ != "value":
                if judge:
                    ctx.refused("Gibbs construction", G); ctx.count("refused_configurations")
                return None, None
            names = list(G.par_names)
            # the legacy sampler starts from init_point attributes or ones; put an interior start on the densities it reads
            start = {}
            for k in names:
                try:
                    G.target.get_density(k).init_point = np.array(init[k], copy=True)
                    start[k] = init[k]
                except Exception:  # noqa
                    start[k] = np.ones(ref.dims[k])
            checker = SweepChecker(ctx, case, ref, names, {k: 1 for k in names}, kinds, start) if judge else None
            orig_step = G.step
            pending = {"phase": "warmup", "first": None}
            def gstep(current_samples):
                state["sweep"] += 1
                if pending["first"] is None:
                    pending["first"] = {k: _arr(current_samples[k]) for k in names}
                del raw[:]
                out = orig_step(current_samples)
                if judge:
                    evs = [e for e in raw if e["k"] == "step" or (e["self"] is G.target)]
                    checker.check_sweep(state["sweep"], pending["phase"], evs, {k: _arr(out[k]) for k in names})
                    for e in evs:                  # updates of later members of a tuple key (the spelling axis)
                        if e["k"] == "step" and e["block"] in later_members:
                            ctx.count("tuple_member_updates_checked")
                        elif e["k"] == "step" and e["block"] in grouped:
                            ctx.count("tuple_first_member_updates_checked")
                del raw[:]
                return out
            G.step = gstep
            np.random.seed(stream_seed)
            for ci, (Ns, Nb_) in enumerate([(N1, Nb), (N2, 0)]):
                if Ns == 0:
                    continue
                pending["first"] = None
                pending["phase"] = "call%d" % ci
                n_hist = len(checker.history) if judge else 0
                expected_start = {k: v.copy() for k, v in checker.cur.items()} if judge else None
                k_, out = core.outcome(G.sample, Ns, Nb_)
                if not judge:
                    if k_ != "value":
                        return None, None
                    returned.append({k: np.array(out[k].samples, copy=True) for k in names})
                    continue
                if k_ == "refused" and checker.sweeps_checked == 0:
                    # the legacy driver builds its block samplers lazily: an incompatible assignment is refused in the first sweep
                    ctx.refused("sample mid-run", out); ctx.count("refused_mid_run"); ctx.note("mid_run_refusal", repr(out)); return None, checker
                if k_ != "value":
                    ctx.violation("failure_mid_run", _cfg(case, exc=type(out).__name__, call=ci, samplers="/".join(kinds[k] for k in names)),
                                  f"sample({Ns},{Nb_}) raised {out!r} after {checker.sweeps_checked} checked sweeps; blocks {kinds}"); return None, checker
                returned.append({k: np.array(out[k].samples, copy=True) for k in names})
                if len(checker.history) - n_hist != Ns + Nb_:
                    ctx.violation("sweep_count", _cfg(case), f"sample({Ns},{Nb_}) performed {len(checker.history) - n_hist} sweeps")
                # continuation / start: the dict handed to the first sweep of this call
                if pending["first"] is not None:
                    ctx.count("continuation_checked")
                    for k in names:
                        if not np.array_equal(pending["first"][k], expected_start[k]):
                            ctx.violation("continuation_start", _cfg(case, call=ci, sampler=kinds[k]),
                                          f"call {ci}: sweep started from {k}={pending['first'][k].tolist()}, last stored/initial value {expected_start[k].tolist()}")
                # returned arrays: all sampling sweeps so far (warm-up sweeps live in samples_warmup)
                hist = checker.history
                samp_hist = hist[Nb:] if Nb else hist
                for k in names:
                    ctx.count("returned_samples_checked")
                    arr = np.asarray(out[k].samples)
                    want = np.array([h[k] for h in samp_hist]).T
                    ctx.count("stored_sweeps_checked", want.shape[1] if want.ndim == 2 else 0)
                    if arr.shape != want.shape or not np.array_equal(arr, want):
                        bad = "shape" if arr.shape != want.shape else str(np.argwhere(~np.all(arr == want, axis=0)).ravel()[:5].tolist())
                        ctx.violation("stored_sample_mismatch", _cfg(case, sampler=kinds[k], call=ci),
                                      f"call {ci}: returned samples of {k} {arr.shape} differ from the values after each sweep {want.shape} at columns {bad}")
                    if Nb and ci == 0:
                        w = np.asarray(G.samples_warmup[k]); wwant = np.array([h[k] for h in hist[:Nb]]).T
                        if w.shape != wwant.shape or not np.array_equal(w, wwant):
                            ctx.violation("stored_sample_mismatch", _cfg(case, sampler=kinds[k], call=ci, part="warmup"),
                                          f"warm-up samples of {k} differ from the values after each warm-up sweep")
        if judge:
            ctx.count("contract_evaluations", clog.evaluations.get("JointDistribution.__call__", 0))
        return returned, checker

    returned, checker = drive(keys, True)
    if checker is None:
        return
    # spelling axis: the same strategy written with one string key per block must give the identical chain under the same stream
    if returned and grouped and len(returned) == sum(1 for n_ in (N1, N2) if n_):
        plain, _ = drive(sorted(case["samplers"]), False)
        if plain is not None and len(plain) == len(returned):
            ctx.count("spelling_equivalence_checked")
            for ci, (a, b) in enumerate(zip(returned, plain)):
                for k in a:
                    if a[k].shape != b[k].shape or not np.array_equal(a[k], b[k]):
                        col = "shape" if a[k].shape != b[k].shape else int(np.argwhere(~np.all(a[k] == b[k], axis=0)).ravel()[0])
                        ctx.violation("tuple_key_changes_chain", _cfg(case, sampler=kinds[k], member="later" if k in later_members else "first" if k in grouped else "other"),
                                      f"strategy keys {keys}: samples of {k} returned by call {ci} differ from the run with one string key per block "
                                      f"under the same random stream (first differing column {col})")
                        break
    ctx.note("blocks", kinds)
    ctx.note("strategy_keys", keys)
    ctx.note("sweeps_checked", checker.sweeps_checked)
    ctx.note("max_normalised_discrepancies", checker.max_err)
    if checker.sweeps_checked >= 2:
        ctx.nontrivial("lg_trace:" + case["family"] + ":" + case.get("spelling", "string") + ":" + "/".join(sorted(set(kinds.values()))))

# =============================================================================== law cases (second line)

def _law_replicates(case, ctx, K, rs):
    """K exact joint draws -> `sweeps` Gibbs sweeps each -> list of joint states (with data where observed)."""
    import cuqi
    ref, target_fn, y_fixed = build_model(case)
    hg = case["kind"] == "hg_law"
    sweeps = case["sweeps"]
    data_names = ["y"] if (case["family"] == "hier" and case["data"] == "observed") else list(getattr(ref, "data_names", []))
    geweke = bool(data_names)      # data observed: draw (parameters, data) jointly, condition on that data, sweep, test the joint law
    states, failures = [], 0
    lg_keys = case.get("strategy_keys") or list(case["samplers"])
    G_legacy = None
    if not hg and not geweke:
        G_legacy = cuqi.sampler.Gibbs(target_fn(), legacy_strategy(lg_keys, lambda b: legacy_factory(*case["samplers"][b]), direct=True))
    for r in range(K):
        v = ref.draw(rs)
        start = {k: _arr(v[k]) for k in ref.names}
        target = target_fn({k: v[k] for k in data_names}) if geweke else target_fn()
        try:
            if hg:
                strategy = {k: make_exp_sampler(s[0], s[1], start[k]) for k, s in case["samplers"].items()}
                G = cuqi.experimental.mcmc.HybridGibbs(target, strategy, dict(case["nss"]))
                G.sample(sweeps)
                out = {k: _arr(G.current_samples[k]) for k in ref.names}
                last = {k: _arr(G.samples[k][-1]) for k in ref.names}
                if any(not np.array_equal(out[k], last[k]) for k in ref.names):
                    ctx.violation("stored_sample_mismatch", _cfg(case, phase="law"), "last stored sample differs from current_samples")
            else:
                G = G_legacy if G_legacy is not None else cuqi.sampler.Gibbs(
                    target, legacy_strategy(lg_keys, lambda b: legacy_factory(*case["samplers"][b]), direct=True))
                cur = {k: start[k].copy() for k in ref.names}
                for _ in range(sweeps):
                    cur = G.step(cur)
                out = {k: _arr(cur[k]) for k in ref.names}
        except core.REFUSAL_TYPES as e:
            failures += 1
            if failures > max(3, K // 50):
                raise
            ctx.refused("law replicate", e)
            continue
        for k in v:
            if k not in out:
                out[k] = _arr(v[k])
        states.append(out)
    return ref, states

def run_law(case, ctx):
    rs = core.np_rng(ctx.seed, PROPERTY, core.canon(case), "law")
    np.random.seed(rs.randint(2 ** 31 - 1))
    K = case["K"]
    kinds = {k: v[0] for k, v in case["samplers"].items()}
    try:
        ref, states = _law_replicates(case, ctx, K, rs)
    except core.REFUSAL_TYPES as e:
        where, loc = core.deepest_origin(e.__traceback__)
        if where == "verif":
            raise
        ctx.refused("law configuration", e); ctx.count("refused_configurations"); ctx.note("refusal", repr(e))
        return
    if len(states) != K:          # dropping failed replicates would condition the law on "no failure": do not judge
        ctx.inconclusive(f"only {len(states)}/{K} replicates ran"); return
    stats1 = R.law_statistics(ref.pivots(states), ref.pairs)
    ctx.count("law_statistics_checked", len(stats1))
    ctx.count("law_replicates", len(states))
    ctx.note("min_p_stage1", min(p for _, p, _ in stats1))
    ctx.note("blocks", kinds)
    failing = [(n, p, d) for n, p, d in stats1 if p < P_THRESHOLD]
    if failing:
        ctx.count("law_stage2_runs")
        rs2 = core.np_rng(ctx.seed, PROPERTY, core.canon(case), "law-stage2")
        np.random.seed(rs2.randint(2 ** 31 - 1))
        ref, states2 = _law_replicates(case, ctx, 4 * K, rs2)
        stats2 = {n: (p, d) for n, p, d in R.law_statistics(ref.pivots(states2), ref.pairs)}
        confirmed = [(n, p, stats2[n][0]) for n, p, d in failing if n in stats2 and stats2[n][0] < P_THRESHOLD and stats2[n][1] == d]
        if confirmed:
            n, p1, p2 = min(confirmed, key=lambda t: t[2])
            ctx.violation("joint_law_not_invariant", _cfg(case, samplers="/".join(kinds[k] for k in ref.names)),
                          f"{case['sweeps']} sweep(s) from exact joint draws: statistic {n} rejected with p={p1:.3g} (K={len(states)}) and again "
                          f"p={p2:.3g} (K={len(states2)}, fresh randomness); all confirmed: {[c[0] for c in confirmed][:8]}; "
                          f"blocks {kinds}, steps {case.get('nss')}")
        else:
            ctx.count("law_stage1_not_confirmed")
    ctx.nontrivial(case["kind"] + ":" + case["family"] + ":" + "/".join(sorted(set(kinds.values()))))

# =============================================================================== entry points

def run_case(case, ctx):
    kind = case["kind"]
    if kind == "hg_trace":
        run_hg_trace(case, ctx)
    elif kind == "lg_trace":
        run_lg_trace(case, ctx)
    else:
        run_law(case, ctx)

def selftest(ctx):
    for msg in R.selftest():
        ctx.inconclusive("reference self-test: " + msg)
