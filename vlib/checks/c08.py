"""C08 - the No-U-Turn sampler leaves its target invariant.

Workload: harness-owned recording targets (Gaussian dims 1-5 incl. ill-conditioned, logistic / Gumbel
products, banana, a constant target for exact slice ties, Gaussians with a NaN / -inf half space) driven
through both implementations (cuqi.sampler.NUTS, cuqi.experimental.mcmc.NUTS) with step sizes from tiny to
unstable, max_depth 0..5, multi-transition histories, with and without warm-up, under an interposed
random stream (vlib.rngscript.Scripted).

Monitors
 M1 integrator   every observed leaf evaluation must be the one-step leapfrog image of its predecessor on
                 the orbit of (x_before, r0, eps) where r0 is the recorded momentum draw, the gradient at
                 x_before is a *fresh* evaluation (so a stale cache shows) and eps is the reported step size;
                 two transitions started at different points of one orbit must retrace each other
                 (time reversibility observed through the real code); the finite-difference Jacobian of the
                 observed L-step flow (perturbed starts/momenta) must be symplectic with det 1.
 M2 stop/slice   the reference Hoffman-Gelman tree (vlib/refs/c08_nuts.py) over the observed orbit with the
                 recorded slice variable says exactly how many leaves are evaluated and in which order
                 (sub-tree U-turn, divergence, whole-tree U-turn, depth); the returned state must have
                 non-zero probability under the exact conditional law given the observed directions
                 (in the slice, from a doubling that completed with s'=1, finite, not superseded by a
                 certain acceptance); with the recorded uniforms consumed in the paper's order the
                 selection is replayed exactly; cached logd/grad == fresh evaluation; acceptance
                 statistic == mean min(1, exp(H'-H0)) over the leaves of the last doubling.
 M5 real targets the same monitors on library targets (DistributionGallery banana/squiggle/funnel/donut/CalSom91/
                 mixture, Gaussian in its cov/prec/sqrtcov forms with scalar/vector/diag/full parameters given as
                 float/int arrays, lists, 1-element arrays, Fortran order, GMRF, linear-Gaussian Posterior) behind a
                 recording pass-through (instance re-classed to a subclass overriding logd/gradient): every array
                 handed to the target must be bitwise unchanged after the call, every value/gradient must equal an
                 independent numpy implementation (or gradients + log-density differences; fresh values otherwise
                 from a deep-copied twin on a copy of the point), the caller's initial-point array and the states
                 reported through the callback must not change afterwards.
 M3 exact law    r0 and the slice variable fixed, uniforms random: frequencies of the selected orbit index
                 over many repetitions vs the law from enumerating all direction sequences (chi^2, two-stage).
 M4 stationarity K exact draws -> k transitions (fixed eps, or the eps produced by the library's warm-up)
                 -> Rosenblatt transform to N(0,1)^d -> KS / mean / variance / radius / correlation tests
                 (two-stage, p < 1e-7 twice in the same direction).
"""
import math
import os
import numpy as np
from vlib import core
from vlib.rngscript import Scripted
from vlib.refs import c08_nuts as R
from vlib.refs import c08_targets as TG

PROPERTY = "C08"
RULE = ("seeded sampling of (monitor kind, implementation, target family/dimension 1..12/conditioning, step-size factor "
        "relative to the smallest length scale 0.02..6, max_depth 0..9 and the default, initial point (target draw, tail, ones, "
        "integer-typed) and its representation (float64/float32/CUQIarray), return types of logd/gradient, burn-in, split "
        "sampling calls, slice-variable script, warm-up settings (adaptive/non-adaptive, tuning frequency, target rate)); a trace case is non-trivial when at least one transition with >=2 doublings was "
        "walked leaf by leaf and judged; a law case when >=3 outcome cells with expected count >=5 were compared "
        "and some sub-tree had unequal weights; a stationarity case when all K replicates moved through the "
        "real kernel and the test battery was evaluated; distinct = distinct descriptors (+ stop-reason sub-keys)")
ASSUMPTIONS = [
    "library targets: the independent implementations follow the documented Gaussian forms (sqrtcov symmetric, so the "
    "R^T R / R R^T convention of known finding C04 does not matter) and the gallery's constants as written in its source",
    "the deterministic selection replay assumes the uniform draws are consumed in the order of Hoffman & Gelman's "
    "pseudo code (direction; sub-sampling draw after both halves; top-level acceptance only when s'=1); when the "
    "number of draws or a direction does not fit, the replay is skipped and the draw-order-free monitors decide",
    "legacy sampler: the acceptance statistic is only observable through the dual-averaging recursion of the paper "
    "(gamma=0.05, t0=10, kappa=0.75, mu=log(10 eps_1)), which is inverted from the reported step sizes",
    "non-finite log-density at a leaf counts as a divergence (n'=0, s'=0)",
]
REQUIRED_COUNTERS = {
    "quick": {"leaves_matched": 7000, "transitions_judged": 1100, "selection_replayed": 1100, "selection_support_checked": 1100,
              "stop_maxdepth": 300, "stop_uturn_subtree": 120, "stop_uturn_top": 400, "stop_divergence": 150,
              "cache_checked": 1000, "alpha_stat_checked": 600, "tie_transitions_judged": 20, "hostile_leaves_seen": 40,
              "law_reps": 64000, "law_cells_compared": 70, "stationarity_tests": 130,
              "stationarity_replicates": 240000, "reversibility_points_compared": 16,
              "volume_jacobians_checked": 6, "warmup_eps_constant_checked": 12, "returned_chain_checked": 100,
              "target_calls_args_checked": 4000, "target_values_checked": 4000, "caller_arrays_unchanged_checked": 1400},
    "thorough": {"leaves_matched": 60000, "transitions_judged": 9000, "selection_replayed": 9000, "selection_support_checked": 9000,
                 "stop_maxdepth": 2500, "stop_uturn_subtree": 1000, "stop_uturn_top": 3500, "stop_divergence": 1200,
                 "cache_checked": 8000, "alpha_stat_checked": 5000, "tie_transitions_judged": 90, "hostile_leaves_seen": 250,
                 "law_reps": 1000000, "law_cells_compared": 280, "stationarity_tests": 190,
                 "stationarity_replicates": 2800000, "reversibility_points_compared": 180,
                 "volume_jacobians_checked": 40, "warmup_eps_constant_checked": 60, "returned_chain_checked": 900,
                 "target_calls_args_checked": 30000, "target_values_checked": 30000, "caller_arrays_unchanged_checked": 10000},
}
BUDGET_S = {"quick": 1500.0, "thorough": 7000.0}   # generous: the cases themselves bound the cost; a loaded machine must not skip them

IMPLS = ("legacy", "exp")
P_STAGE = 1e-7
AMBIG = 1e-9

# ----------------------------------------------------------------------------------------- case generation

_TSPECS = [
    {"tk": "gauss", "dim": 1}, {"tk": "gauss", "dim": 2, "cond": 10}, {"tk": "gauss", "dim": 3, "cond": 100},
    {"tk": "gauss", "dim": 5, "cond": 1000}, {"tk": "gauss", "dim": 4, "cond": 1}, {"tk": "gauss", "dim": 2, "cond": 400},
    {"tk": "logistic", "dim": 1}, {"tk": "logistic", "dim": 3}, {"tk": "gumbel", "dim": 2}, {"tk": "gumbel", "dim": 1},
    {"tk": "banana", "dim": 2}, {"tk": "gauss", "dim": 12, "cond": 20},
]
_FACTORS = [0.02, 0.1, 0.3, 0.7, 1.2, 1.8, 2.5, 6.0]


def _reps(rnd):
    """How values cross the boundary between harness and library (all accepted by the unchanged tree)."""
    return {"xrep": rnd.choice(["f64", "f64", "f32", "cuqi", "ro", "strided"]), "lrep": rnd.choice(["float", "float", "np0d", "arr1", "cuqi"]),
            "grep": rnd.choice(["nd", "nd", "cuqi"])}


def _lib_spec(rnd, proper_only=False):
    """A real library target: gallery density, Gaussian parameter form, GMRF, small linear-Gaussian posterior."""
    u = rnd.random()
    gal = ["squiggle", "banana", "funnel"] if proper_only else ["squiggle", "banana", "funnel", "donut", "CalSom91", "mixture"]
    if u < 0.3:
        return {"tk": "lib", "lib": "gallery", "name": rnd.choice(gal), "dim": 2, "tseed": rnd.randrange(10 ** 6)}
    if u < 0.7:
        return dict(_gauss_form(rnd), tk="lib", lib="gauss", tseed=rnd.randrange(10 ** 6))
    if u < 0.82:
        bc = "zero"      # periodic / neumann GMRFs are improper and their log-det is a known finding of C20/C04 (can be NaN)
        N = rnd.choice([4, 5, 6, 7])
        return {"tk": "lib", "lib": "gmrf", "N": N, "dim": N, "bc": bc, "order": rnd.choice([1, 2]),
                "ptype": rnd.choice(["pyfloat", "pyint", "one"]), "mtype": rnd.choice(["arr", "scalar"]), "tseed": rnd.randrange(10 ** 6)}
    n = rnd.choice([2, 3, 4])
    prior = _gauss_form(rnd, dim=n)
    noise = rnd.choice(["scalar", "vector"])
    ntype = rnd.choice(["pyint", "pyfloat", "one"]) if noise == "scalar" else rnd.choice(["f64", "int", "list", "intlist"])
    return {"tk": "lib", "lib": "posterior", "n": n, "dim": n, "m": rnd.choice([2, 3, 5]), "prior": prior,
            "form": prior["form"], "shape": prior["shape"], "ptype": prior["ptype"],
            "noise": noise, "ntype": ntype, "Aorder": rnd.choice(["C", "F"]), "tseed": rnd.randrange(10 ** 6)}


def _gauss_form(rnd, dim=None):
    d = dim or rnd.choice([1, 2, 3, 4])
    form = rnd.choice(["cov", "cov", "prec", "sqrtcov"])          # sqrtprec has no gradient (documented refusal)
    shape = rnd.choice(["scalar", "vector", "vector", "diag", "full"] if d > 1 else ["scalar", "vector"])
    if form == "prec" and shape == "scalar" and d > 1:
        shape = "vector"                                           # scalar prec with dim > 1 is refused (ValueError)
    ptype = rnd.choice(["pyint", "pyfloat", "one"]) if shape == "scalar" else \
        rnd.choice(["f64", "int", "list", "intlist"] + (["fortran"] if shape in ("diag", "full") else []))
    return {"dim": d, "form": form, "shape": shape, "ptype": ptype, "mtype": rnd.choice(["scalar", "list", "intarr", "arr"])}


def _tspec(rnd, pool=None):
    s = dict(rnd.choice(pool or _TSPECS))
    s["tseed"] = rnd.randrange(10 ** 6)
    return s


def cases(tier, seed):
    rnd = core.rng_for(seed, PROPERTY, tier)
    quick = tier == "quick"
    out_stat, out_law, out_rest = [], [], []

    # ---- M4 stationarity
    K = 20000 if quick else 160000
    n_stat = 32 if quick else 48
    stat_targets = [{"tk": "gauss", "dim": 1}, {"tk": "gauss", "dim": 3, "cond": 100}, {"tk": "gauss", "dim": 2, "cond": 10},
                    {"tk": "logistic", "dim": 2}, {"tk": "gumbel", "dim": 2}, {"tk": "banana", "dim": 2},
                    {"tk": "gauss_neginf", "dim": 2, "cond": 4, "cut": 0.5}, {"tk": "gauss", "dim": 5, "cond": 30}]
    # (max_depth, k) combinations bounded by k * (2^(max_depth+1) - 1) leaves per replicate (cost)
    combos = [(0, 1), (0, 2), (0, 5), (1, 1), (1, 2), (1, 5), (2, 1), (2, 2), (3, 1), (4, 1)]
    for i in range(n_stat):
        ts = dict(stat_targets[i % len(stat_targets)]); ts["tseed"] = rnd.randrange(10 ** 6)
        impl = IMPLS[(i // len(stat_targets) + i) % 2]
        warm = ((i + i // len(stat_targets)) % 4 == 3)
        md, k = combos[(i * 7 + rnd.randrange(3)) % len(combos)]
        out_stat.append({"kind": "stat", "impl": impl, "target": ts, "f": rnd.choice([0.3, 0.7, 1.2, 1.7, 3.0]),
                         "max_depth": md, "k": k, "K": (K // 2 if md >= 4 else K),
                         "warm": ({"Nb": rnd.choice([30, 60, 120])} if warm else None), "sseed": rnd.randrange(10 ** 6)})

    Kl = 8000 if quick else 50000
    for i in range(16 if quick else 32):
        md, k = combos[(i * 3 + rnd.randrange(3)) % 7]
        out_stat.append({"kind": "stat", "impl": IMPLS[i % 2], "target": _lib_spec(rnd, proper_only=True), "f": rnd.choice([0.5, 1.0, 1.5]),
                         "max_depth": md, "k": k, "K": Kl, "warm": ({"Nb": 40} if i % 5 == 4 else None), "sseed": rnd.randrange(10 ** 6)})

    # ---- M3 exact conditional law
    n_law = 32 if quick else 128
    reps = 5000 if quick else 20000
    for i in range(n_law):
        ts = _tspec(rnd, [t for t in _TSPECS if t["dim"] <= 3])
        out_law.append({"kind": "law", "impl": IMPLS[i % 2], "target": ts, "f": rnd.choice([0.3, 0.7, 1.2, 1.6, 1.9]),
                        "max_depth": rnd.choice([1, 2, 2, 3, 3, 4]), "emode": rnd.choice(["mid", "mid", "rand", "low"]),
                        "reps": reps, "sseed": rnd.randrange(10 ** 6)})
    for i in range(8 if quick else 32):
        out_law.append({"kind": "law", "impl": IMPLS[i % 2], "target": _lib_spec(rnd, proper_only=True), "f": rnd.choice([0.7, 1.2, 1.6]),
                        "max_depth": rnd.choice([2, 3]), "emode": rnd.choice(["mid", "rand"]), "reps": reps // 2, "sseed": rnd.randrange(10 ** 6)})

    # ---- M1/M2 traces
    n_trace = 240 if quick else 2200
    for i in range(n_trace):
        md = rnd.choice([0, 1, 2, 3, 4, 5, 5, 7, None])
        out_rest.append({"kind": "trace", "impl": IMPLS[i % 2], "target": _tspec(rnd),
                         "f": rnd.choice(_FACTORS if md is not None else [0.3, 0.7, 1.2, 1.8, 2.5]),
                         "max_depth": md, "T": 8, "burn": rnd.choice([0, 0, 3]), "split": rnd.choice([False, True]), "init": rnd.choice(["draw", "draw", "tail", "ones", "int"]),
                         "reps": _reps(rnd),
                         "emode": rnd.choice(["rand", "rand", "small", "big"]), "sseed": rnd.randrange(10 ** 6)})
    n_deep = 16 if quick else 120        # deep trees (sub-tree U-turns at depth >= 6)
    for i in range(n_deep):
        out_rest.append({"kind": "trace", "impl": IMPLS[i % 2],
                         "target": _tspec(rnd, [{"tk": "gauss", "dim": 2, "cond": 10}, {"tk": "gauss", "dim": 3, "cond": 100}, {"tk": "logistic", "dim": 3}]),
                         "f": rnd.choice([0.03, 0.06, 0.1]), "max_depth": rnd.choice([None, 8, 9]), "T": 3, "burn": 0, "split": False,
                         "init": "draw", "reps": _reps(rnd), "emode": rnd.choice(["rand", "big"]), "sseed": rnd.randrange(10 ** 6)})
    n_lib = 90 if quick else 700        # real library targets behind recording pass-throughs
    for i in range(n_lib):
        md = rnd.choice([1, 2, 3, 4, 5, None])
        out_rest.append({"kind": "trace", "impl": IMPLS[i % 2], "target": _lib_spec(rnd),
                         "f": rnd.choice([0.1, 0.3, 0.7, 1.2, 1.8] if md is not None else [0.3, 0.7, 1.2]),
                         "max_depth": md, "T": 6, "burn": rnd.choice([0, 0, 2]), "split": rnd.choice([False, True]),
                         "init": rnd.choice(["draw", "draw", "ones", "int"]), "reps": {"xrep": rnd.choice(["f64", "f64", "cuqi", "ro", "strided"])},   # no float32: the library then computes in float32
                         "emode": rnd.choice(["rand", "rand", "big"]), "sseed": rnd.randrange(10 ** 6)})
    n_lib_adapt = 12 if quick else 80
    for i in range(n_lib_adapt):
        out_rest.append({"kind": "trace_adapt", "impl": IMPLS[i % 2], "target": _lib_spec(rnd, proper_only=True),
                         "max_depth": rnd.choice([2, 3, 4]), "Nb": rnd.choice([8, 15]), "Ns": 5,
                         "tune": rnd.choice(["each", "default"]), "eps0": None, "amode": rnd.choice(["adapt", "adapt", "noadapt"]),
                         "delta": rnd.choice([0.6, 0.8]), "init": rnd.choice(["draw", "ones"]), "reps": {"xrep": rnd.choice(["f64", "ro"])},
                         "sseed": rnd.randrange(10 ** 6)})
    n_adapt = 24 if quick else 160
    for i in range(n_adapt):
        out_rest.append({"kind": "trace_adapt", "impl": IMPLS[i % 2], "target": _tspec(rnd),
                         "max_depth": rnd.choice([2, 3, 4, 5]), "Nb": rnd.choice([8, 15, 25]), "Ns": 6,
                         "tune": rnd.choice(["each", "default"]), "eps0": rnd.choice([None, None, 0.5]),
                         "amode": rnd.choice(["adapt", "adapt", "noadapt"]), "delta": rnd.choice([0.6, 0.8]),
                         "init": rnd.choice(["draw", "ones", "int"]), "reps": _reps(rnd), "sseed": rnd.randrange(10 ** 6)})
    n_tie = 12 if quick else 60
    for i in range(n_tie):
        out_rest.append({"kind": "tie", "impl": IMPLS[i % 2], "target": {"tk": "flat", "dim": rnd.choice([1, 2, 3]), "tseed": rnd.randrange(10 ** 6)},
                         "f": rnd.choice([0.1, 0.9, 3.0]), "max_depth": rnd.choice([0, 1, 2, 3]), "T": 4, "sseed": rnd.randrange(10 ** 6)})
    n_host = 24 if quick else 160
    for i in range(n_host):
        tk = ("gauss_nan", "gauss_neginf")[(i // 2) % 2]
        out_rest.append({"kind": "hostile", "impl": IMPLS[i % 2],
                         "target": {"tk": tk, "dim": rnd.choice([1, 2, 3]), "cond": rnd.choice([1, 10]), "cut": rnd.choice([0.0, 0.8]),
                                    "tseed": rnd.randrange(10 ** 6)},
                         "f": rnd.choice([0.3, 0.7, 1.2]), "max_depth": rnd.choice([1, 2, 3, 4]), "T": 10, "reps": _reps(rnd), "sseed": rnd.randrange(10 ** 6)})
    n_rev = 16 if quick else 100
    for i in range(n_rev):
        out_rest.append({"kind": "reverse", "impl": IMPLS[i % 2], "target": _tspec(rnd), "f": rnd.choice([0.1, 0.3, 0.7, 1.0]),
                         "max_depth": rnd.choice([2, 3, 4]), "sseed": rnd.randrange(10 ** 6)})
    n_vol = 16 if quick else 100
    for i in range(n_vol):
        out_rest.append({"kind": "volume", "impl": IMPLS[i % 2], "target": _tspec(rnd, [t for t in _TSPECS if t["dim"] <= 3]),
                         "f": rnd.choice([0.1, 0.3, 0.6]), "L": rnd.choice([1, 2, 3, 5]), "sseed": rnd.randrange(10 ** 6)})
    rnd.shuffle(out_rest)
    # expensive cases first, in serpentine order of estimated cost, so that the modulo sharding (16 workers) balances them
    out_stat.sort(key=lambda c: (-c["K"] * c["k"] * (2 ** (c["max_depth"] + 1) - 1), c["sseed"]))
    out_law.sort(key=lambda c: (-(2 ** (c["max_depth"] + 1)), c["sseed"]))
    for lst in (out_stat, out_law):
        for a in range(16, len(lst), 32):
            lst[a:a + 16] = lst[a:a + 16][::-1]
    allc = out_stat + out_law + out_rest
    only = os.environ.get("VERIF_C08_KINDS")      # development knob (mutation runs): restrict to some case kinds
    if only:
        allc = [c for c in allc if c["kind"] in only.split(",")]
    return allc


def crash_config(case):
    t = case.get("target", {})
    return {"kind": case.get("kind"), "impl": case.get("impl"), "tk": t.get("tk") if t.get("tk") != "lib" else "lib_" + str(t.get("lib"))}


def _cfg(case, **kw):
    t = case["target"]
    c = {"kind": case["kind"], "impl": case["impl"], "tk": t["tk"] if t["tk"] != "lib" else "lib_" + t["lib"]}
    if t["tk"] == "lib":
        for k in ("name", "form", "shape", "ptype", "mtype", "order", "noise", "ntype"):
            if t.get(k) is not None:
                c[k] = t[k]
    c.update(kw)
    return c

# ----------------------------------------------------------------------------------------- driving the real code

_NORMAL = ("randn", "standard_normal", "normal")
_UNIFORM = ("rand", "uniform", "random", "random_sample")


class Rec:
    """Recording proxy: the callables handed to UserDefinedDistribution. `reps` chooses how values are handed
    back to the library (python float / 0-d array / length-1 array / CUQIarray; ndarray / CUQIarray gradient)."""
    def __init__(self, tgt, record=True, reps=None):
        self.t, self.events, self.record = tgt, [], record
        self.arg_changes = []
        reps = reps or {}
        self.lrep, self.grep = reps.get("lrep", "float"), reps.get("grep", "nd")
        self.cuqi = None

    def logpdf(self, x):
        v = self.t.logd(np.asarray(x, dtype=float))
        if self.record:
            self.events.append(("L", np.array(x, dtype=float, copy=True), v))
        if self.lrep == "np0d":
            return np.array(v)
        if self.lrep == "arr1":
            return np.array([v])
        if self.lrep == "cuqi":
            return self.cuqi.array.CUQIarray(np.array([v]), geometry=self.cuqi.geometry.Discrete(1))
        return v

    def gradient(self, x):
        g = self.t.grad(np.asarray(x, dtype=float))
        if self.record:
            self.events.append(("G", np.array(x, dtype=float, copy=True), np.array(g, dtype=float, copy=True)))
        if self.grep == "cuqi":
            return self.cuqi.array.CUQIarray(np.array(g, dtype=float), geometry=self.cuqi.geometry.Continuous1D(self.t.dim))
        return g


# ----------------------------------------------------------------------------------------- real library targets

def _conv(M, ptype):
    """A parameter value in the container / dtype asked for by the case (whole numbers, so integer types are exact)."""
    M = np.asarray(M)
    if ptype == "f64":
        return np.array(M, dtype=float)
    if ptype == "int":
        return np.array(np.rint(M), dtype=np.int64)
    if ptype == "list":
        return np.array(M, dtype=float).tolist()
    if ptype == "intlist":
        return np.array(np.rint(M), dtype=np.int64).tolist()
    if ptype == "one":
        return np.array([float(M)])
    if ptype == "pyint":
        return int(M)
    if ptype == "pyfloat":
        return float(M)
    if ptype == "fortran":
        return np.asfortranarray(np.array(M, dtype=float))
    raise ValueError(ptype)


def _lib_gauss(spec, rs, name="x"):
    """cuqi.distribution.Gaussian in one of its parameter forms + the (mean, covariance) it documents."""
    import cuqi
    d, form, shape = spec["dim"], spec["form"], spec["shape"]
    if shape == "scalar":
        v = float(rs.choice([1, 2, 4, 9])); M = v * np.eye(d); val = v
    elif shape == "vector":
        vv = rs.choice([1, 2, 4, 9, 16], size=d).astype(float); M = np.diag(vv); val = vv
    elif shape == "diag":
        vv = rs.choice([1, 2, 4, 9, 16], size=d).astype(float); M = np.diag(vv); val = M
    else:
        B = rs.randint(-2, 3, size=(d, d)).astype(float); M = B @ B.T + float(rs.choice([1, 2, 3])) * np.eye(d); val = M
    if form == "cov":
        Sigma = M
    elif form == "prec":
        Sigma = np.linalg.inv(M)
    else:                                 # sqrtcov: standard deviations / symmetric square root factor
        Sigma = M.T @ M
    mt = spec["mtype"]
    if mt == "scalar":
        mu = np.full(d, float(rs.choice([0, 2, -1]))); mean = float(mu[0]) if rs.random_sample() < 0.5 else int(mu[0])
    elif mt == "list":
        mu = rs.randint(-3, 4, d).astype(float); mean = mu.tolist()
    elif mt == "intarr":
        mu = rs.randint(-3, 4, d).astype(float); mean = mu.astype(np.int64)
    else:
        mu = np.round(rs.standard_normal(d), 2); mean = mu.copy()
    kw = {form: _conv(val, spec["ptype"])}
    if mt == "scalar" and shape == "scalar":
        kw["geometry"] = d
    return cuqi.distribution.Gaussian(mean, name=name, **kw), mu, Sigma


class QuadForm(TG._Base):
    """-1/2 (x-mu)^T P (x-mu), P possibly singular (un-normalised reference: gradients and differences only)."""
    def __init__(self, mu, P):
        self.mu, self.P = np.asarray(mu, float), np.asarray(P, float)
        self.dim = self.mu.size
        self.sigma_min = 1.0 / math.sqrt(float(np.linalg.eigvalsh(self.P).max()))

    def logd(self, x):
        d = np.asarray(x, float) - self.mu
        return float(-0.5 * d @ (self.P @ d))

    def grad(self, x):
        return -(self.P @ (np.asarray(x, float) - self.mu))


class LibTarget:
    """A real cuqi target + what the harness knows about it independently.
    ref   : independent numpy implementation with the documented normalisation (values and gradients), or None
    ref_u : independent un-normalised implementation (gradients and log-density differences), or None
    twin  : deep copy of the library object, evaluated on COPIES of points when no `ref` exists
    """
    is_lib = True

    def __init__(self, obj, spec, ref=None, ref_u=None):
        import copy
        self.spec, self.ref, self.ref_u = spec, ref, ref_u
        self.twin = copy.deepcopy(obj)
        self._proto = obj
        self.dim = int(obj.dim)
        base = ref if ref is not None else ref_u
        self.sigma_min = float(base.sigma_min)
        self.kind = "lib_" + spec["lib"]
        sampler_ref = ref if (ref is not None and hasattr(ref, "draw")) else (ref_u if (ref_u is not None and hasattr(ref_u, "draw")) else None)
        if sampler_ref is not None:
            self.draw, self.to_normal = sampler_ref.draw, sampler_ref.to_normal

    def fresh(self):
        import copy
        return copy.deepcopy(self._proto)

    def logd(self, x):
        x = np.array(x, dtype=float, copy=True)
        if self.ref is not None:
            return self.ref.logd(x)
        with np.errstate(all="ignore"):
            return float(np.asarray(self.twin.logd(x), dtype=float).reshape(-1)[0])

    def grad(self, x):
        x = np.array(x, dtype=float, copy=True)
        if self.ref is not None:
            return np.asarray(self.ref.grad(x), dtype=float)
        with np.errstate(all="ignore"):
            return np.array(self.twin.gradient(x), dtype=float).reshape(-1)

    def fg(self, x):
        return self.logd(x), self.grad(x)


def make_lib_target(spec, rs):
    import cuqi
    lib = spec["lib"]
    if lib == "gallery":
        return LibTarget(cuqi.distribution.DistributionGallery(spec["name"]), spec, ref=TG.GALLERY[spec["name"]]())
    if lib == "gauss":
        obj, mu, Sigma = _lib_gauss(spec, rs)
        return LibTarget(obj, spec, ref=TG.NormalisedGauss(mu, Sigma))
    if lib == "gmrf":
        from vlib.refs import stencils as ST
        N, bc, order = spec["N"], spec["bc"], spec["order"]
        m = np.round(rs.standard_normal(N), 2) if spec.get("mtype") != "scalar" else np.zeros(N)
        delta = float(rs.choice([1, 2, 5]))
        prec = _conv(delta, spec.get("ptype", "pyfloat"))
        obj = cuqi.distribution.GMRF(m if spec.get("mtype") != "scalar" else 0, prec, bc_type=bc, order=order,
                                     geometry=cuqi.geometry.Continuous1D(N), name="x")
        D = ST.diff_op(N, bc, order, 1)
        P = delta * (D.T @ D)
        ref_u = TG.NormalisedGauss(m, np.linalg.inv(P)) if bc == "zero" else QuadForm(m, P)
        return LibTarget(obj, spec, ref_u=ref_u)
    if lib == "posterior":
        n, m = spec["n"], spec["m"]
        A = np.round(rs.standard_normal((m, n)), 2)
        prior, mu0, S0 = _lib_gauss(dict(spec["prior"], dim=n), rs, name="x")
        noise_var = rs.choice([1, 2, 4], size=m).astype(float) if spec["noise"] != "scalar" else np.full(m, float(rs.choice([1, 2, 4])))
        ncov = _conv(noise_var[0], spec["ntype"]) if spec["noise"] == "scalar" else _conv(noise_var, spec["ntype"])
        model = cuqi.model.LinearModel(A if spec.get("Aorder") != "F" else np.asfortranarray(A))
        y = cuqi.distribution.Gaussian(model(prior), ncov, name="y")
        data = np.round(A @ mu0 + rs.standard_normal(m), 2)
        post = cuqi.distribution.JointDistribution(prior, y)(y=data)
        P0 = np.linalg.inv(S0)
        P = P0 + A.T @ (A / noise_var[:, None])
        mean = np.linalg.solve(P, P0 @ mu0 + A.T @ (data / noise_var))
        return LibTarget(post, spec, ref_u=TG.NormalisedGauss(mean, np.linalg.inv(P)))
    raise ValueError(lib)


def make_target(spec, rs):
    return make_lib_target(spec, rs) if spec.get("tk") == "lib" else TG.make(spec, rs)


def wrap_recording(obj, rec):
    """Recording pass-through on a real target: the instance gets a subclass whose logd/gradient copy the argument,
    call the library's own method, verify that the caller's array is bitwise unchanged and log the evaluation."""
    cls = obj.__class__

    def _call(self, kind, meth, a, k):
        x = a[0] if a else None
        before = np.array(x, copy=True) if isinstance(x, np.ndarray) else None
        v = meth(self, *a, **k)
        if before is not None:
            if not (x.shape == before.shape and x.dtype == before.dtype and np.array_equal(np.asarray(x), np.asarray(before), equal_nan=True)):
                rec.arg_changes.append((kind, np.array(before, dtype=float), np.array(x, dtype=float, copy=True)))
        if rec.record and x is not None:
            xb = np.array(before if before is not None else x, dtype=float).reshape(-1)
            with np.errstate(all="ignore"):
                if kind == "L":
                    rec.events.append(("L", xb, float(np.asarray(v, dtype=float).reshape(-1)[0])))
                else:
                    rec.events.append(("G", xb, np.array(v, dtype=float, copy=True).reshape(-1)))
        return v

    def logd(self, *a, **k):
        return _call(self, "L", cls.logd, a, k)

    def gradient(self, *a, **k):
        return _call(self, "G", cls.gradient, a, k)

    obj.__class__ = type(cls.__name__, (cls,), {"logd": logd, "gradient": gradient, "__module__": cls.__module__})
    return obj


def preflight_lib(ctx, cfg, tgt, rs):
    """Before an expensive statistical case on a real target: a few direct calls through the recording pass-through
    (arguments unchanged, values equal to the independent implementation). Returns False when the target is already
    known to be broken (reported), so that the case does not spend its budget - or hang - on a corrupted density."""
    if not getattr(tgt, "is_lib", False):
        return True
    rec = Rec(tgt)
    obj = cuqi_target(rec)
    base = tgt.draw(rs, 3) if hasattr(tgt, "draw") else np.ones((3, tgt.dim))
    for x in base:
        x = np.array(x, dtype=float, copy=True)
        obj.logd(x)
        obj.gradient(x)
    n0 = len(ctx.violations)
    check_lib_evaluations(ctx, cfg, tgt, rec)
    return len(ctx.violations) == n0


def _lib_cfg(tgt):
    sp = getattr(tgt, "spec", None)
    if not sp:
        return {}
    out = {"lib": sp["lib"]}
    for k in ("name", "form", "shape", "ptype", "mtype", "bc", "order", "noise", "ntype"):
        if k in sp:
            out[k] = sp[k]
    return out


def check_lib_evaluations(ctx, cfg, tgt, rec):
    """Monitors on the recorded calls of a real target: arguments bitwise unchanged; every value / gradient the
    library returned equals the independent implementation (full, or gradients + differences)."""
    cfg = dict(cfg, **_lib_cfg(tgt))
    ctx.count("target_calls_args_checked", len(rec.events))
    if rec.arg_changes:
        kind, b, a = rec.arg_changes[0]
        ctx.violation("argument_modified", dict(cfg, call="logd" if kind == "L" else "gradient"),
                      detail=f"{len(rec.arg_changes)} call(s) of the target's {'logd' if kind == 'L' else 'gradient'} changed the array handed in: "
                             f"{b.tolist()} -> {a.tolist()}")
    ref = tgt.ref if tgt.ref is not None else tgt.ref_u
    if ref is None:
        return
    full = tgt.ref is not None
    base = None
    for kind, x, v in rec.events[:400]:
        if not np.all(np.isfinite(x)):
            continue
        with np.errstate(all="ignore"):
            if kind == "G":
                want = np.asarray(ref.grad(x), dtype=float)
                if not np.all(np.isfinite(want)):
                    continue
                ctx.count("target_values_checked")
                if not R.same_point(np.asarray(v, float), want, rtol=1e-8, atol=1e-10 * (1.0 + float(np.max(np.abs(want))) if np.all(np.isfinite(want)) else 1.0)):
                    ctx.violation("target_evaluation_mismatch", dict(cfg, what="gradient"),
                                  detail=f"gradient at {x.tolist()}: library {np.asarray(v).tolist()}, independent implementation {want.tolist()}")
                    return
            else:
                want = ref.logd(x)
                if not full:
                    if base is None:
                        base = (v, want)
                        continue
                    v, want = v - base[0], want - base[1]
                ctx.count("target_values_checked")
                if math.isfinite(want) and not abs(v - want) <= 1e-8 * (1.0 + abs(want)):
                    ctx.violation("target_evaluation_mismatch", dict(cfg, what="logd" if full else "logd_difference"),
                                  detail=f"log-density{'' if full else ' difference'} at {x.tolist()}: library {v}, independent implementation {want}")
                    return


def cuqi_target(rec):
    import cuqi
    rec.cuqi = cuqi
    if getattr(rec.t, "is_lib", False):
        return wrap_recording(rec.t.fresh(), rec)
    return cuqi.distribution.UserDefinedDistribution(dim=rec.t.dim, logpdf_func=rec.logpdf,
                                                     gradient_func=rec.gradient, name="x")


def _represent(x0, xrep):
    """The initial point in the representation asked for by the case."""
    x0 = np.asarray(x0)
    if xrep == "f32":
        return x0.astype(np.float32)
    if xrep == "cuqi":
        import cuqi
        return cuqi.array.CUQIarray(np.array(x0, dtype=float), geometry=cuqi.geometry.Continuous1D(x0.size))
    if xrep == "ro":                       # read-only array: a write through the argument raises inside the library
        a = np.array(x0, copy=True)
        a.setflags(write=False)
        return a
    if xrep == "strided":                  # non-contiguous view of a larger buffer
        big = np.zeros(2 * x0.size + 1, dtype=x0.dtype)
        big[1::2] = x0
        return big[1::2]
    return np.array(x0, copy=True)


class Stream:
    """Providers for Scripted: every draw comes from the private stream `rs` unless scripted; each draw
    notes how many target evaluations had happened (to cut the evaluation trace into transitions)."""
    def __init__(self, rs, rec, dim, r_script=None, e_script=None, u_const=None):
        self.rs, self.rec, self.dim, self.u_const = rs, rec, dim, u_const
        self.r_script, self.e_script = list(r_script or []), list(e_script or [])
        self.marks = {}
        self.n_r = self.n_e = 0

    def normal(self, shape, api, seq):
        self.marks[seq] = len(self.rec.events)
        if shape == (self.dim,):
            k = self.n_r; self.n_r += 1
            if k < len(self.r_script) and self.r_script[k] is not None:
                return np.asarray(self.r_script[k], dtype=float)
        return self.rs.standard_normal(shape) if shape != () else float(self.rs.standard_normal())

    def exponential(self, shape, api, seq):
        self.marks[seq] = len(self.rec.events)
        k = self.n_e; self.n_e += 1
        if k < len(self.e_script) and self.e_script[k] is not None:
            return np.full(shape, float(self.e_script[k])) if shape != () else float(self.e_script[k])
        return self.rs.exponential(1.0, shape) if shape != () else float(self.rs.exponential(1.0))

    def uniform(self, shape, api, seq):
        self.marks[seq] = len(self.rec.events)
        if self.u_const is not None:
            return np.full(shape, float(self.u_const)) if shape != () else float(self.u_const)
        return self.rs.random_sample(shape) if shape != () else float(self.rs.random_sample())


def run_chain(impl, tgt, rs, x0, max_depth, eps, T, r_script=None, e_script=None, warm=None, u_const=None, api_alt=False, reps=None,
              burn=0, split=False):
    """Run the real sampler for T transitions (after `warm` = dict(Nb, tune) warm-up transitions) from x0 and
    return the transitions cut out of the recorded random stream and evaluation trace."""
    import cuqi
    rec = Rec(tgt, reps=reps)
    target = cuqi_target(rec)
    xrep = (reps or {}).get("xrep", "f64")
    x0_obj = _represent(x0, xrep)                                # the very object handed to the sampler
    x0_used = np.array(x0_obj, dtype=float)                     # what the sampler really starts from (float32 rounding!)
    stream = Stream(rs, rec, tgt.dim, r_script, e_script, u_const)
    after = []   # per transition: state reported through the callback (+ sampler attributes for the stateful one)
    Nb = warm["Nb"] if warm else 0
    adapt = bool(warm) and warm.get("amode", "adapt") == "adapt"
    md_kw = {} if max_depth is None else {"max_depth": max_depth}          # None: the library's default depth
    with Scripted(normal=stream.normal, uniform=stream.uniform, exponential=stream.exponential) as sc:
        if impl == "legacy":
            def cb(sample, idx):
                after.append({"x": np.array(sample, dtype=float, copy=True), "obj": sample})
            if warm:
                # adaptive warm-up, or the heuristic initial step size kept fixed (adapt_step_size=False)
                s = cuqi.sampler.NUTS(target, x0=x0_obj, adapt_step_size=adapt,
                                      opt_acc_rate=warm.get("delta", 0.6), callback=cb, **md_kw)
            else:
                Nb = int(burn)
                s = cuqi.sampler.NUTS(target, x0=x0_obj, adapt_step_size=float(eps), callback=cb, **md_kw)
            # N samples incl. the initial one: N + Nb = T + Nb + 1  -> T + Nb transitions
            out = (s.sample_adapt if api_alt else s.sample)(T + 1, Nb)
            samples = np.asarray(out.samples)
            extra = {"loglike": np.asarray(out.loglike_eval), "samples": samples, "Nb": Nb}
        else:
            def cb(sample, idx):
                after.append({"x": np.array(sample, dtype=float, copy=True), "obj": sample,
                              "logd": _tofloat(getattr(s, "current_target_logd", None)),
                              "grad": _toarr(getattr(s, "current_target_grad", None)),
                              "alpha": _tofloat(getattr(s, "_current_alpha_ratio", None))})
            kw = dict(md_kw)
            if warm:
                kw["opt_acc_rate"] = warm.get("delta", 0.6)
            s = cuqi.experimental.mcmc.NUTS(target, initial_point=x0_obj,
                                            step_size=(None if eps is None else float(eps)), callback=cb, **kw)
            if warm and adapt:
                if warm.get("tune") == "each":
                    s.warmup(Nb, tune_freq=1.0 / Nb)
                else:
                    s.warmup(Nb)
                s.sample(T)
            else:
                n_tot = T + (Nb if warm else 0)
                if split and n_tot >= 2:
                    s.sample(n_tot // 2)
                    s.sample(n_tot - n_tot // 2)
                else:
                    s.sample(n_tot)
            extra = {"Nb": Nb}
    eps_list = [_tofloat(e) for e in getattr(s, "epsilon_list", [])]
    trs = cut_transitions(sc.draws, stream.marks, rec.events, tgt.dim)
    x0_changed = not np.array_equal(np.array(x0_obj, dtype=float), x0_used, equal_nan=True)
    states_changed = sum(1 for a in after if not np.array_equal(np.array(a["obj"], dtype=float), a["x"], equal_nan=True))
    return {"transitions": trs, "after": after, "eps_list": eps_list, "extra": extra, "sampler": s, "rec": rec, "x0_used": x0_used,
            "x0_changed": x0_changed, "states_changed": states_changed, "x0_now": np.array(x0_obj, dtype=float)}


def _tofloat(v):
    if v is None:
        return None
    try:
        return float(np.asarray(v, dtype=float).reshape(-1)[0])
    except Exception:  # noqa
        return None


def _toarr(v):
    if v is None:
        return None
    try:
        return np.array(v, dtype=float, copy=True).reshape(-1)
    except Exception:  # noqa
        return None


def cut_transitions(draws, marks, events, dim):
    """A transition starts with a momentum draw (normal, shape (dim,)) immediately followed by the slice draw
    (exponential) with no target evaluation in between; its uniforms and evaluations follow until the next
    normal draw."""
    trs, cur = [], None
    i, n = 0, len(draws)
    while i < n:
        seq, api, shape, val = draws[i][0], draws[i][1], draws[i][2], draws[i][3]
        if api in _NORMAL:
            if cur is not None:
                cur["ev_end"] = marks[seq]
                trs.append(cur); cur = None
            if shape == (dim,) and i + 1 < n and draws[i + 1][1] == "exponential" and marks[draws[i + 1][0]] == marks[seq]:
                cur = {"r0": np.array(val, dtype=float).reshape(-1), "e": float(np.asarray(draws[i + 1][3]).reshape(-1)[0]),
                       "ev_start": marks[seq], "ev_end": None, "uniforms": []}
                i += 2
                continue
        elif api in _UNIFORM and cur is not None:
            cur["uniforms"].append(float(np.asarray(val).reshape(-1)[0]))
        i += 1
    if cur is not None:
        cur["ev_end"] = len(events)
        trs.append(cur)
    for t in trs:
        t["events"] = events[t["ev_start"]:t["ev_end"]]
    return trs


def observed_leaves(events):
    """[(x, logd, grad)] from the evaluation events of one transition, or None when logd and gradient were
    not evaluated pairwise at the same points."""
    Ls = [(x, v) for k, x, v in events if k == "L"]
    Gs = [(x, v) for k, x, v in events if k == "G"]
    if len(Ls) != len(Gs):
        return None
    obs = []
    for (xl, l), (xg, g) in zip(Ls, Gs):
        if not np.array_equal(xl, xg, equal_nan=True):
            return None
        obs.append((xl, l, g))
    return obs

# ----------------------------------------------------------------------------------------- M1 / M2 analysis of one transition

def analyse(ctx, cfg, tgt, tr, x_before, x_after, eps, max_depth, allow_ties=False):
    """Walk the reference tree over the observed leaves of one transition. Returns a dict with the verdict
    details (or None when the transition could not be judged)."""
    if max_depth is None:
        max_depth = 15          # documented default of both implementations
    obs = observed_leaves(tr["events"])
    if obs is None:
        ctx.inconclusive("logd/gradient evaluations of a transition are not pairwise at the same points")
        return None
    l0, g0 = tgt.fg(x_before)
    r0, e = tr["r0"], tr["e"]
    H0 = float(l0) - R.kinetic(r0)
    log_u = H0 - e
    unis = tr["uniforms"]
    st = {"pos": 0, "ok": True}

    def next_u():
        if st["pos"] >= len(unis):
            st["ok"] = False
            return None
        st["pos"] += 1
        return unis[st["pos"] - 1]

    src = R.TraceSource(obs, eps)
    tree = R.Tree(src, H0, log_u, uniforms=next_u)
    top = R.TopState(x_before, r0, g0)
    problem = None
    stop_reason = None
    while True:
        if not (top.s == 1 and top.j <= max_depth):
            if top.s == 1:
                stop_reason = "maxdepth"
            if src.remaining() > 0:
                problem = ("continued_past_stop", f"reference stops after {src.pos} leaves ({stop_reason}); "
                           f"{src.remaining()} further leaf evaluation(s) observed")
            break
        if src.remaining() == 0:
            problem = ("stopped_early", f"no leaf evaluated for doubling j={top.j} although s=1 and j <= max_depth={max_depth}")
            break
        xo = obs[src.pos][0]
        cand = []
        for v in (1, -1):
            end = top.plus if v == 1 else top.minus
            xp, rh = src.predict(end[1], end[2], end[3], v)
            sc = max(float(np.max(np.abs(end[1]))), float(np.max(np.abs(eps * rh))) if np.all(np.isfinite(rh)) else 0.0, 1e-300)
            if R.same_point(xp, xo, rtol=0.0, atol=1e-9 * sc):
                cand.append(v)
        u_dir = next_u()
        v_replay = None if u_dir is None else (1 if u_dir < 0.5 else -1)
        if not cand:
            problem = ("leaf_off_orbit", f"first leaf of doubling j={top.j} at {np.asarray(xo).tolist()} is not a leapfrog image "
                       f"(step {eps}) of either end of the trajectory started at {np.asarray(x_before).tolist()} with momentum {np.asarray(r0).tolist()}")
            break
        v = cand[0] if (len(cand) == 1 or v_replay not in cand) else v_replay
        if v_replay != v:
            st["ok"] = False
        try:
            node = R.doubling(tree, top, v, accept_uniform=next_u)
        except R.TraceEnded as ex:
            problem = ("stopped_early", f"inside doubling j={top.j}: {ex}")
            break
        except R.OffOrbit as ex:
            problem = ("leaf_off_orbit", str(ex))
            break
        d = top.doublings[-1]
        if d["s_after"] != 1:
            if d["s_sub"] == 1:
                stop_reason = "uturn_top"
            else:
                last = tree.leaves[-1]
                stop_reason = "divergence" if last["s"] == 0 else "uturn_subtree"
    ctx.count("leaves_matched", src.pos)
    ambiguous = tree.min_margin < AMBIG or (tree.exact_ties > 0 and not allow_ties)
    if ambiguous:
        ctx.count("ambiguous_transitions")
        return None
    if problem is not None:
        ctx.violation(problem[0], cfg, detail=f"eps={eps} max_depth={max_depth} e={e}: {problem[1]}")
        return {"problem": problem[0]}
    ctx.count("transitions_judged")
    ctx.count("stop_" + str(stop_reason))
    if any(not math.isfinite(lf["l"]) for lf in tree.leaves):
        ctx.count("hostile_leaves_seen", sum(1 for lf in tree.leaves if not math.isfinite(lf["l"])))
    # ---- which state was returned?
    if np.array_equal(x_after, x_before):
        idx = 0
    else:
        idx = None
        for lf in tree.leaves:
            if R.same_point(lf["x"], x_after, rtol=1e-12):
                idx = lf["idx"]
                break
        if idx is None:
            ctx.violation("selected_not_a_leaf", cfg, detail=f"returned state {np.asarray(x_after).tolist()} is neither the previous state "
                          f"nor one of the {len(tree.leaves)} evaluated leaves")
            return {"problem": "selected_not_a_leaf"}
    p = top.dist.get(idx, 0.0)
    ctx.count("selection_support_checked")
    if not p > 0.0:
        if idx == 0:
            why = "stay_impossible"
        else:
            lf = [q for q in tree.leaves if q["idx"] == idx][0]
            if not math.isfinite(lf["l"]):
                why = "nonfinite"
            elif lf["n"] == 0:
                why = "outside_slice"
            else:
                why = "stopped_or_superseded"
        ctx.violation("selected_zero_probability", dict(cfg, why=why),
                      detail=f"eps={eps} max_depth={max_depth} e={e}: returned orbit index {idx} has probability 0 under the reference tree "
                             f"(doublings: {[(d['v'], d['n'], d['s_sub'], round(d['accept_prob'], 4)) for d in top.doublings]})")
    # ---- deterministic replay of the selection
    if st["ok"] and st["pos"] == len(unis):
        ctx.count("selection_replayed")
        if top.sel != idx:
            ctx.violation("selection_replay_mismatch", cfg,
                          detail=f"eps={eps} max_depth={max_depth} e={e}: with the recorded uniforms {unis[:12]} the reference selects orbit index "
                                 f"{top.sel}, the sampler returned index {idx}; doublings (v, n', s', P(accept)): "
                                 f"{[(d['v'], d['n'], d['s_sub'], round(d['accept_prob'], 4)) for d in top.doublings]}")
    else:
        ctx.count("selection_replay_skipped")
    last = top.doublings[-1] if top.doublings else None
    with np.errstate(all="ignore"):
        alpha_ref = (last["alpha"] / last["n_alpha"]) if last else math.nan
    return {"problem": None, "idx": idx, "depth": top.j, "stop": stop_reason, "alpha_ref": alpha_ref,
            "leaves": tree.leaves, "n_leaves": len(tree.leaves), "tree": tree, "top": top, "l_after": None}


def check_extras(ctx, cfg, tgt, res, aft, impl):
    """Cache and acceptance-statistic monitors on what the stateful sampler exposes after a transition."""
    if impl != "exp" or res is None or res.get("problem"):
        return
    x = aft["x"]
    if aft.get("logd") is not None and aft.get("grad") is not None:
        lf, gf = tgt.fg(x)
        ctx.count("cache_checked")
        if not (R.same_point(np.array([aft["logd"]]), np.array([lf]), rtol=1e-10, atol=1e-12)
                and R.same_point(aft["grad"], np.asarray(gf, float), rtol=1e-10, atol=1e-12)):
            ctx.violation("stale_cache", cfg, detail=f"after the transition current_target_logd/grad = {aft['logd']}, {aft['grad'].tolist()} "
                          f"but the target at current_point {x.tolist()} gives {lf}, {np.asarray(gf).tolist()}")
    a, ar = aft.get("alpha"), res.get("alpha_ref")
    if a is not None and ar is not None and math.isfinite(ar):
        ctx.count("alpha_stat_checked")
        if not abs(a - ar) <= 1e-9 + 1e-9 * abs(ar):
            ctx.violation("acceptance_statistic", cfg, detail=f"reported alpha/n_alpha = {a}; mean min(1,exp(H'-H0)) over the "
                          f"{res['top'].doublings[-1]['n_alpha']} leaves of the last doubling = {ar}")

# ----------------------------------------------------------------------------------------- case kinds

def _init_point(tgt, rs, how):
    if how == "ones" or not hasattr(tgt, "draw"):
        return np.ones(tgt.dim)
    x = tgt.draw(rs, 1)[0]
    if how == "tail":
        x = x + 5.0 * tgt.sigma_min * np.sign(rs.standard_normal(tgt.dim))
    if how == "int":
        x = np.rint(x).astype(np.int64)        # integer-typed array as initial point
    return x


def _eps(case, tgt):
    """Step size of a case. Exactly 1.0 is avoided: the legacy sampler compares `adapt_step_size == True`, so the
    scalar 1.0 silently switches on adaptation (a documented-behaviour quirk outside this property)."""
    eps = float(case["f"] * tgt.sigma_min)
    return eps * (1.0 + 2.0 ** -20) if eps == 1.0 else eps


def _e_script(mode, rs, T):
    if mode == "small":
        return [float(10.0 ** rs.uniform(-6, -2)) if rs.random_sample() < 0.7 else None for _ in range(T)]
    if mode == "big":
        return [float(rs.choice([30.0, 200.0, 1500.0])) if rs.random_sample() < 0.7 else None for _ in range(T)]
    return [None] * T


def _walk_chain(ctx, case, cfg, tgt, run, x0, max_depth, eps_fixed, allow_ties=False):
    """Analyse every transition of a recorded chain; returns the list of per-transition results."""
    trs, after, eps_list = run["transitions"], run["after"], run["eps_list"]
    ctx.count("caller_arrays_unchanged_checked", 1 + len(after))
    if run.get("x0_changed"):
        ctx.violation("initial_point_modified", dict(cfg, **_lib_cfg(tgt)), detail=f"the array passed as initial point was {run['x0_used'].tolist()} "
                      f"and is {run['x0_now'].tolist()} after sampling")
    if run.get("states_changed"):
        ctx.violation("stored_state_changed", dict(cfg, **_lib_cfg(tgt)), detail=f"{run['states_changed']} of the {len(after)} state arrays reported through the "
                      f"callback were changed after they had been reported")
    if getattr(tgt, "is_lib", False):
        check_lib_evaluations(ctx, cfg, tgt, run["rec"])
    if run["rec"].arg_changes:
        return []          # the evaluation trace is not a trajectory any more; reported above
    if len(trs) != len(after):
        ctx.inconclusive(f"{len(trs)} transitions found in the random stream but {len(after)} callback calls")
        return []
    if eps_list and len(eps_list) != len(trs):
        ctx.inconclusive(f"epsilon_list has {len(eps_list)} entries for {len(trs)} transitions")
        return []
    results = []
    xb = np.asarray(run.get("x0_used", x0), dtype=float)
    deep = 0
    for k, (tr, aft) in enumerate(zip(trs, after)):
        eps = eps_list[k] if eps_list else eps_fixed
        if not (isinstance(eps, float) and math.isfinite(eps) and eps > 0):
            ctx.violation("step_size_invalid", cfg, detail=f"reported step size of transition {k} is {eps}")
            break
        res = analyse(ctx, cfg, tgt, tr, xb, aft["x"], eps, max_depth, allow_ties=allow_ties)
        check_extras(ctx, cfg, tgt, res, aft, case["impl"])
        results.append(res)
        if res is not None and res.get("problem"):
            break   # later transitions start from a state the reference cannot vouch for
        if res is not None and res["depth"] >= 2:
            deep += 1
            ctx.nontrivial(f"{case['impl']}:{case['target']['tk']}:{res['stop']}")
        xb = aft["x"]
    return results


def run_trace(case, ctx):
    rs = core.np_rng(ctx.seed, PROPERTY, core.canon(case))
    tgt = make_target(case["target"], rs)
    cfg = _cfg(case)
    x0 = _init_point(tgt, rs, case.get("init", "draw"))
    eps = _eps(case, tgt)
    T = case["T"]
    run = run_chain(case["impl"], tgt, rs, x0, case["max_depth"], eps, T, e_script=_e_script(case.get("emode", "rand"), rs, T),
                    api_alt=bool(case["sseed"] % 2), reps=case.get("reps"), burn=case.get("burn", 0), split=case.get("split", False))
    res = _walk_chain(ctx, case, cfg, tgt, run, x0, case["max_depth"], eps)
    if case["impl"] == "legacy" and res and all(r is not None and not r.get("problem") for r in res):
        # cached log-density as reported with the samples
        ll, S = run["extra"]["loglike"], run["extra"]["samples"]
        if np.ndim(ll) != 1 or len(ll) != S.shape[1]:
            ctx.violation("returned_samples_mismatch", cfg, detail=f"{np.shape(ll)} stored log-densities for samples of shape {S.shape}")
            return
        for k in range(S.shape[1]):
            ctx.count("cache_checked")
            fresh = tgt.logd(S[:, k])
            if not R.same_point(np.array([float(ll[k])]), np.array([fresh]), rtol=1e-10, atol=1e-12):
                ctx.violation("stale_cache", cfg, detail=f"sample {k}: stored log-density {ll[k]} but the target at the sample gives {fresh}")
                break
    if res and all(r is not None and not r.get("problem") for r in res):
        # the chain handed back to the user is the sequence of states the transitions produced
        states = [run["x0_used"]] + [a["x"] for a in run["after"]]
        if case["impl"] == "legacy":
            got, want = run["extra"]["samples"], np.array(states[run["extra"]["Nb"]:]).T
        else:
            got, want = np.asarray(run["sampler"].get_samples().samples), np.array(states[1:]).T
        ctx.count("returned_chain_checked")
        if got.shape != want.shape or not np.array_equal(np.asarray(got, dtype=float), want):
            ctx.violation("returned_samples_mismatch", cfg, detail=f"the returned samples (shape {got.shape}) are not the states produced by the "
                          f"transitions (shape {want.shape}); first returned {np.asarray(got)[:, :2].tolist()} vs {want[:, :2].tolist()}")
    ctx.note("eps_maxdepth", [eps, case["max_depth"]])
    ctx.note("stops", [r["stop"] if r and not r.get("problem") else None for r in res])


def run_tie(case, ctx):
    """Constant target, slice variable exactly at its upper end: every leaf has exactly the initial energy, so
    every leaf is in the slice (u <= exp(H')) and the first doubling must be accepted with probability 1."""
    rs = core.np_rng(ctx.seed, PROPERTY, core.canon(case))
    tgt = make_target(case["target"], rs)
    cfg = _cfg(case)
    x0 = rs.standard_normal(tgt.dim)
    eps = _eps(case, tgt)
    T = case["T"]
    run = run_chain(case["impl"], tgt, rs, x0, case["max_depth"], eps, T, e_script=[0.0] * T)
    res = _walk_chain(ctx, case, cfg, tgt, run, x0, case["max_depth"], eps, allow_ties=True)
    for r in res:
        if r is not None and not r.get("problem"):
            ctx.count("tie_transitions_judged")
            ctx.nontrivial()


def run_hostile(case, ctx):
    rs = core.np_rng(ctx.seed, PROPERTY, core.canon(case))
    tgt = make_target(case["target"], rs)
    cfg = _cfg(case)
    # start inside the support, close to the hostile half space
    y = rs.standard_normal(tgt.dim)
    y[0] = tgt.cut - abs(rs.standard_normal()) * 0.3 - 0.01
    x0 = tgt.mu + tgt.Q @ (np.sqrt(tgt.lam) * y)
    eps = _eps(case, tgt)
    T = case["T"]
    run = run_chain(case["impl"], tgt, rs, x0, case["max_depth"], eps, T, reps=case.get("reps"))
    res = _walk_chain(ctx, case, cfg, tgt, run, x0, case["max_depth"], eps)
    for aft in run["after"]:
        ctx.count("returned_state_finite_checked")
        if not math.isfinite(tgt.logd(aft["x"])):
            ctx.violation("nonfinite_state_selected", cfg, detail=f"state {aft['x'].tolist()} with log-density {tgt.logd(aft['x'])} was returned")
            break


def run_trace_adapt(case, ctx):
    rs = core.np_rng(ctx.seed, PROPERTY, core.canon(case))
    tgt = make_target(case["target"], rs)
    cfg = _cfg(case)
    impl = case["impl"]
    x0 = _init_point(tgt, rs, case.get("init", "draw"))
    Nb, Ns = case["Nb"], case["Ns"]
    eps0 = None if case.get("eps0") is None else float(case["eps0"] * tgt.sigma_min)
    delta = float(case.get("delta", 0.6))
    amode = case.get("amode", "adapt")
    if amode == "noadapt":
        eps0 = None             # heuristic initial step size, then kept fixed
    if not preflight_lib(ctx, cfg, tgt, rs):
        return
    run = run_chain(impl, tgt, rs, x0, case["max_depth"], eps0, Ns,
                    warm={"Nb": Nb, "tune": case.get("tune"), "delta": delta, "amode": amode}, reps=case.get("reps"))
    res = _walk_chain(ctx, case, cfg, tgt, run, x0, case["max_depth"], None)
    el = run["eps_list"]
    if len(el) == Nb + Ns and len(res) == Nb + Ns and all(r is not None and not r.get("problem") for r in res):
        ctx.count("warmup_eps_constant_checked")
        post = el[Nb + 1:] if amode == "adapt" else el
        if any(e != post[0] for e in post):
            ctx.violation("step_size_changes_after_warmup", dict(cfg, amode=amode), detail=f"step sizes of the transitions "
                          f"{'after warm-up' if amode == 'adapt' else 'of a non-adaptive run'}: {el[Nb:] if amode == 'adapt' else el}")
        if amode != "adapt":
            ctx.note("eps_first_last", [el[0], el[-1]])
            return
        if impl == "legacy":
            # invert the dual-averaging recursion of the paper to read off the acceptance statistic that was used
            gamma, t0 = 0.05, 10.0
            mu = math.log(10.0 * el[0])
            Hprev = 0.0
            for k in range(1, Nb + 1):
                Hk = gamma * (mu - math.log(el[k])) / math.sqrt(k)
                a_used = delta - ((k + t0) * Hk - (k + t0 - 1.0) * Hprev)
                Hprev = Hk
                ar = res[k - 1]["alpha_ref"]
                if math.isfinite(ar):
                    ctx.count("alpha_stat_checked")
                    if not abs(a_used - ar) <= 1e-6:
                        ctx.violation("acceptance_statistic", cfg, detail=f"warm-up iteration {k}: step sizes {el[k - 1]} -> {el[k]} imply the statistic "
                                      f"{a_used}; mean min(1,exp(H'-H0)) over the last doubling = {ar}")
                        break
    ctx.note("eps_first_last", [el[0] if el else None, el[-1] if el else None])


def run_reverse(case, ctx):
    """Two transitions started at different phase points of one orbit must visit the same points."""
    rs = core.np_rng(ctx.seed, PROPERTY, core.canon(case))
    tgt = make_target(case["target"], rs)
    cfg = _cfg(case)
    x0 = _init_point(tgt, rs, "draw")
    eps = _eps(case, tgt)
    md = case["max_depth"]
    r0 = rs.standard_normal(tgt.dim)
    runA = run_chain(case["impl"], tgt, rs, x0, md, eps, 1, r_script=[r0], e_script=[40.0])
    resA = _walk_chain(ctx, case, cfg, tgt, runA, x0, md, eps)
    if not resA or resA[0] is None or resA[0].get("problem") or not resA[0]["leaves"]:
        return
    # momenta along A from the reference walk: recompute with the reference integrator from observed leaves
    orbitA = {0: x0}
    for lf in resA[0]["leaves"]:
        orbitA[lf["idx"]] = lf["x"]
    # phase point to restart from: the outermost leaf on a random side
    idxs = sorted(orbitA)
    m = idxs[-1] if (rs.random_sample() < 0.5 and idxs[-1] > 0) or idxs[0] == 0 else idxs[0]
    # reference momentum at m: integrate the reference leapfrog from (x0, r0)
    x, r = np.array(x0, float), np.array(r0, float)
    _, g = tgt.fg(x)
    v = 1 if m > 0 else -1
    for _ in range(abs(m)):
        x, r, _, g = R.leapfrog(x, r, np.asarray(g, float), v * eps, tgt.fg)
    if not R.same_point(x, orbitA[m], rtol=1e-7):
        ctx.inconclusive("reference orbit drifted from the observed orbit (unstable step size)")
        return
    runB = run_chain(case["impl"], tgt, rs, orbitA[m], md, eps, 1, r_script=[r], e_script=[40.0])
    resB = _walk_chain(ctx, case, cfg, tgt, runB, orbitA[m], md, eps)
    if not resB or resB[0] is None or resB[0].get("problem"):
        return
    n_cmp = 0
    for lf in resB[0]["leaves"]:
        k = m + lf["idx"]
        if k in orbitA:
            n_cmp += 1
            ctx.count("reversibility_points_compared")
            if not R.same_point(lf["x"], orbitA[k], rtol=1e-6):
                ctx.violation("orbit_not_retraced", cfg, detail=f"eps={eps}: point {k} of the orbit is {np.asarray(orbitA[k]).tolist()} when reached from index 0 "
                              f"but {np.asarray(lf['x']).tolist()} when reached from index {m}")
                break
    if n_cmp:
        ctx.nontrivial()

def run_volume(case, ctx):
    """Volume preservation observed through the real code: Jacobian (central differences over perturbed starts
    and momenta) of the map (x0, r0) -> (x_L, r_L) read from the observed leaves; r_L follows from two
    consecutive observed leaves and the gradient the target returned: x_{L+1} = x_L + h (r_L + h/2 g_L)."""
    rs = core.np_rng(ctx.seed, PROPERTY, core.canon(case))
    tgt = make_target(case["target"], rs)
    cfg = _cfg(case)
    d, L = tgt.dim, case["L"]
    eps = _eps(case, tgt)
    md = 2 if L <= 2 else 3          # constant uniforms -> all doublings in one direction: 7 or 15 leaves
    x0 = _init_point(tgt, rs, "draw")
    r0 = rs.standard_normal(d)
    hs = 1e-5 * max(1.0, float(np.max(np.abs(x0))))

    def phase_point(x, r):
        run = run_chain(case["impl"], tgt, rs, x, md, eps, 1, r_script=[r], e_script=[40.0], u_const=0.25)
        res = _walk_chain(ctx, case, cfg, tgt, run, x, md, eps)
        if not res or res[0] is None or res[0].get("problem"):
            return None
        by = {lf["idx"]: lf for lf in res[0]["leaves"]}
        v = res[0]["top"].doublings[0]["v"]
        if v * L not in by or v * (L + 1) not in by:
            return None
        a, b = by[v * L], by[v * (L + 1)]
        h = v * eps
        rL = (b["x"] - a["x"]) / h - 0.5 * h * a["g"]
        return v, np.concatenate([a["x"], rL])

    base = phase_point(x0, r0)
    if base is None:
        return
    J = np.empty((2 * d, 2 * d))
    for i in range(2 * d):
        dz = np.zeros(2 * d); dz[i] = hs
        pp = phase_point(x0 + dz[:d], r0 + dz[d:]); pm = phase_point(x0 - dz[:d], r0 - dz[d:])
        if pp is None or pm is None or pp[0] != base[0] or pm[0] != base[0]:
            return
        J[:, i] = (pp[1] - pm[1]) / (2 * hs)
    det = float(np.linalg.det(J))
    # symplecticity: J^T Omega J = Omega
    Om = np.block([[np.zeros((d, d)), np.eye(d)], [-np.eye(d), np.zeros((d, d))]])
    sym = float(np.max(np.abs(J.T @ Om @ J - Om)))
    ctx.count("volume_jacobians_checked")
    ctx.note("det_sympl_defect", [det, sym])
    ctx.nontrivial()
    scale = max(1.0, float(np.max(np.abs(J))) ** 2)
    if abs(det - 1.0) > 1e-4 * scale or sym > 1e-4 * scale:
        ctx.violation("flow_not_volume_preserving", cfg, detail=f"eps={eps}, {L} steps: finite-difference Jacobian of the observed flow has det={det}, "
                      f"max |J^T Omega J - Omega| = {sym}")

# ----------------------------------------------------------------------------------------- M3 exact conditional law

def _one_step_runner(impl, tgt, x0, max_depth, eps):
    """Returns f() -> state after one transition from x0 of the real sampler (randomness from np.random)."""
    import cuqi
    rec = Rec(tgt, record=False)
    target = cuqi_target(rec)
    x0 = np.array(x0, dtype=float, copy=True)
    if impl == "legacy":
        s = cuqi.sampler.NUTS(target, x0=x0.copy(), max_depth=max_depth, adapt_step_size=float(eps))

        def f(x=x0):
            s.x0 = np.array(x, dtype=float, copy=True)
            return np.asarray(s.sample(2).samples)[:, -1]
        f.rec = rec
        return f, s
    s = cuqi.experimental.mcmc.NUTS(target, initial_point=x0.copy(), max_depth=max_depth, step_size=float(eps))
    s.sample(1)
    base = s.get_state()

    def f(x=x0, k=1):
        st = {"metadata": base["metadata"], "state": dict(base["state"])}
        st["state"]["current_point"] = np.array(x, dtype=float, copy=True)
        st["state"]["current_target_logd"] = target.logd(np.array(x, dtype=float, copy=True))
        st["state"]["current_target_grad"] = target.gradient(np.array(x, dtype=float, copy=True))
        s.set_state(st)
        for _ in range(k):
            s.step()
        return np.array(s.current_point, dtype=float, copy=True)
    f.rec = rec
    return f, s


def _chi2(counts, probs, n):
    """Pearson chi^2 with cells of expected count < 5 pooled. Returns (p, n_cells, top_cell, sign)."""
    from scipy import stats
    keys = sorted(probs)
    big = [k for k in keys if probs[k] * n >= 5.0]
    obs = [counts.get(k, 0) for k in big]
    exp = [probs[k] * n for k in big]
    rest_e = n - sum(exp)
    rest_o = n - sum(obs)
    if rest_e >= 5.0:
        big = big + ["rest"]; obs.append(rest_o); exp.append(rest_e)
    elif big:
        j = int(np.argmax(exp)); obs[j] += rest_o; exp[j] += rest_e
    if len(big) < 2:
        return 1.0, len(big), None, 0
    obs, exp = np.array(obs, float), np.array(exp, float)
    resid = (obs - exp) / np.sqrt(exp)
    stat = float(np.sum(resid ** 2))
    j = int(np.argmax(np.abs(resid)))
    return float(stats.chi2.sf(stat, len(big) - 1)), len(big), big[j], int(np.sign(resid[j]))


def run_law(case, ctx):
    rs = core.np_rng(ctx.seed, PROPERTY, core.canon(case))
    tgt = make_target(case["target"], rs)
    cfg = _cfg(case)
    impl, md = case["impl"], case["max_depth"]
    if not preflight_lib(ctx, cfg, tgt, rs):
        return
    x0 = tgt.draw(rs, 1)[0]
    eps = _eps(case, tgt)
    r0 = rs.standard_normal(tgt.dim)
    # slice variable: chosen so that part of the orbit lies outside the slice
    l0, g0 = tgt.fg(x0)
    H0 = l0 - R.kinetic(r0)
    if case["emode"] == "rand":
        e = float(rs.exponential(1.0))
    else:
        _, orbit, _ = R.exact_law(x0, r0, 1e6, eps, md, tgt.fg)
        drops = sorted(max(0.0, H0 - (o[2] - R.kinetic(o[1]))) for k, o in orbit.items() if k != 0 and math.isfinite(o[2]))
        q = 0.5 if case["emode"] == "mid" else 0.25
        e = float(drops[int(q * (len(drops) - 1))]) if drops else 1.0
        if not e > 1e-6:
            e = float(rs.exponential(1.0))
    for _ in range(30):
        law, orbit, info = R.exact_law(x0, r0, e, eps, md, tgt.fg)
        if info["min_margin"] > 1e-7 and info["exact_ties"] == 0:
            break
        e *= 1.037
    else:
        ctx.inconclusive("could not find a slice variable with safe decision margins")
        return
    tot = sum(law.values())
    if abs(tot - 1.0) > 1e-9:
        ctx.inconclusive(f"reference law sums to {tot}")
        return
    idxs = sorted(orbit)
    pts = np.array([orbit[k][0] for k in idxs])
    step, _ = _one_step_runner(impl, tgt, x0, md, eps)
    const_r = lambda shape, api, seq: (r0 if shape == (tgt.dim,) else None)
    const_e = lambda shape, api, seq: (np.full(shape, e) if shape != () else e)

    def sample_counts(n, seed):
        counts = {}
        np.random.seed(seed)
        with Scripted(normal=const_r, exponential=const_e, record=False):
            for _ in range(n):
                x1 = step()
                with np.errstate(all="ignore"):
                    dist = np.max(np.abs(pts - x1), axis=1)
                j = int(np.nanargmin(dist))
                sc = max(1e-300, float(np.max(np.abs(pts[j]))), float(np.max(np.abs(x0))))
                if not dist[j] <= 1e-8 * sc:
                    return None, x1
                counts[idxs[j]] = counts.get(idxs[j], 0) + 1
        return counts, None

    n = case["reps"]
    seed1 = int(rs.randint(0, 2 ** 31 - 1))
    counts, bad = sample_counts(n, seed1)
    if counts is None:
        ctx.violation("selected_not_on_orbit", cfg, detail=f"eps={eps} max_depth={md}: returned state {np.asarray(bad).tolist()} is not a point of the "
                      f"reference orbit of x0={x0.tolist()}, r0={r0.tolist()}")
        return
    ctx.count("law_reps", n)
    for k, c in counts.items():
        if not law.get(k, 0.0) > 0.0:
            ctx.violation("selected_zero_probability", dict(cfg, why="law"), detail=f"eps={eps} max_depth={md} e={e}: orbit index {k} was returned {c}x in {n} "
                          f"repetitions but has probability 0 under the reference tree")
            return
    p, ncell, top, sign = _chi2(counts, law, n)
    ctx.count("law_cells_compared", ncell)
    ctx.note("law", {"cells": ncell, "p": p, "stay": info["stay_prob"], "unequal": info["unequal_weights"], "seqs": info["sequences"]})
    if ncell >= 3 and info["unequal_weights"] > 0:
        ctx.nontrivial(f"law:{impl}:{case['target']['tk']}:{md}")
    elif ncell >= 2:
        ctx.nontrivial()
    if p < P_STAGE:
        ctx.count("law_stage2")
        counts2, bad = sample_counts(4 * n, int(rs.randint(0, 2 ** 31 - 1)))
        if counts2 is None:
            ctx.violation("selected_not_on_orbit", cfg, detail=f"returned state {np.asarray(bad).tolist()} not on the reference orbit")
            return
        p2, _, _, _ = _chi2(counts2, law, 4 * n)
        f1 = (counts.get(top, 0) / n) if top != "rest" else None
        f2 = (counts2.get(top, 0) / (4 * n)) if top != "rest" else None
        same = True
        if top != "rest" and top is not None:
            same = (np.sign(f2 - law[top]) == sign)
        if p2 < P_STAGE and same:
            show = {k: (round(law[k], 5), round(counts2.get(k, 0) / (4 * n), 5)) for k in sorted(law) if law[k] > 1e-4 or counts2.get(k, 0)}
            ctx.violation("selection_law_mismatch", cfg, detail=f"eps={eps} max_depth={md} e={e}: chi^2 p={p:.3g} ({n} reps) and p={p2:.3g} ({4 * n} fresh reps); "
                          f"orbit index -> (reference prob, observed freq): {show}")

# ----------------------------------------------------------------------------------------- M4 stationarity

def battery(Z):
    """Tests of H0: rows of Z i.i.d. N(0, I). Returns {name: (p, sign)}."""
    from scipy import stats
    K, d = Z.shape
    out = {}
    for i in range(d):
        z = Z[:, i]
        m = float(np.mean(z)) * math.sqrt(K)
        out[f"mean{i}"] = (float(2 * stats.norm.sf(abs(m))), int(np.sign(m)))
        S = float(np.sum(z ** 2))
        out[f"var{i}"] = (float(2 * min(stats.chi2.sf(S, K), stats.chi2.cdf(S, K))), int(np.sign(S - K)))
        zs = np.sort(z)
        cdf = stats.norm.cdf(zs)
        dplus = float(np.max(np.arange(1, K + 1) / K - cdf)); dminus = float(np.max(cdf - np.arange(0, K) / K))
        out[f"ks{i}"] = (float(stats.kstwo.sf(max(dplus, dminus), K)), 1 if dplus >= dminus else -1)
        for j in range(i + 1, d):
            c = float(np.mean(z * Z[:, j])) * math.sqrt(K)
            out[f"corr{i}_{j}"] = (float(2 * stats.norm.sf(abs(c))), int(np.sign(c)))
    rad = np.sort(np.sum(Z ** 2, axis=1))
    cdf = stats.chi2.cdf(rad, d)
    dplus = float(np.max(np.arange(1, K + 1) / K - cdf)); dminus = float(np.max(cdf - np.arange(0, K) / K))
    out["radius"] = (float(stats.kstwo.sf(max(dplus, dminus), K)), 1 if dplus >= dminus else -1)
    return out


def run_stat(case, ctx):
    rs = core.np_rng(ctx.seed, PROPERTY, core.canon(case))
    tgt = make_target(case["target"], rs)
    cfg = _cfg(case, warm=bool(case.get("warm")))
    impl, md, k = case["impl"], case["max_depth"], case["k"]
    eps = _eps(case, tgt)
    if not preflight_lib(ctx, cfg, tgt, rs):
        return
    np.random.seed(int(rs.randint(0, 2 ** 31 - 1)))
    if case.get("warm"):
        eps = _warmup_eps(ctx, cfg, impl, tgt, rs, md, case["warm"]["Nb"])
        if eps is None:
            return
    step, sampler = _one_step_runner(impl, tgt, tgt.draw(rs, 1)[0], md, eps)

    def final_states(K):
        X0 = tgt.draw(rs, K)
        X = np.empty_like(X0)
        moved = 0
        if impl == "legacy":
            for i in range(K):
                sampler.x0 = X0[i].copy()
                X[i] = np.asarray(sampler.sample(k + 1).samples)[:, -1]
        else:
            for i in range(K):
                X[i] = step(X0[i], k)
        moved = int(np.sum(np.any(X != X0, axis=1)))
        return X, moved

    K = case["K"]
    X, moved = final_states(K)
    if getattr(tgt, "is_lib", False):
        ctx.count("target_calls_args_checked", K)
        if step.rec.arg_changes:
            kind, b, a = step.rec.arg_changes[0]
            ctx.violation("argument_modified", dict(cfg, **_lib_cfg(tgt), call="logd" if kind == "L" else "gradient"),
                          detail=f"{len(step.rec.arg_changes)} target call(s) changed the array handed in: {b.tolist()} -> {a.tolist()}")
            return
    ctx.count("stationarity_replicates", K)
    ctx.count("stationarity_transitions", K * k)
    if not np.all(np.isfinite(X)):
        ctx.violation("nonfinite_state_selected", cfg, detail="a non-finite state was returned in the stationarity run")
        return
    b1 = battery(tgt.to_normal(X))
    ctx.count("stationarity_tests", len(b1))
    worst = min(b1, key=lambda q: b1[q][0])
    ctx.note("stat", {"eps": eps, "moved_frac": moved / K, "worst": worst, "p": b1[worst][0]})
    if moved > 0:
        ctx.nontrivial(f"stat:{impl}:{case['target']['tk']}:{'warm' if case.get('warm') else 'fixed'}")
    fails = [q for q in b1 if b1[q][0] < P_STAGE]
    if fails:
        ctx.count("stationarity_stage2")
        X2, _ = final_states(4 * K)
        b2 = battery(tgt.to_normal(X2))
        again = [q for q in fails if b2[q][0] < P_STAGE and b2[q][1] == b1[q][1]]
        if again:
            q = again[0]
            ctx.violation("not_stationary", dict(cfg, test=q.rstrip("0123456789_")),
                          detail=f"eps={eps} max_depth={md} k={k}: exact target draws pushed through {k} transition(s) fail '{q}' with p={b1[q][0]:.3g} "
                                 f"(K={K}) and p={b2[q][0]:.3g} (K={4 * K}, fresh), same direction")


def _warmup_eps(ctx, cfg, impl, tgt, rs, md, Nb):
    """Step size produced by the library's own warm-up."""
    import cuqi
    rec = Rec(tgt, record=False)
    target = cuqi_target(rec)
    x0 = tgt.draw(rs, 1)[0]
    if impl == "legacy":
        s = cuqi.sampler.NUTS(target, x0=x0, max_depth=md, adapt_step_size=True)
        s.sample(4, Nb)
    else:
        s = cuqi.experimental.mcmc.NUTS(target, initial_point=x0, max_depth=md)
        s.warmup(Nb)
        s.sample(4)
    el = [_tofloat(e) for e in s.epsilon_list]
    eps = el[-1]
    if eps is None or not (math.isfinite(eps) and eps > 0):
        bad = next((i for i, e in enumerate(el) if e is None or not math.isfinite(e)), len(el) - 1)
        ctx.violation("step_size_invalid", cfg, detail=f"warm-up produced the step size {eps}; step sizes around the first invalid one "
                      f"(iteration {bad + 1}): {el[max(0, bad - 3):bad + 2]}")
        return None
    ctx.count("warmup_eps_constant_checked")
    if any(e != eps for e in el[Nb + 1:]):
        ctx.violation("step_size_changes_after_warmup", cfg, detail=f"step sizes after warm-up: {el[Nb:]}")
    return eps

# ----------------------------------------------------------------------------------------- entry points

_KINDS = {"trace": run_trace, "tie": run_tie, "hostile": run_hostile, "trace_adapt": run_trace_adapt,
          "reverse": run_reverse, "volume": run_volume, "law": run_law, "stat": run_stat}


def run_case(case, ctx):
    with np.errstate(all="ignore"):
        _KINDS[case["kind"]](case, ctx)


def selftest(ctx):
    from scipy import stats
    rs = np.random.RandomState(12345)
    specs = [{"tk": "gauss", "dim": 3, "cond": 50}, {"tk": "logistic", "dim": 2}, {"tk": "gumbel", "dim": 2},
             {"tk": "banana", "dim": 2}, {"tk": "gauss_neginf", "dim": 2, "cond": 4, "cut": 0.5}, {"tk": "gauss", "dim": 1}]
    for sp in specs:
        t = TG.make(sp, rs)
        X = t.draw(rs, 20000)
        for x in X[:5]:
            if TG.fd_grad_defect(t, x) > 1e-5:
                ctx.inconclusive(f"reference target {sp['tk']}: gradient is not the derivative of logd")
        b = battery(t.to_normal(X))
        bad = [q for q in b if b[q][0] < 1e-6]
        if bad:
            ctx.inconclusive(f"reference target {sp['tk']}: exact draws fail their own Rosenblatt battery: {bad}")
        if sp["tk"] == "gauss_neginf":
            continue
        # reference integrator: time reversible and volume preserving
        x, r = X[0], rs.standard_normal(t.dim)
        eps = 0.3 * t.sigma_min
        if R.reversibility_defect(x, r, t.fg, eps, 7) > 1e-9:
            ctx.inconclusive(f"reference leapfrog is not reversible on {sp['tk']}")
        det = R.flow_jacobian_det(x, r, t.fg, eps, 5)
        if abs(abs(det) - 1.0) > 1e-5:
            ctx.inconclusive(f"reference leapfrog flow has |det J| = {det} on {sp['tk']}")
        # reference law is a probability vector
        law, _, _ = R.exact_law(x, r, 0.7, 1.2 * t.sigma_min, 3, t.fg)
        if abs(sum(law.values()) - 1.0) > 1e-12 or min(law.values()) < 0:
            ctx.inconclusive("reference exact law is not a probability vector")
    # the reference sampler itself leaves N(0,1) and a 2-d Gaussian invariant, and agrees with its own exact law
    t = TG.make({"tk": "gauss", "dim": 2, "cond": 9}, rs)
    X = t.draw(rs, 6000)
    Y = np.array([R.reference_transition(x, t.fg, 1.1 * t.sigma_min, 3, rs) for x in X])
    b = battery(t.to_normal(Y))
    bad = [q for q in b if b[q][0] < 1e-6]
    if bad:
        ctx.inconclusive(f"reference NUTS transition is not stationary: {bad}")
