"""C13 - geometry maps are mutually inverse and act column-wise on batches.

Workload: every geometry class of cuqi.geometry (Continuous1D/2D, Image2D in C/F order and visual-only,
Discrete, the default geometries, MappedGeometry with/without inverse over every base (element-wise maps and user maps that couple the entries of
one function value: cumsum, mean shift, reversal, normalisation, softmax), KLExpansion for
every number of modes, StepExpansion for every admissible (n_grid, n_steps) and projection, KLExpansion_Full,
CustomKL) on grids with random offsets / spacings / sizes, unequal and degenerate 2D axes; single vectors,
batches of 1, 2, 7 columns in C / Fortran / strided memory layout, integer and float dtypes; every map input
(parameters, function values, vectorised function values, CUQIarray / Samples in function form) held C-contiguous,
Fortran-contiguous, as transposed / moved-axis / strided / reversed views and read-only, with the input compared before/after; Samples and
CUQIarray conversion chains par -> fun -> vec -> fun -> par; KLExpansion grid re-assignment histories.
Monitors: outputs of par2fun / fun2par / fun2vec / vec2fun, reported par_shape / fun_shape / funvec_shape /
*_dim, Samples.funvals/vector/parameters, CUQIarray.funvals/parameters, all at the public API.
Oracle: loop-built reference maps written from the docstrings (vlib/refs/c13_geomref.py, no cuqi import),
exact-integer documented step membership, algebraic identities (round trip, idempotence, one contribution
per node, batch == stacked columns).
"""
import numpy as np
from vlib import core
from vlib.refs import c13_geomref as R

PROPERTY = "C13"
RULE = ("families x sizes x configuration axes are enumerated (step sweep: every 1<=n_steps<=n_grid<=N x 3 projections x "
        "grid constructions; KL sweep: every num_modes in {None,1..n,>n}; map cases: every class x order x visual_only x "
        "degenerate axis x map/inverse pair x dtype), continuous quantities (offset, spacing, values) are drawn from a "
        "per-case seeded stream; a case is non-trivial when the library built the geometry and at least one deciding "
        "monitor (reference map, round trip, idempotence, one-contribution, batch==columns, shape report, Samples/"
        "CUQIarray chain) compared a library output against its oracle; distinct = distinct descriptors, sub-cases = "
        "distinct (class, degenerate axis, monitor) triples reached")
ASSUMPTIONS = [
    "a batch carries the column index on a new last axis; for a one-column batch both the squeezed and the "
    "unsqueezed result are accepted (the squeeze of a single vector is documented in the code comments)",
    "StepExpansion: a node that coincides (in exact arithmetic) with an interior step boundary may land in either "
    "adjacent step (round-off of the float grid); every other node must be in its documented step",
    "Continuous2D node layout is the row-major reshape that its own fun2par inverts (pinned by the unit tests)",
    "geometries that do not offer a map (NotImplementedError / ValueError) are observed as refusals, not judged",
]
REQUIRED_COUNTERS = {   # about 40 % of what the unchanged tree produces (deterministic per tier up to the seeded size draws)
    "quick": {"reference_map_checked": 15000, "roundtrip_checked": 10000, "batch_columns_checked": 110000,
              "shape_produced_checked": 25000, "shape_reports_checked": 25000, "step_nodes_membership_checked": 120000,
              "step_nonempty_checked": 60000, "one_contribution_nodes_checked": 19000, "projection_idempotence_checked": 5000,
              "samples_conversion_checked": 24000, "array_conversion_checked": 7500, "kl_regrid_stages_checked": 15,
              "regrid_stages_checked": 6, "refusal_observed": 150, "inadmissible_probed": 24, "coupled_map_samples_checked": 500,
              "layout_invariance_checked": 70000, "input_unchanged_checked": 70000,
              "repr_requests_checked": 1500},
    "thorough": {"reference_map_checked": 78000, "roundtrip_checked": 54000, "batch_columns_checked": 600000,
                 "shape_produced_checked": 130000, "shape_reports_checked": 125000, "step_nodes_membership_checked": 890000,
                 "step_nonempty_checked": 450000, "one_contribution_nodes_checked": 100000, "projection_idempotence_checked": 25000,
                 "samples_conversion_checked": 135000, "array_conversion_checked": 42000, "kl_regrid_stages_checked": 70,
                 "regrid_stages_checked": 30, "refusal_observed": 1000, "inadmissible_probed": 72, "coupled_map_samples_checked": 3000,
                 "layout_invariance_checked": 330000, "input_unchanged_checked": 330000,
                 "repr_requests_checked": 6000},
}
BUDGET_S = {"quick": 240.0, "thorough": 1500.0}

BATCH_SIZES = (1, 2, 7)
MAPS = ("exp", "affine", "sinh", "sq1")
BASES = ("Continuous1D", "Continuous2D", "Image2D_C", "Image2D_F", "Image2D_V", "Discrete", "KLExpansion", "StepExpansion")
REPR_FAMILIES = ("Continuous1D", "Continuous2D", "Image2D_C", "Image2D_F", "Image2D_V", "Discrete", "_DefaultGeometry1D",
                 "_DefaultGeometry2D", "KLExpansion", "StepExpansion", "Mapped_Image2D", "Mapped_KLExpansion")
GRID_KINDS = ("arange", "linspace", "unit", "faroffset", "jitter", "integer", "tiny", "huge")

# ----------------------------------------------------------------------------- case generation

def _deg2(shape):
    a, b = shape[0] == 1, shape[1] == 1
    return "both=1" if (a and b) else "axis0=1" if a else "axis1=1" if b else "none"

def _shape2(rnd, nmax, degenerate):
    if degenerate == "axis0=1":
        return [1, rnd.randint(2, nmax)]
    if degenerate == "axis1=1":
        return [rnd.randint(2, nmax), 1]
    if degenerate == "both=1":
        return [1, 1]
    a = rnd.randint(2, nmax); b = rnd.randint(2, nmax)
    if a == b:
        b = b + 1                                   # unequal axes so that a transposition cannot hide
    return [a, b]

def cases(tier, seed):
    rnd = core.rng_for(seed, PROPERTY, tier)
    quick = tier == "quick"
    out = []
    rep = 3 if quick else 16
    n1max, n2max = (60, 9) if quick else (60, 16)
    # ---- map cases -------------------------------------------------------------------------
    for r in range(rep):
        for spec in ("int", "tuple1", "list", "array"):
            out.append({"kind": "maps", "family": "Continuous1D", "n": rnd.randint(1 if spec != "array" else 2, n1max), "spec": spec, "r": r})
        out.append({"kind": "maps", "family": "Continuous1D", "n": 1, "spec": "int", "r": r})
        for spec in ("int", "names"):
            out.append({"kind": "maps", "family": "Discrete", "n": rnd.randint(1, 30), "spec": spec, "r": r})
        out.append({"kind": "maps", "family": "_DefaultGeometry1D", "n": rnd.randint(1, n1max), "r": r})
        for deg in ("none", "none", "axis0=1", "axis1=1", "both=1"):
            for spec in ("ints", "arrays", "mixed"):
                out.append({"kind": "maps", "family": "Continuous2D", "shape": _shape2(rnd, n2max, deg), "spec": spec, "r": r})
            for order in ("C", "F"):
                for vis in (False, True):
                    out.append({"kind": "maps", "family": "Image2D", "shape": _shape2(rnd, n2max, deg), "order": order, "visual_only": vis, "r": r})
            for vis in (False, True):
                out.append({"kind": "maps", "family": "_DefaultGeometry2D", "shape": _shape2(rnd, n2max, deg), "visual_only": vis, "r": r})
        for base in BASES:
            for mp in MAPS:
                if mp == "sq1" and base == "KLExpansion":
                    continue
                for deg in (("none", "axis0=1", "axis1=1") if base in ("Image2D_C", "Image2D_F") else
                            ("none", "par_dim=1") if base in ("KLExpansion", "StepExpansion") else ("none",)):
                    out.append({"kind": "maps", "family": "MappedGeometry", "base": base, "map": mp, "deg": deg,
                                "n": rnd.randint(2, 24), "shape": _shape2(rnd, 7, deg if "axis" in deg else "none"),
                                "nested": rnd.random() < 0.15, "r": r})
            for mp in COUPLED_MAPS:
                out.append({"kind": "maps", "family": "MappedGeometry", "base": base, "map": mp, "deg": "none",
                            "n": rnd.randint(2, 24), "shape": _shape2(rnd, 7, "none"), "nested": rnd.random() < 0.25, "r": r})
            out.append({"kind": "maps", "family": "MappedGeometry", "base": base, "map": "noinv", "deg": "none",
                        "n": rnd.randint(2, 24), "shape": _shape2(rnd, 7, "none"), "nested": False, "r": r})
        for modes in ("one", "partial", "full", "over", "none"):
            out.append({"kind": "maps", "family": "KLExpansion", "n": rnd.randint(2, n1max), "modes": modes, "grid": rnd.choice(GRID_KINDS), "r": r})
        for steps in ("one", "mid", "n_grid-1", "n_grid"):
            for proj in ("mean", "max", "min"):
                out.append({"kind": "maps", "family": "StepExpansion", "n": rnd.randint(3, n1max), "steps": steps, "proj": proj,
                            "grid": rnd.choice(GRID_KINDS), "r": r})
        out.append({"kind": "maps", "family": "KLExpansion_Full", "n": rnd.randint(2, 40), "r": r})
        out.append({"kind": "maps", "family": "CustomKL", "n": rnd.randint(5, 14), "r": r})
    # ---- exhaustive step sweep -------------------------------------------------------------
    nstep_max = 40 if quick else 60
    for n in range(2, nstep_max + 1):
        for gk in GRID_KINDS:
            if quick and gk in ("faroffset", "jitter", "tiny", "huge") and n % 3 != 0:
                continue
            for v in range(1 if (quick or gk in ("unit", "integer")) else 2):
                out.append({"kind": "step_sweep", "n": n, "grid": gk, "v": v})
    # ---- KL sweep --------------------------------------------------------------------------
    for n in (range(2, 61, 1) if not quick else list(range(2, 26)) + [31, 32, 47, 60]):
        for v in range(1 if quick else 3):
            out.append({"kind": "kl_sweep", "n": n, "v": v})
    # ---- KL grid re-assignment histories ---------------------------------------------------
    for v in range(12 if quick else 60):
        sizes = [rnd.randint(2, 40) for _ in range(rnd.randint(2, 4))]
        modes = rnd.choice([None, "fixed_small", "fixed_mid", "over"])
        m = None if modes is None else (rnd.randint(1, min(sizes)) if modes == "fixed_small" else
                                        rnd.randint(min(sizes), max(sizes)) if modes == "fixed_mid" else max(sizes) + rnd.randint(1, 9))
        out.append({"kind": "kl_regrid", "sizes": sizes, "num_modes": m, "start_none": rnd.random() < 0.5,
                    "none_between": rnd.random() < 0.3, "v": v})
    for v in range(6 if quick else 30):
        fam = ("Continuous1D", "Continuous2D")[v % 2]
        out.append({"kind": "regrid", "family": fam, "n": [rnd.randint(2, 30), rnd.randint(2, 30)],
                    "shapes": [_shape2(rnd, 8, "none"), _shape2(rnd, 8, "none")], "start_none": rnd.random() < 0.3, "v": v})
    for v in range(4 if quick else 16):
        out.append({"kind": "defaults", "n": rnd.randint(1, 40), "Ns": rnd.choice([1, 2, 5]), "v": v})
    # ---- representation of flags and sizes (Python bool/int vs NumPy scalars vs 0/1) --------
    for r in range(2 if quick else 8):
        for fam in REPR_FAMILIES:
            for size_repr in ("np.int64", "np.int32"):
                out.append({"kind": "repr", "family": fam, "size_repr": size_repr, "n": rnd.randint(2, 12),
                            "shape": _shape2(rnd, 6, "none"), "Ns": rnd.choice([1, 2, 4]), "r": r})
    # ---- refusals of inadmissible set-ups --------------------------------------------------
    for v in range(4 if quick else 12):
        out.append({"kind": "inadmissible", "n": rnd.randint(3, 30), "v": v})
    # extreme but legal magnitudes of the values carried by the linear geometries
    j = 0
    for c in out:
        if c["kind"] == "maps" and c["family"] not in ("MappedGeometry", "KLExpansion_Full", "CustomKL"):
            c["scale"] = (1.0, 1e-12, 1e12)[j % 3]; j += 1
    return out

def crash_config(case):
    return {k: case[k] for k in ("kind", "family", "base", "map") if k in case}

# ----------------------------------------------------------------------------- geometry descriptions

class Desc:
    """A geometry under test together with its documentation-derived reference."""
    def __init__(self, geom, impl, cfg, par_dim, fun_shape, ref_p2f, ref_f2p, ref_f2v=None, ref_v2f=None,
                 offers_f2p=True, offers_vec=True, funvec_dim=None, bijective=True, linear=False, projection=False,
                 par_domain="real", fun_domain="real", rtol=1e-12, f2p_scale=None):
        self.geom, self.impl, self.cfg = geom, impl, dict(cfg)
        self.cfg.setdefault("geometry", type(geom).__name__)
        self.cfg.setdefault("impl", impl)
        self.cfg.setdefault("degenerate", "none")
        self.par_dim, self.fun_shape = int(par_dim), tuple(int(s) for s in fun_shape)
        self.ref_p2f, self.ref_f2p, self.ref_f2v, self.ref_v2f = ref_p2f, ref_f2p, ref_f2v, ref_v2f
        self.offers_f2p, self.offers_vec = offers_f2p, offers_vec
        self.funvec_dim = funvec_dim
        self.bijective, self.linear, self.projection = bijective, linear, projection
        self.par_domain, self.fun_domain, self.rtol = par_domain, fun_domain, rtol
        self.f2p_scale = f2p_scale        # per-component error amplification of fun2par (KL)
        self.columnwise = True            # False: user map couples the entries of one function value (no batch calls)
        self.val_scale = 1.0              # magnitude of the generated parameter / function values
        self.skip_inverse = False         # set when the geometry is already known to be broken (empty step)

    def sample_par(self, rs, k=None, dtype="float"):
        shape = (self.par_dim,) if k is None else (self.par_dim, k)
        if dtype == "int":
            lo = 1 if self.par_domain == "positive" else -6
            return rs.randint(lo, 9, size=shape).astype(np.int64)
        if self.par_domain == "positive":
            return rs.uniform(0.3, 2.5, size=shape)
        return rs.uniform(-1.5, 1.5, size=shape) * self.val_scale

    def sample_fun(self, rs, k=None):
        shape = self.fun_shape if k is None else self.fun_shape + (k,)
        if self.fun_domain == "positive":
            return rs.uniform(0.2, 3.0, size=shape)
        if self.fun_domain == "ge1":
            return rs.uniform(1.1, 4.0, size=shape)
        return rs.uniform(-2.0, 2.0, size=shape) * self.val_scale

def _grid(kind, n, rs):
    """Regular 1D grids: offsets, spacings, construction routes whose round-off differs."""
    if kind == "unit":
        return np.linspace(0, 1, n)
    if kind == "integer":                      # nodes and coinciding step boundaries are exact floats: no round-off ambiguity
        return float(rs.randint(-20, 20)) + np.arange(n, dtype=float)
    if kind in ("tiny", "huge"):               # extreme but legal length scales; offset of the order of the spacing
        h = float(10 ** (rs.uniform(-12, -9) if kind == "tiny" else rs.uniform(9, 12)))
        return h * (float(rs.uniform(-5, 5)) + np.arange(n))
    if kind == "faroffset":
        x0 = float(rs.choice([-1.0, 1.0]) * 10 ** rs.uniform(2, 5)); h = float(10 ** rs.uniform(-2, 1))
        return x0 + h * np.arange(n)
    x0 = float(rs.uniform(-5, 5)); h = float(10 ** rs.uniform(-2, 0.5))
    if kind == "linspace":
        return np.linspace(x0, x0 + h * (n - 1), n)
    if kind == "jitter":                       # still "regular" for the library's allclose test
        g = x0 + h * (np.arange(n) + 1e-8 * rs.uniform(-1, 1, n))
        return g
    return x0 + h * np.arange(n)

def _desc_identity(geom, impl, n, cfg):
    return Desc(geom, impl, cfg, n, (n,), lambda p: R.identity_par2fun(p, n), lambda f: R.identity_par2fun(f, n),
                ref_f2v=lambda f: np.array(f, dtype=float), ref_v2f=lambda v: np.array(v, dtype=float), funvec_dim=n,
                linear=True, rtol=0.0)

def _desc_cont2d(cuqi, shape, spec, rs):
    n0, n1 = shape
    if spec == "ints":
        grid = (n0, n1)
    elif spec == "arrays":
        grid = (_grid("arange", n0, rs), np.sort(rs.uniform(-3, 3, n1)))
    else:
        grid = (n0, list(np.linspace(-1.0, 2.0, n1)))
    geom = cuqi.geometry.Continuous2D(grid)
    fs = (n0, n1)
    return Desc(geom, "Continuous2D", {"degenerate": _deg2(shape), "spec": spec}, n0 * n1, fs,
                lambda p: R.cont2d_par2fun(p, fs), lambda f: R.cont2d_fun2par(f, fs), offers_vec=False, linear=True, rtol=0.0)

def _desc_image(cuqi, cls, shape, order, vis):
    shape = tuple(shape)
    n = shape[0] * shape[1]
    if cls == "_DefaultGeometry2D":
        from cuqi.geometry import _DefaultGeometry2D
        geom = _DefaultGeometry2D(shape, visual_only=vis)
        order = "C"
    else:
        geom = cuqi.geometry.Image2D(shape, order=order, visual_only=vis)
    cfg = {"degenerate": _deg2(shape), "order": order, "visual_only": bool(vis)}
    if vis:
        d = _desc_identity(geom, "Image2D", n, cfg)
        return d
    return Desc(geom, "Image2D", cfg, n, shape, lambda p: R.image_par2fun(p, shape, order), lambda f: R.image_fun2par(f, shape, order),
                ref_f2v=lambda f: R.image_fun2par(f, shape, order), ref_v2f=lambda v: R.image_par2fun(v, shape, order),
                funvec_dim=n, linear=True, rtol=0.0)

def _desc_kl(cuqi, grid, decay, normalizer, num_modes, geom=None, S=None):
    n = len(grid)
    if geom is None:
        geom = cuqi.geometry.KLExpansion(grid, decay_rate=decay, normalizer=normalizer, num_modes=num_modes)
    m = n if (num_modes is None or num_modes > n) else num_modes
    S = R.kl_basis(n) if S is None else S
    modes = "none" if num_modes is None else "over" if num_modes > n else "full" if num_modes == n else "one" if num_modes == 1 else "partial"
    scale = 1.0 / R.kl_scaling(m, decay, normalizer)
    return Desc(geom, "KLExpansion", {"modes": modes, "degenerate": "par_dim=1" if m == 1 else "none"}, m, (n,),
                lambda p: R.kl_par2fun(p, n, decay, normalizer, S), lambda f: R.kl_fun2par(f, n, m, decay, normalizer, S),
                ref_f2v=lambda f: np.array(f, dtype=float), ref_v2f=lambda v: np.array(v, dtype=float), funvec_dim=n,
                bijective=(m == n), projection=True, rtol=1e-9, f2p_scale=scale)

def _steps_class(n, ns):
    return "one" if ns == 1 else "n_grid" if ns == n else "n_grid-1" if ns == n - 1 else "mid"

def _desc_step(cuqi, grid, ns, proj, proj_spelling=None):
    n = len(grid)
    geom = cuqi.geometry.StepExpansion(grid, n_steps=ns, fun2par_projection=proj_spelling or proj)
    d = Desc(geom, "StepExpansion", {"steps": _steps_class(n, ns), "projection": proj, "degenerate": "par_dim=1" if ns == 1 else "none"},
             ns, (n,), None, None, ref_f2v=lambda f: np.array(f, dtype=float), ref_v2f=lambda v: np.array(v, dtype=float),
             funvec_dim=n, bijective=(ns == n), linear=True, projection=True, rtol=1e-12)
    d.step = (n, ns, proj)
    d.exact_grid = False
    return d

def _cm_cumsum(x):
    x = np.asarray(x, dtype=float); return np.cumsum(x.ravel()).reshape(x.shape)
def _cm_icumsum(y):
    y = np.asarray(y, dtype=float); return np.diff(y.ravel(), prepend=0.0).reshape(y.shape)
def _cm_meanplus(x):
    x = np.asarray(x, dtype=float); return x + x.mean()
def _cm_imeanplus(y):
    y = np.asarray(y, dtype=float); return y - y.mean() / 2.0
def _cm_reverse(x):
    x = np.asarray(x, dtype=float); return x.ravel()[::-1].reshape(x.shape).copy()
def _cm_normalize(x):
    x = np.asarray(x, dtype=float); return x / np.linalg.norm(x)
def _cm_softmax(x):
    x = np.asarray(x, dtype=float); e = np.exp(x - x.max()); return e / e.sum()
def _cm_maxnorm(x):
    x = np.asarray(x, dtype=float); return x / np.max(np.abs(x))

# user maps that are well defined on ONE function value (any shape) but couple its entries: applied to a matrix of
# samples they keep the shape and silently mix the columns, so every conversion has to go sample by sample
COUPLED_MAPS = ("cumsum", "meanplus", "reverse", "normalize", "softmax", "maxnorm")

_MAPFUNS = {
    "cumsum": (_cm_cumsum, _cm_icumsum, "real", "real"),
    "meanplus": (_cm_meanplus, _cm_imeanplus, "real", "real"),
    "reverse": (_cm_reverse, _cm_reverse, "real", "real"),
    "normalize": (_cm_normalize, None, "real", "real"),
    "softmax": (_cm_softmax, None, "real", "real"),
    "maxnorm": (_cm_maxnorm, None, "real", "real"),
    "exp": (np.exp, np.log, "real", "positive"),
    "affine": (lambda x: 2.5 * x - 1.0, lambda y: (y + 1.0) / 2.5, "real", "real"),
    "sinh": (np.sinh, np.arcsinh, "real", "real"),       # smooth and well conditioned in both directions
    "sq1": (lambda x: x ** 2 + 1.0, lambda y: np.sqrt(y - 1.0), "positive", "ge1"),
    "noinv": (np.exp, None, "real", "positive"),
}

def _desc_mapped(cuqi, base, mapname, nested):
    fmap, imap, pdom, fdom = _MAPFUNS[mapname]
    if nested:      # map = outer o inner ; outer is affine
        inner = cuqi.geometry.MappedGeometry(base.geom, fmap, imap)
        geom = cuqi.geometry.MappedGeometry(inner, lambda x: 2.0 * x + 0.5, (lambda y: (y - 0.5) / 2.0) if imap is not None else None)
        f_all = lambda x: 2.0 * fmap(x) + 0.5
        i_all = (lambda y: imap((y - 0.5) / 2.0)) if imap is not None else None
        # keep the domains valid: affine outer shifts a positive range to >0.5 ; handled by sampling through f_all below
    else:
        geom = cuqi.geometry.MappedGeometry(base.geom, fmap, imap)
        f_all, i_all = fmap, imap
    cfg = dict(base.cfg); cfg["geometry"] = "MappedGeometry"; cfg["map"] = mapname; cfg["nested"] = bool(nested)
    coupled = mapname in COUPLED_MAPS
    cfg["map_kind"] = "coupled" if coupled else "elementwise"
    d = Desc(geom, base.impl, cfg, base.par_dim, base.fun_shape,
             (lambda p: f_all(base.ref_p2f(p))) if base.ref_p2f is not None else None,
             (lambda f: base.ref_f2p(i_all(np.asarray(f, dtype=float)))) if (base.ref_f2p is not None and i_all is not None) else None,
             ref_f2v=base.ref_f2v, ref_v2f=base.ref_v2f, offers_f2p=(imap is not None and base.offers_f2p), offers_vec=base.offers_vec,
             funvec_dim=base.funvec_dim, bijective=base.bijective, linear=False, projection=False,
             par_domain=pdom, fun_domain=fdom, rtol=max(base.rtol, 1e-9), f2p_scale=base.f2p_scale)
    d.base = base
    d.f_all, d.i_all = f_all, i_all
    d.columnwise = not coupled
    if nested and not coupled:      # function values must lie in the range of f_all so that the inverse is defined
        d.sample_fun = lambda rs, k=None: f_all(rs.uniform(0.3, 1.4, size=(base.fun_shape if k is None else base.fun_shape + (k,))))
    if hasattr(base, "step"):
        d.step = base.step
    return d

def _build(case, cuqi, rs):
    fam = case["family"]
    if fam in ("Continuous1D", "_DefaultGeometry1D"):
        n = case["n"]
        if fam == "_DefaultGeometry1D":
            from cuqi.geometry import _DefaultGeometry1D
            return _desc_identity(_DefaultGeometry1D(n), "Continuous1D", n, {"degenerate": "n=1" if n == 1 else "none"})
        spec = case["spec"]
        arg = n if spec == "int" else (n,) if spec == "tuple1" else list(_grid("arange", n, rs)) if spec == "list" else _grid("linspace", n, rs)
        return _desc_identity(cuqi.geometry.Continuous1D(arg), "Continuous1D", n, {"degenerate": "n=1" if n == 1 else "none", "spec": spec})
    if fam == "Discrete":
        n = case["n"]
        arg = n if case["spec"] == "int" else ["var_%d" % i for i in range(n)]
        return _desc_identity(cuqi.geometry.Discrete(arg), "Discrete", n, {"degenerate": "n=1" if n == 1 else "none", "spec": case["spec"]})
    if fam == "Continuous2D":
        return _desc_cont2d(cuqi, case["shape"], case["spec"], rs)
    if fam in ("Image2D", "_DefaultGeometry2D"):
        return _desc_image(cuqi, fam, case["shape"], case.get("order", "C"), case["visual_only"])
    if fam == "KLExpansion":
        n = case["n"]
        modes = case["modes"]
        m = {"one": 1, "partial": int(rs.randint(1, n)) if n > 1 else 1, "full": n, "over": n + int(rs.randint(1, 20)), "none": None}[modes]
        return _desc_kl(cuqi, _grid(case["grid"], n, rs), float(rs.uniform(0.5, 3.0)), float(rs.uniform(0.5, 20.0)), m)
    if fam == "StepExpansion":
        n = case["n"]
        ns = {"one": 1, "mid": int(rs.randint(2, max(3, n - 1))), "n_grid-1": n - 1, "n_grid": n}[case["steps"]]
        spelling = case["proj"] if rs.rand() < 0.5 else rs.choice([case["proj"].upper(), case["proj"].capitalize()])
        d = _desc_step(cuqi, _grid(case["grid"], n, rs), ns, case["proj"], str(spelling))
        d.exact_grid = case["grid"] == "integer"
        return d
    if fam == "MappedGeometry":
        b, deg, n, shape = case["base"], case["deg"], case["n"], case["shape"]
        if b == "Continuous1D":
            base = _desc_identity(cuqi.geometry.Continuous1D(_grid("arange", n, rs)), "Continuous1D", n, {})
        elif b == "Discrete":
            base = _desc_identity(cuqi.geometry.Discrete(n), "Discrete", n, {})
        elif b == "Continuous2D":
            base = _desc_cont2d(cuqi, shape, "ints", rs)
        elif b.startswith("Image2D"):
            base = _desc_image(cuqi, "Image2D", shape, "F" if b.endswith("_F") else "C", b.endswith("_V"))
        elif b == "KLExpansion":
            base = _desc_kl(cuqi, _grid("arange", n, rs), float(rs.uniform(0.5, 2.5)), float(rs.uniform(0.5, 12.0)),
                            1 if deg == "par_dim=1" else int(rs.randint(2, n + 1)) if n > 2 else n)
        else:
            base = _desc_step(cuqi, _grid("linspace", max(n, 4), rs), 1 if deg == "par_dim=1" else int(rs.randint(2, max(3, max(n, 4) - 2))), "mean")
        return _desc_mapped(cuqi, base, case["map"], case["nested"])
    raise ValueError(fam)

# ----------------------------------------------------------------------------- monitor helpers

def _cfg(d, **kw):
    c = dict(d.cfg); c.update(kw); return c

def _call(ctx, d, via, inp, fn, *args, expect_refusal=False):
    """Run a library call; classify. Returns (True, value) or (False, None)."""
    kind, val = core.outcome(fn, *args)
    if kind == "value":
        return True, val
    if kind == "refused":
        if expect_refusal:
            ctx.refused(f"{d.cfg['impl']}.{via}", val); ctx.count("refusal_observed")
        else:
            ctx.violation("unexpected_refusal", _cfg(d, via=via, input=inp, exc=type(val).__name__),
                          detail=f"{via} on a well-formed {inp} input raised {type(val).__name__}: {core.short(str(val), 200)}")
        return False, None
    ctx.violation("crash", _cfg(d, via=via, input=inp, exc=type(val).__name__), detail=f"{via} raised {type(val).__name__}: {core.short(str(val), 200)}")
    return False, None

def _tol_f2p(d, fscale):
    """absolute tolerance vector for parameters recovered by fun2par (KL amplifies by 1/coef)."""
    if d.f2p_scale is None:
        return None
    return 1e-10 * d.f2p_scale * (fscale if fscale > 0 else 1.0)

def _same(ctx, got, ref, rtol, atol_vec=None, scale=None):
    """values equal (shape-insensitive when sizes agree); returns (equal, maxdiff)."""
    got = np.asarray(got, dtype=float); ref = np.asarray(ref, dtype=float)
    if got.size != ref.size:
        return False, float("inf")
    g = got.reshape(ref.shape)
    if atol_vec is not None:
        av = np.asarray(atol_vec, dtype=float)
        av = av.reshape(av.shape + (1,) * (ref.ndim - av.ndim))
        if not (np.all(np.isfinite(g)) and np.all(np.isfinite(ref))):
            return bool(np.array_equal(g, ref, equal_nan=True)), float("nan")
        diff = np.abs(g - ref)
        ok = bool(np.all(diff <= av + max(rtol, 1e-9) * np.abs(ref)))
        return ok, float(np.max(diff / (av + 1e-300))) if diff.size else 0.0
    if scale is None:
        with np.errstate(invalid="ignore"):
            fin = np.concatenate([np.abs(g[np.isfinite(g)]).ravel(), np.abs(ref[np.isfinite(ref)]).ravel()])
        scale = float(fin.max()) if fin.size else 0.0
    ok = ctx.close(g, ref, rtol=max(rtol, 1e-15) if rtol > 0 else 0.0, atol=0.0 if rtol == 0 else 1e-13 * scale, scale=scale)
    with np.errstate(invalid="ignore"):
        md = float(np.nanmax(np.abs(g - ref))) if g.size else 0.0
    return ok, md

def _eqv(ctx, d, a, b):
    """two library evaluations of the same map on the same values: identical for pure copy maps, equal up to
    round-off otherwise (elementwise transcendental maps / FFTs may differ in the last bit between a strided view
    and a contiguous copy of the same numbers)."""
    a = np.asarray(a, dtype=float); b = np.asarray(b, dtype=float)
    if a.shape != b.shape:
        return False
    if d.rtol == 0:
        return bool(np.array_equal(a, b, equal_nan=True))
    with np.errstate(invalid="ignore"):
        fin = np.abs(b[np.isfinite(b)])
    sc = float(fin.max()) if fin.size else 0.0
    return ctx.close(a, b, rtol=1e-11, atol=1e-14 * sc)

def _shape_ok_batch(shape, single_shape, k):
    """batch result must be the per-column results stacked on a new last axis; a one-column batch may be squeezed."""
    shape, single_shape = tuple(shape), tuple(single_shape)
    if shape == single_shape + (k,):
        return True
    return k == 1 and shape == single_shape

def _layout(P, how):
    if how == "F":
        return np.asfortranarray(P)
    if how == "strided":
        big = np.zeros(P.shape[:-1] + (2 * P.shape[-1],), dtype=P.dtype)
        big[..., ::2] = P
        return big[..., ::2]
    return np.ascontiguousarray(P)

# ----------------------------------------------------------------------------- monitors

def probe_shapes(ctx, d):
    g = d.geom
    sk = f"{d.cfg['impl']}:{d.cfg['degenerate']}"
    rep = {}
    for name in ("par_shape", "par_dim", "fun_shape", "fun_dim"):
        ok, v = _call(ctx, d, name, "report", lambda nm=name: getattr(g, nm))
        if not ok:
            return None
        rep[name] = v
    doc = {"par_shape": (d.par_dim,), "par_dim": d.par_dim, "fun_shape": d.fun_shape, "fun_dim": int(np.prod(d.fun_shape))}
    # MappedGeometry infers fun_shape from its own par2fun, so for it "documented" is not independent: judged via produced shapes
    for name in doc:
        ctx.count("shape_reports_checked")
        got = rep[name]
        got_c = tuple(got) if isinstance(got, (tuple, list)) else got
        if got_c != doc[name] and not (d.cfg["geometry"] == "MappedGeometry" and name in ("fun_shape", "fun_dim")):
            ctx.violation("shape_report_mismatch", _cfg(d, via=name), detail=f"{name} reported {got!r}, documented {doc[name]!r}")
    if rep["par_shape"] is not None and rep["par_dim"] != int(np.prod(rep["par_shape"])):
        ctx.violation("shape_report_mismatch", _cfg(d, via="par_dim"), detail=f"par_dim {rep['par_dim']} vs par_shape {rep['par_shape']}")
    if rep["fun_shape"] is not None and rep["fun_dim"] != int(np.prod(rep["fun_shape"])):
        ctx.violation("shape_report_mismatch", _cfg(d, via="fun_dim"), detail=f"fun_dim {rep['fun_dim']} vs fun_shape {rep['fun_shape']}")
    ok, fv = _call(ctx, d, "funvec_shape", "report", lambda: g.funvec_shape, expect_refusal=not d.offers_vec)
    rep["funvec_shape"] = tuple(fv) if ok and fv is not None else None
    if ok and d.offers_vec:
        ctx.count("shape_reports_checked")
        if rep["funvec_shape"] != (d.funvec_dim,):
            ctx.violation("shape_report_mismatch", _cfg(d, via="funvec_shape"), detail=f"funvec_shape {fv!r}, documented {(d.funvec_dim,)}")
            rep["funvec_shape"] = (d.funvec_dim,)      # reported once; produced shapes are then compared with the documented one
        ok2, fd = _call(ctx, d, "funvec_dim", "report", lambda: g.funvec_dim)
        if ok2 and fd != d.funvec_dim:
            ctx.violation("shape_report_mismatch", _cfg(d, via="funvec_dim"), detail=f"funvec_dim {fd!r}, documented {d.funvec_dim}")
    ctx.nontrivial(sk + ":shape_report")
    return rep

def _produced_shape(ctx, d, via, inp, got, reported):
    ctx.count("shape_produced_checked")
    if reported is not None and tuple(np.shape(got)) != tuple(reported):
        ctx.violation("shape_mismatch", _cfg(d, via=via, input=inp),
                      detail=f"{via} produced shape {np.shape(got)} but the geometry reports {tuple(reported)}")
        return False
    return True

def probe_single(ctx, d, rs, rep, dtype="float"):
    """reference maps, produced shapes, round trips, idempotence for single vectors."""
    g = d.geom
    sk = f"{d.cfg['impl']}:{d.cfg['degenerate']}"
    p = d.sample_par(rs, dtype=dtype)
    ok, f = _call(ctx, d, "par2fun", "single", g.par2fun, p)
    if not ok:
        return
    _produced_shape(ctx, d, "par2fun", "single", f, rep["fun_shape"])
    fref = None
    if d.ref_p2f is not None:
        fref = d.ref_p2f(np.asarray(p, dtype=float))
        ctx.count("reference_map_checked")
        eq, md = _same(ctx, f, fref, d.rtol)
        if not eq:
            ctx.violation("reference_mismatch", _cfg(d, via="par2fun", input="single"),
                          detail=f"par2fun(p) differs from the documented map (max abs diff {md:.3g}); p[:5]={np.asarray(p).ravel()[:5].tolist()}")
        ctx.nontrivial(sk + ":reference")
    # vector form of the function value
    if d.offers_vec:
        okv, v = _call(ctx, d, "fun2vec", "single", g.fun2vec, f)
        if okv:
            _produced_shape(ctx, d, "fun2vec", "single", v, rep["funvec_shape"])
            if fref is not None and d.ref_f2v is not None:
                ctx.count("reference_map_checked")
                eq, md = _same(ctx, v, d.ref_f2v(fref), d.rtol)
                if not eq:
                    ctx.violation("reference_mismatch", _cfg(d, via="fun2vec", input="single"), detail=f"fun2vec(par2fun(p)) differs from the documented vectorisation (max diff {md:.3g})")
            okb, fb = _call(ctx, d, "vec2fun", "single", g.vec2fun, v)
            if okb:
                _produced_shape(ctx, d, "vec2fun", "single", fb, rep["fun_shape"])
                ctx.count("roundtrip_checked")
                if not (np.shape(fb) == np.shape(f) and np.array_equal(np.asarray(fb), np.asarray(f), equal_nan=True)):
                    ctx.violation("roundtrip_mismatch", _cfg(d, via="vec2fun(fun2vec)", input="single"), detail="vec2fun(fun2vec(f)) != f")
    else:
        _call(ctx, d, "fun2vec", "single", g.fun2vec, f, expect_refusal=True)
    # inverse direction
    if not d.offers_f2p:
        _call(ctx, d, "fun2par", "single", g.fun2par, f, expect_refusal=True)
        ctx.nontrivial(sk + ":refusal")
        return
    if d.skip_inverse:
        ctx.count("inverse_skipped_empty_step")
        return
    okp, p2 = _call(ctx, d, "fun2par", "single", g.fun2par, f)
    if okp:
        _produced_shape(ctx, d, "fun2par", "single", p2, rep["par_shape"])
        ctx.count("roundtrip_checked")
        fs = float(np.max(np.abs(np.asarray(f, dtype=float)))) if np.size(f) else 0.0
        eq, md = _same(ctx, p2, np.asarray(p, dtype=float), max(d.rtol, 1e-12) if d.rtol > 0 else 0.0, _tol_f2p(d, fs))
        if not eq:
            ctx.violation("roundtrip_mismatch", _cfg(d, via="fun2par(par2fun)", input="single"),
                          detail=f"fun2par(par2fun(p)) != p (max diff {md:.3g}); p[:5]={np.asarray(p).ravel()[:5].tolist()} back[:5]={np.asarray(p2, dtype=float).ravel()[:5].tolist()}")
        ctx.nontrivial(sk + ":roundtrip")
    # arbitrary function value of the documented shape
    F = d.sample_fun(rs)
    okq, q = _call(ctx, d, "fun2par", "single", g.fun2par, F)
    if not okq:
        return
    _produced_shape(ctx, d, "fun2par", "single", q, rep["par_shape"])
    fs = float(np.max(np.abs(F))) if F.size else 0.0
    if d.ref_f2p is not None:
        ctx.count("reference_map_checked")
        eq, md = _same(ctx, q, d.ref_f2p(F), max(d.rtol, 1e-12) if d.rtol > 0 else 0.0, _tol_f2p(d, fs))
        if not eq:
            ctx.violation("reference_mismatch", _cfg(d, via="fun2par", input="single"), detail=f"fun2par(f) differs from the documented inverse/projection (max diff {md:.3g})")
    okF, F2 = _call(ctx, d, "par2fun", "single", g.par2fun, np.asarray(q).reshape(-1) if np.ndim(q) == 0 else q)
    if not okF:
        return
    if d.bijective:
        ctx.count("roundtrip_checked")
        eq, md = _same(ctx, F2, F, max(d.rtol, 1e-12) if d.rtol > 0 else 0.0, scale=(fs if fs > 0 else 1.0))
        if not eq:
            ctx.violation("roundtrip_mismatch", _cfg(d, via="par2fun(fun2par)", input="single"), detail=f"par2fun(fun2par(f)) != f for an invertible geometry (max diff {md:.3g})")
    if d.projection or d.cfg["geometry"] == "MappedGeometry":
        # once more back and forth changes nothing
        okr, q2 = _call(ctx, d, "fun2par", "single", g.fun2par, F2)
        if okr:
            okS, F3 = _call(ctx, d, "par2fun", "single", g.par2fun, np.asarray(q2).reshape(-1) if np.ndim(q2) == 0 else q2)
            ctx.count("projection_idempotence_checked")
            e1, m1 = _same(ctx, q2, q, max(d.rtol, 1e-12), _tol_f2p(d, fs))
            e2, m2 = (_same(ctx, F3, F2, max(d.rtol, 1e-12), scale=(fs if fs > 0 else 1.0)) if okS else (True, 0.0))
            if not (e1 and e2):
                ctx.violation("projection_not_idempotent", _cfg(d, via="fun2par/par2fun", input="single"),
                              detail=f"mapping back and forth once more changed the result (parameters diff {m1:.3g}, function diff {m2:.3g})")
            ctx.nontrivial(sk + ":idempotence")

def probe_contribution(ctx, d):
    """every node / pixel receives exactly one parameter's contribution (linear geometries)."""
    g = d.geom
    n = d.par_dim
    hits = np.zeros(int(np.prod(d.fun_shape)), dtype=int)
    total = np.zeros(int(np.prod(d.fun_shape)))
    for i in range(n):
        e = np.zeros(n); e[i] = 1.0
        ok, f = _call(ctx, d, "par2fun", "single", g.par2fun, e)
        if not ok:
            return
        f = np.asarray(f, dtype=float).ravel()
        if f.size != hits.size:
            return  # shape defect reported elsewhere
        hits += (f != 0)
        total += f
    ctx.count("one_contribution_nodes_checked", hits.size)
    if not (np.all(hits == 1) and np.all(total == 1.0)):
        badk = np.where((hits != 1) | (total != 1.0))[0][:6].tolist()
        ctx.violation("contribution_count", _cfg(d, via="par2fun", input="unit_vectors"),
                      detail=f"nodes {badk} receive {hits[badk].tolist()} unit contributions (sum {total[badk].tolist()}); every node must receive exactly one")
    ctx.nontrivial(f"{d.cfg['impl']}:{d.cfg['degenerate']}:contribution")

def probe_batch(ctx, d, rs, sizes=BATCH_SIZES, layouts=("C",), dtype="float"):
    g = d.geom
    sk = f"{d.cfg['impl']}:{d.cfg['degenerate']}"
    for k in sizes:
        for lay in layouts:
            P = _layout(d.sample_par(rs, k, dtype=dtype), lay)
            cols = []
            for c in range(k):
                ok, fc = _call(ctx, d, "par2fun", "single", g.par2fun, np.array(P[:, c]))
                if not ok:
                    return
                cols.append(np.asarray(fc))
            ok, FB = _call(ctx, d, "par2fun", "batch", g.par2fun, P)
            if ok:
                _compare_batch(ctx, d, "par2fun", FB, cols, k, lay)
            # function values in documented shape, stacked on the last axis
            if d.offers_vec:
                Fin = _layout(np.stack([np.asarray(d.ref_p2f(np.asarray(P[:, c], dtype=float))) if d.ref_p2f is not None else cols[c].reshape(d.fun_shape)
                                        for c in range(k)], axis=-1), lay)
                vcols = []
                for c in range(k):
                    okc, vc = _call(ctx, d, "fun2vec", "single", g.fun2vec, np.array(Fin[..., c]))
                    if not okc:
                        break
                    vcols.append(np.asarray(vc))
                if len(vcols) == k:
                    okV, VB = _call(ctx, d, "fun2vec", "batch", g.fun2vec, Fin)
                    if okV:
                        _compare_batch(ctx, d, "fun2vec", VB, vcols, k, lay)
                    Vin = _layout(np.stack([v.reshape(-1) for v in vcols], axis=-1), lay)
                    fcols = []
                    for c in range(k):
                        okc, fc = _call(ctx, d, "vec2fun", "single", g.vec2fun, np.array(Vin[:, c]))
                        if not okc:
                            break
                        fcols.append(np.asarray(fc))
                    if len(fcols) == k:
                        okF, FB2 = _call(ctx, d, "vec2fun", "batch", g.vec2fun, Vin)
                        if okF:
                            _compare_batch(ctx, d, "vec2fun", FB2, fcols, k, lay)
            if d.offers_f2p and not d.skip_inverse:
                Fin = _layout(d.sample_fun(rs, k), lay)
                pcols = []
                for c in range(k):
                    okc, pc = _call(ctx, d, "fun2par", "single", g.fun2par, np.array(Fin[..., c]))
                    if not okc:
                        return
                    pcols.append(np.asarray(pc))
                okP, PB = _call(ctx, d, "fun2par", "batch", g.fun2par, Fin)
                if okP:
                    _compare_batch(ctx, d, "fun2par", PB, pcols, k, lay)
    ctx.nontrivial(sk + ":batch")

def _compare_batch(ctx, d, via, got, cols, k, lay):
    ctx.count("batch_columns_checked", k)
    got = np.asarray(got)
    single_shape = cols[0].shape
    ref = np.stack(cols, axis=-1)
    kk = "1" if k == 1 else "many"
    if not _shape_ok_batch(got.shape, single_shape, k):
        ctx.violation("batch_not_columnwise", _cfg(d, via=via, input="batch", columns=kk),
                      detail=f"{via} on {k} columns (layout {lay}) returned shape {got.shape}; column-wise application gives {single_shape}+({k},)")
        return
    if not np.array_equal(got.reshape(ref.shape), ref, equal_nan=True):
        # identical arithmetic column by column is expected; allow round-off for transforms
        if d.rtol == 0 or not ctx.close(got.reshape(ref.shape), ref, rtol=1e-12, atol=1e-14):
            ctx.violation("batch_not_columnwise", _cfg(d, via=via, input="batch", columns=kk),
                          detail=f"{via} on {k} columns (layout {lay}) differs from the stacked per-column results (max diff {float(np.nanmax(np.abs(got.reshape(ref.shape) - ref))):.3g})")

# -- memory layout of the inputs ------------------------------------------------

LAYOUTS = ("C", "F", "T_view", "moveaxis", "strided", "negstride", "readonly")

def _relayout(X, how):
    """an array with the values of X held differently in memory"""
    X = np.ascontiguousarray(X)
    if how == "F":
        return np.asfortranarray(X)
    if how == "T_view":                      # transposed view of a C array (e.g. a transposed meshgrid result)
        return np.ascontiguousarray(X.T).T
    if how == "moveaxis":                    # sample axis stored first, viewed last
        return np.moveaxis(np.ascontiguousarray(np.moveaxis(X, -1, 0)), 0, -1) if X.ndim >= 2 else X[:]
    if how == "strided":
        big = np.zeros((2 * X.shape[0],) + X.shape[1:], dtype=X.dtype) if X.ndim else X.copy()
        if X.ndim:
            big[::2] = X
            return big[::2]
        return big
    if how == "negstride":
        return np.ascontiguousarray(X[::-1])[::-1] if X.ndim else X.copy()
    Y = X.copy()
    if how == "readonly":
        Y.setflags(write=False)
    return Y

def probe_layouts(ctx, d, rs, batch=True):
    """the result of every map depends on the values of its input only, never on how the array is held in memory
    (C / Fortran / transposed / strided / reversed / read-only), and the input is left unchanged."""
    g = d.geom
    sk = f"{d.cfg['impl']}:{d.cfg['degenerate']}"
    import cuqi
    CA, SA = cuqi.array.CUQIarray, cuqi.samples.Samples
    ks = (None, 3) if (batch and d.columnwise) else (None,)
    for k in ks:
        inp = "single" if k is None else "batch"
        P = d.sample_par(rs, k)
        F = d.sample_fun(rs, k) if (d.offers_f2p and not d.skip_inverse) else None
        jobs = [("par2fun", g.par2fun, P)]
        if F is not None:
            jobs.append(("fun2par", g.fun2par, F))
            if k is None:
                jobs.append(("CUQIarray.parameters", lambda X: np.asarray(CA(X, is_par=False, geometry=g).parameters), F))
            else:
                isv = len(d.fun_shape) == 1
                jobs.append(("Samples.parameters", lambda X, isv=isv: np.asarray(SA(X, geometry=g, is_par=False, is_vec=isv).parameters.samples), F))
        if d.offers_vec:
            Fv = F if F is not None else None
            if Fv is None:
                okf, Fv = _call(ctx, d, "par2fun", inp, g.par2fun, P.copy())
                Fv = np.asarray(Fv, dtype=float) if okf else None
            if Fv is not None and tuple(np.shape(Fv)) == (d.fun_shape if k is None else d.fun_shape + (k,)):
                jobs.append(("fun2vec", g.fun2vec, Fv))
                okv, V = core.outcome(g.fun2vec, np.ascontiguousarray(Fv))
                if okv == "value" and np.ndim(V) == (1 if k is None else 2):
                    jobs.append(("vec2fun", g.vec2fun, np.asarray(V, dtype=float)))
                if k is not None and len(d.fun_shape) > 1:
                    jobs.append(("Samples.vector", lambda X: np.asarray(SA(X, geometry=g, is_par=False, is_vec=False).vector.samples), Fv))
        if k is None:
            jobs.append(("CUQIarray.funvals", lambda X: np.asarray(CA(X, is_par=True, geometry=g).funvals), P))
        else:
            jobs.append(("Samples.funvals", lambda X: np.asarray(SA(X, geometry=g).funvals.samples), P))
        for via, fn, X in jobs:
            X = np.ascontiguousarray(np.asarray(X, dtype=float))
            kind0, base = core.outcome(fn, X.copy())
            if kind0 != "value":
                continue                      # refusals / defects of the plain call are judged by the other monitors
            base = np.array(base, dtype=float)
            for lay in LAYOUTS:
                Y = _relayout(X, lay)
                kind1, got = core.outcome(fn, Y)
                ctx.count("layout_invariance_checked")
                if kind1 != "value":
                    ctx.violation("layout_dependent", _cfg(d, via=via, input=inp, layout=lay, exc=type(got).__name__),
                                  detail=f"{via} accepts the values in a C-contiguous array but raised {type(got).__name__} for the same values held as '{lay}': {core.short(str(got), 160)}")
                    continue
                got = np.asarray(got, dtype=float)
                if got.shape != base.shape or not _eqv(ctx, d, got, base):
                    md = float(np.nanmax(np.abs(got - base))) if got.shape == base.shape and got.size else float("nan")
                    ctx.violation("layout_dependent", _cfg(d, via=via, input=inp, layout=lay),
                                  detail=f"{via} of the same values gives a different result when the input array is held as '{lay}' (shape {got.shape} vs {base.shape}, max diff {md:.3g})")
                ctx.count("input_unchanged_checked")
                if Y.shape != X.shape or not np.array_equal(np.asarray(Y), X, equal_nan=True):
                    ctx.violation("input_mutated", _cfg(d, via=via, input=inp, layout=lay), detail=f"{via} changed the array it was given (layout '{lay}')")
    ctx.nontrivial(sk + ":layout")

# -- StepExpansion structure ---------------------------------------------------

def probe_step_structure(ctx, d):
    """partition of the nodes as observed through par2fun; returns the observed assignment (or None)."""
    n, ns, proj = d.step
    g = d.base.geom if hasattr(d, "base") else d.geom
    dd = d.base if hasattr(d, "base") else d
    marks = np.arange(1, ns + 1, dtype=float) * 3.0 + 0.25          # distinct, non-zero
    ok, f = _call(ctx, dd, "par2fun", "single", g.par2fun, marks)
    if not ok:
        return None
    f = np.asarray(f, dtype=float).ravel()
    if f.size != n:
        ctx.violation("shape_mismatch", _cfg(dd, via="par2fun", input="single"), detail=f"par2fun returned {f.size} node values for a grid of {n}")
        return None
    doc, onb = R.step_documented(n, ns)
    assign = []
    for k in range(n):
        hit = np.where(marks == f[k])[0]
        assign.append(int(hit[0]) if hit.size == 1 else -1)
    ctx.count("step_nodes_membership_checked", n)
    bad_cov = [k for k in range(n) if assign[k] < 0]
    if bad_cov:
        ctx.violation("step_node_uncovered", _cfg(dd, via="par2fun"),
                      detail=f"n_grid={n} n_steps={ns}: nodes {bad_cov[:6]} receive no step value (par2fun gives {f[bad_cov[:6]].tolist()})")
        return None
    exact = getattr(dd, "exact_grid", False)       # integer grid: x0 + i*L/n_steps is exact wherever it coincides with a node
    wrong = [k for k in range(n) if not (assign[k] == doc[k] or (onb[k] and not exact and assign[k] == doc[k] + 1))]
    if wrong:
        ctx.violation("step_membership", _cfg(dd, via="par2fun"),
                      detail=f"n_grid={n} n_steps={ns}: nodes {wrong[:6]} are in steps {[assign[k] for k in wrong[:6]]}, documented {[doc[k] for k in wrong[:6]]}"
                             f" (interval (x0+i*L/n, x0+(i+1)*L/n], first closed)")
    empty = [i for i in range(ns) if i not in set(assign)]
    ctx.count("step_nonempty_checked", ns)
    if empty:
        d.skip_inverse = True
        dd.skip_inverse = True
        ctx.violation("step_empty", _cfg(dd, via="par2fun"),
                      detail=f"n_grid={n} n_steps={ns}: steps {empty[:6]} own no grid node (their parameters reach no node; fun2par returns NaN / raises for them)")
    ctx.nontrivial(f"StepExpansion:{dd.cfg['steps']}:structure")
    return assign

def attach_step_reference(d, assign):
    """reference maps that use the observed (validated) partition."""
    dd = d.base if hasattr(d, "base") else d
    n, ns, proj = dd.step
    dd.ref_p2f = lambda p: R.step_par2fun(p, assign)
    dd.ref_f2p = lambda f: R.step_fun2par(np.asarray(f, dtype=float), assign, ns, proj)
    if dd is not d:
        d.ref_p2f = lambda p: d.f_all(dd.ref_p2f(p))
        d.ref_f2p = (lambda f: dd.ref_f2p(d.i_all(np.asarray(f, dtype=float)))) if d.i_all is not None else None

# -- Samples / CUQIarray --------------------------------------------------------

def probe_samples(ctx, d, rs, Ns):
    import cuqi
    g = d.geom
    sk = f"{d.cfg['impl']}:{d.cfg['degenerate']}"
    P = d.sample_par(rs, Ns)
    cfg = lambda via: _cfg(d, via=via, input="samples")
    ok, s = _call(ctx, d, "Samples", "samples", lambda: cuqi.samples.Samples(P.copy(), geometry=g))
    if not ok:
        return
    per = []
    for i in range(Ns):
        okc, fi = _call(ctx, d, "par2fun", "single", g.par2fun, np.array(P[:, i]))
        if not okc:
            return
        per.append(np.asarray(fi, dtype=float))
    ok, sf = _call(ctx, d, "Samples.funvals", "samples", lambda: s.funvals)
    if not ok:
        return
    ctx.count("samples_conversion_checked", Ns)
    A = np.asarray(sf.samples)
    want_shape = tuple(g.fun_shape) + (Ns,)        # reported shape (reported vs documented is judged in probe_shapes)
    if sf.is_par or sf.Ns != Ns or A.shape != want_shape:
        ctx.violation("samples_conversion", cfg("funvals"), detail=f"funvals: is_par={sf.is_par} Ns={sf.Ns} shape={A.shape}, expected function samples of shape {want_shape}")
        return
    for i in range(Ns):
        if not _eqv(ctx, d, A[..., i].ravel(), per[i].ravel()):
            ctx.violation("samples_conversion", cfg("funvals"), detail=f"funvals sample {i} differs from par2fun of that sample (max diff {np.max(np.abs(A[..., i].ravel() - per[i].ravel())):.3g})")
            break
    same_form = [("parameters", lambda: s.parameters, P), ("vector", lambda: s.vector, P), ("funvals.funvals", lambda: sf.funvals, A)]
    for nm, get, arr in same_form:
        okk, obj = _call(ctx, d, "Samples." + nm, "samples", get)
        if not okk:
            continue
        if np.asarray(obj.samples).shape != arr.shape or not np.array_equal(np.asarray(obj.samples), arr, equal_nan=True):
            ctx.violation("samples_conversion", cfg("identity:" + nm), detail=f"converting samples to the form they already have ({nm}) changed them")
    # vector form
    sv = None
    if d.offers_vec:
        ok, sv = _call(ctx, d, "Samples.vector", "samples", lambda: sf.vector)
        if ok:
            ctx.count("samples_conversion_checked", Ns)
            V = np.asarray(sv.samples)
            if sv.is_par or not sv.is_vec or V.shape != (d.funvec_dim, Ns):
                ctx.violation("samples_conversion", cfg("vector"), detail=f"vector: is_par={sv.is_par} is_vec={sv.is_vec} shape={V.shape}, expected {(d.funvec_dim, Ns)}")
                sv = None
            else:
                for i in range(Ns):
                    okc, vi = _call(ctx, d, "fun2vec", "single", g.fun2vec, per[i].reshape(d.fun_shape) if per[i].size == int(np.prod(d.fun_shape)) else per[i])
                    if okc and not _eqv(ctx, d, V[:, i], np.asarray(vi, dtype=float).ravel()):
                        ctx.violation("samples_conversion", cfg("vector"), detail=f"vector sample {i} differs from fun2vec(par2fun(sample))")
                        break
                ok2, sf2 = _call(ctx, d, "Samples.funvals", "samples", lambda: sv.funvals)
                if ok2:
                    ctx.count("samples_conversion_checked", Ns)
                    B = np.asarray(sf2.samples)
                    if sf2.is_par or B.shape != A.shape or not np.array_equal(B, A, equal_nan=True):
                        ctx.violation("samples_conversion", cfg("vector->funvals"), detail=f"par->fun->vec->fun is not lossless (shape {B.shape} vs {A.shape})")
        else:
            sv = None
    elif not sf.is_vec:
        _call(ctx, d, "Samples.vector", "samples", lambda: sf.vector, expect_refusal=True)
    # back to parameters
    if d.offers_f2p and not d.skip_inverse:
        for label, src in (("funvals->parameters", sf), ("vector->parameters", sv)):
            if src is None:
                continue
            ok, sp = _call(ctx, d, "Samples.parameters", "samples", lambda: src.parameters)
            if not ok:
                continue
            ctx.count("samples_conversion_checked", Ns)
            Q = np.asarray(sp.samples)
            fs = max(float(np.max(np.abs(p))) if p.size else 0.0 for p in per)
            if not sp.is_par or Q.shape != (d.par_dim, Ns):
                ctx.violation("samples_conversion", cfg(label), detail=f"{label}: is_par={sp.is_par} shape={Q.shape}, expected {(d.par_dim, Ns)}")
                continue
            eq, md = _same(ctx, Q, P, max(d.rtol, 1e-12) if d.rtol > 0 else 0.0, _tol_f2p(d, fs))
            if not eq:
                ctx.violation("samples_conversion", cfg(label), detail=f"{label}: par->fun->par chain is not lossless (max diff {md:.3g})")
            ok3, sf3 = _call(ctx, d, "Samples.funvals", "samples", lambda: sp.funvals)
            if ok3:
                eq, md = _same(ctx, np.asarray(sf3.samples), A, max(d.rtol, 1e-11) if d.rtol > 0 else 0.0, scale=(fs if fs > 0 else 1.0))
                if np.asarray(sf3.samples).shape != A.shape or not eq:
                    ctx.violation("samples_conversion", cfg(label + "->funvals"), detail=f"second par->fun conversion differs from the first (max diff {md:.3g})")
        # samples given directly as function values: parameters == per-sample fun2par
        F = d.sample_fun(rs, Ns)
        isv = len(d.fun_shape) == 1
        ok, sF = _call(ctx, d, "Samples", "samples", lambda: cuqi.samples.Samples(F.copy(), geometry=g, is_par=False, is_vec=isv))
        if ok:
            ok, sq = _call(ctx, d, "Samples.parameters", "samples", lambda: sF.parameters)
            if ok and d.ref_f2p is not None:
                ctx.count("samples_conversion_checked", Ns)
                Q = np.asarray(sq.samples)
                ref = np.stack([np.asarray(d.ref_f2p(F[..., i])).reshape(-1) for i in range(Ns)], axis=-1)
                eq, md = _same(ctx, Q, ref, max(d.rtol, 1e-12) if d.rtol > 0 else 0.0, _tol_f2p(d, float(np.max(np.abs(F)))))
                if Q.shape != ref.shape or not eq:
                    ctx.violation("samples_conversion", cfg("fun-samples->parameters"), detail=f"parameters of function samples differ from the documented fun2par per sample (shape {Q.shape} vs {ref.shape}, max diff {md:.3g})")
    elif not d.offers_f2p:
        _call(ctx, d, "Samples.parameters", "samples", lambda: sf.parameters, expect_refusal=True)
    ctx.nontrivial(sk + ":samples")

def probe_array(ctx, d, rs):
    import cuqi
    g = d.geom
    sk = f"{d.cfg['impl']}:{d.cfg['degenerate']}"
    CA = cuqi.array.CUQIarray
    p = d.sample_par(rs)
    cfg = lambda via: _cfg(d, via=via, input="array")
    ok, a = _call(ctx, d, "CUQIarray", "array", lambda: CA(p.copy(), is_par=True, geometry=g))
    if not ok:
        return
    okf, fdir = _call(ctx, d, "par2fun", "single", g.par2fun, p.copy())
    ok, af = _call(ctx, d, "CUQIarray.funvals", "array", lambda: a.funvals)
    if not (ok and okf):
        return
    ctx.count("array_conversion_checked")
    if not isinstance(af, CA) or af.is_par is not False or af.geometry is not g or np.shape(af) != np.shape(fdir) \
            or not _eqv(ctx, d, np.asarray(af), np.asarray(fdir)):
        ctx.violation("array_conversion", cfg("funvals"), detail=f"CUQIarray.funvals (shape {np.shape(af)}, is_par={getattr(af, 'is_par', None)}) is not par2fun of the parameters (shape {np.shape(fdir)})")
        return
    if not np.array_equal(np.asarray(af.funvals), np.asarray(af)) or not np.array_equal(np.asarray(a.parameters), p):
        ctx.violation("array_conversion", cfg("identity"), detail="conversion to the form the array already has changed the values")
    nump = a.to_numpy()
    if type(nump) is not np.ndarray or not np.array_equal(nump, p):
        ctx.violation("array_conversion", cfg("to_numpy"), detail="to_numpy() is not the plain parameter array")
    if not d.offers_f2p:
        _call(ctx, d, "CUQIarray.parameters", "array", lambda: af.parameters, expect_refusal=True)
        ctx.nontrivial(sk + ":array")
        return
    if d.skip_inverse:
        return
    ok, ap = _call(ctx, d, "CUQIarray.parameters", "array", lambda: af.parameters)
    if not ok:
        return
    ctx.count("array_conversion_checked")
    fs = float(np.max(np.abs(np.asarray(fdir, dtype=float)))) if np.size(fdir) else 0.0
    eq, md = _same(ctx, np.asarray(ap), p, max(d.rtol, 1e-12) if d.rtol > 0 else 0.0, _tol_f2p(d, fs))
    if ap.is_par is not True or not eq:
        ctx.violation("array_conversion", cfg("funvals->parameters"), detail=f"par->fun->par through CUQIarray is not lossless (max diff {md:.3g}, is_par={ap.is_par})")
    # once more: the array obtained back must convert again, to the same function values
    ok, af2 = _call(ctx, d, "CUQIarray.funvals", "array", lambda: ap.funvals)
    if ok:
        ctx.count("array_conversion_checked")
        eq, md = _same(ctx, np.asarray(af2), np.asarray(af), max(d.rtol, 1e-11) if d.rtol > 0 else 0.0, scale=(fs if fs > 0 else 1.0))
        if np.shape(af2) != np.shape(af) or not eq:
            ctx.violation("array_conversion", cfg("parameters->funvals"), detail=f"second par->fun conversion differs from the first (shape {np.shape(af2)} vs {np.shape(af)}, max diff {md:.3g})")
    # array created in function form
    F = d.sample_fun(rs)
    ok, b = _call(ctx, d, "CUQIarray", "array", lambda: CA(F.copy(), is_par=False, geometry=g))
    if ok:
        ok, bp = _call(ctx, d, "CUQIarray.parameters", "array", lambda: b.parameters)
        if ok and d.ref_f2p is not None:
            ctx.count("array_conversion_checked")
            eq, md = _same(ctx, np.asarray(bp), d.ref_f2p(F), max(d.rtol, 1e-12) if d.rtol > 0 else 0.0, _tol_f2p(d, float(np.max(np.abs(F)))))
            if bp.is_par is not True or not eq:
                ctx.violation("array_conversion", cfg("fun-array->parameters"), detail=f"parameters of a function-form CUQIarray differ from the documented fun2par (max diff {md:.3g})")
    ctx.nontrivial(sk + ":array")

# ----------------------------------------------------------------------------- full probe of one geometry

def probe_all(ctx, d, rs, level):
    """level 2 = everything (map cases), 1 = sweep (one layout, fewer conversions), 0 = structure + single + one small batch."""
    if hasattr(d, "step"):
        assign = probe_step_structure(ctx, d)
        if assign is None:
            return
        attach_step_reference(d, assign)
    rep = probe_shapes(ctx, d)
    if rep is None:
        return
    probe_single(ctx, d, rs, rep)
    if level == 0:
        probe_batch(ctx, d, rs, (2,), ("C",))
        return
    if level >= 2:
        probe_single(ctx, d, rs, rep, dtype="int")
    if d.linear and (level >= 2 or d.par_dim <= 12):
        probe_contribution(ctx, d)
    if level >= 2:
        probe_layouts(ctx, d, rs)
    elif level == 1 and d.par_dim <= 8:
        probe_layouts(ctx, d, rs)
    if not d.columnwise:
        ctx.count("batch_skipped_coupled_map")       # the user's map is only defined on one function value at a time
        for Ns in (1, 2, 7):
            probe_samples(ctx, d, rs, Ns)
            ctx.count("coupled_map_samples_checked", Ns)
    elif level >= 2:
        probe_batch(ctx, d, rs, BATCH_SIZES, ("C", "F", "strided"))
        probe_batch(ctx, d, rs, (2,), ("C",), dtype="int")
        for Ns in (1, 3):
            probe_samples(ctx, d, rs, Ns)
    else:
        probe_batch(ctx, d, rs, BATCH_SIZES, ("C",))
        for Ns in (1, 2):
            probe_samples(ctx, d, rs, Ns)
    probe_array(ctx, d, rs)

# ----------------------------------------------------------------------------- run_case

def run_case(case, ctx):
    import cuqi
    import warnings
    warnings.filterwarnings("ignore")
    rs = core.np_rng(ctx.seed, PROPERTY, core.canon(case))
    kind = case["kind"]
    if kind == "maps":
        fam = case["family"]
        if fam == "KLExpansion_Full":
            return _run_klfull(case, ctx, cuqi, rs)
        if fam == "CustomKL":
            return _run_customkl(case, ctx, cuqi, rs)
        d = _build(case, cuqi, rs)
        d.val_scale = float(case.get("scale", 1.0))
        ctx.note("geometry", repr(d.geom)[:80])
        probe_all(ctx, d, rs, 2)
        return
    if kind == "step_sweep":
        n = case["n"]
        grid = _grid(case["grid"], n, rs)
        ctx.note("grid_ends", [float(grid[0]), float(grid[-1])])
        for ns in range(1, n + 1):
            for proj in ("mean", "max", "min"):
                d = _desc_step(cuqi, grid.copy(), ns, proj)
                d.cfg["gridkind"] = case["grid"]
                d.exact_grid = case["grid"] == "integer"
                probe_all(ctx, d, rs, 1 if proj == "mean" else 0)
        return
    if kind == "kl_sweep":
        n = case["n"]
        grid = _grid(("arange", "linspace", "faroffset")[case["v"] % 3], n, rs)
        decay, norm = float(rs.uniform(0.5, 3.0)), float(rs.uniform(0.5, 20.0))
        S = R.kl_basis(n)
        ctx.note("decay_normalizer", [decay, norm])
        for m in [None] + list(range(1, n + 1)) + [n + 1, n + 5, 3 * n]:
            d = _desc_kl(cuqi, grid.copy(), decay, norm, m, S=S)
            probe_all(ctx, d, rs, 1)
        return
    if kind == "kl_regrid":
        return _run_kl_regrid(case, ctx, cuqi, rs)
    if kind == "regrid":
        return _run_regrid(case, ctx, cuqi, rs)
    if kind == "defaults":
        return _run_defaults(case, ctx, cuqi, rs)
    if kind == "inadmissible":
        return _run_inadmissible(case, ctx, cuqi, rs)
    if kind == "repr":
        return _run_repr(case, ctx, cuqi, rs)
    raise ValueError(kind)

def _run_kl_regrid(case, ctx, cuqi, rs):
    decay, norm = float(rs.uniform(0.5, 3.0)), float(rs.uniform(0.5, 20.0))
    m = case["num_modes"]
    sizes = list(case["sizes"])
    first = None if case["start_none"] else _grid("arange", sizes[0], rs)
    geom = cuqi.geometry.KLExpansion(first, decay_rate=decay, normalizer=norm, num_modes=m)
    for stage, n in enumerate(sizes):
        if stage > 0 or case["start_none"]:
            if case["none_between"] and stage > 0:
                geom.grid = None
                core.outcome(lambda: (geom.num_modes, geom.par_dim, geom.fun_dim, geom.coefs))   # observed, not judged
            geom.grid = _grid("linspace", n, rs)
        d = _desc_kl(cuqi, np.asarray(geom.grid), decay, norm, m, geom=geom)
        d.cfg["history"] = "regrid" if stage > 0 else ("grid_set_after_init" if case["start_none"] else "initial")
        rep = probe_shapes(ctx, d)
        if rep is None:
            continue
        probe_single(ctx, d, rs, rep)
        probe_batch(ctx, d, rs, (2,), ("C",))
        probe_samples(ctx, d, rs, 2)
        probe_samples(ctx, d, rs, 1)
        ctx.count("kl_regrid_stages_checked")
    ctx.nontrivial("KLExpansion:regrid")

def _run_regrid(case, ctx, cuqi, rs):
    """Continuous1D / Continuous2D: the grid attribute is re-assigned after the shapes were queried."""
    fam = case["family"]
    for stage in range(2):
        if fam == "Continuous1D":
            n = case["n"][stage]
            if stage == 0:
                geom = cuqi.geometry.Continuous1D(None if case["start_none"] else n)
                if case["start_none"]:
                    core.outcome(lambda: (geom.par_shape, geom.fun_shape, geom.par_dim))
                    geom.grid = n
            else:
                geom.grid = _grid("linspace", n, rs)
            d = _desc_identity(geom, "Continuous1D", n, {})
        else:
            shape = case["shapes"][stage]
            if stage == 0:
                geom = cuqi.geometry.Continuous2D(None if case["start_none"] else tuple(shape))
                if case["start_none"]:
                    core.outcome(lambda: (geom.par_shape, geom.fun_shape, geom.par_dim))
                    geom.grid = tuple(shape)
            else:
                geom.grid = (_grid("arange", shape[0], rs), shape[1])
            fs = tuple(shape)
            d = Desc(geom, "Continuous2D", {"degenerate": _deg2(shape)}, fs[0] * fs[1], fs,
                     lambda p, fs=fs: R.cont2d_par2fun(p, fs), lambda f, fs=fs: R.cont2d_fun2par(f, fs), offers_vec=False, linear=True, rtol=0.0)
        d.cfg["history"] = "regrid" if stage > 0 else "initial"
        rep = probe_shapes(ctx, d)
        if rep is None:
            continue
        probe_single(ctx, d, rs, rep)
        probe_batch(ctx, d, rs, (2,), ("C",))
        probe_samples(ctx, d, rs, 2)
        probe_samples(ctx, d, rs, 1)
        probe_array(ctx, d, rs)
        ctx.count("regrid_stages_checked")
    ctx.nontrivial(fam + ":regrid")

def _run_defaults(case, ctx, cuqi, rs):
    """geometry=None: Samples and CUQIarray fall back to a default 1D geometry of the right size."""
    n, Ns = case["n"], case["Ns"]
    P = rs.uniform(-1, 1, (n, Ns))
    s = cuqi.samples.Samples(P.copy())
    g = s.geometry
    d = _desc_identity(g, "Continuous1D", n, {"geometry": type(g).__name__, "default": "Samples"})
    rep = probe_shapes(ctx, d)
    ok, sf = _call(ctx, d, "Samples.funvals", "samples", lambda: s.funvals)
    if ok:
        ctx.count("samples_conversion_checked", Ns)
        okp, sp = _call(ctx, d, "Samples.parameters", "samples", lambda: sf.parameters)
        if np.asarray(sf.samples).shape != P.shape or not np.array_equal(np.asarray(sf.samples), P) or sf.is_par \
                or (okp and (not np.array_equal(np.asarray(sp.samples), P) or not sp.is_par)):
            ctx.violation("samples_conversion", _cfg(d, via="default_geometry", input="samples"), detail="Samples without geometry: par->fun->par is not the identity")
    if rep is not None:
        probe_samples(ctx, d, rs, Ns)
    p = rs.uniform(-1, 1, n)
    a = cuqi.array.CUQIarray(p.copy())
    d2 = _desc_identity(a.geometry, "Continuous1D", n, {"geometry": type(a.geometry).__name__, "default": "CUQIarray"})
    rep2 = probe_shapes(ctx, d2)
    ok, af = _call(ctx, d2, "CUQIarray.funvals", "array", lambda: a.funvals)
    if ok:
        ctx.count("array_conversion_checked")
        okp, ap = _call(ctx, d2, "CUQIarray.parameters", "array", lambda: af.parameters)
        if np.shape(af) != (n,) or not np.array_equal(np.asarray(af), p) or af.is_par is not False or (okp and (not np.array_equal(np.asarray(ap), p) or ap.is_par is not True)):
            ctx.violation("array_conversion", _cfg(d2, via="default_geometry", input="array"), detail="CUQIarray without geometry: par->fun->par is not the identity")
    if rep2 is not None:
        probe_array(ctx, d2, rs)
    ctx.nontrivial("defaults")

def _run_klfull(case, ctx, cuqi, rs):
    n = case["n"]
    std, cl, nu = float(rs.uniform(0.5, 2)), float(rs.uniform(0.05, 0.5)), float(rs.uniform(1.0, 3.5))
    geom = cuqi.geometry.KLExpansion_Full(_grid("arange", n, rs), std, cl, nu)
    d = Desc(geom, "KLExpansion_Full", {}, n, (n,), lambda p: R.klfull_par2fun(p, n, std, cl, nu), None,
             ref_f2v=lambda f: np.array(f, dtype=float), ref_v2f=lambda v: np.array(v, dtype=float), funvec_dim=n,
             offers_f2p=False, bijective=False, rtol=1e-9)
    rep = probe_shapes(ctx, d)
    if rep is not None:
        probe_single(ctx, d, rs, rep)
        probe_samples(ctx, d, rs, 2)
        probe_samples(ctx, d, rs, 1)
        probe_array(ctx, d, rs)

def _run_customkl(case, ctx, cuqi, rs):
    n = case["n"]
    trunc = int(rs.randint(1, max(2, n // 2)))
    mean, std = float(rs.uniform(-1, 1)), float(rs.uniform(0.5, 1.5))
    cl = float(rs.uniform(0.1, 0.5))
    grid = np.linspace(0, 1, n)
    geom = cuqi.geometry.CustomKL(grid, mean=mean, std=std, cov_func=lambda x, y: std ** 2 * np.exp(-abs(x - y) / cl), trunc_term=trunc)
    # documented: truncated KL field mean + sum_i sqrt(eigval_i) eigvec_i p_i  (eigenpairs are the object's own public attributes)
    ref = lambda p: mean + sum(np.sqrt(geom.eigval[i]) * geom.eigvec[:, i] * p[i] for i in range(trunc))
    d = Desc(geom, "CustomKL", {}, trunc, (n,), ref, None, ref_f2v=lambda f: np.array(f, dtype=float), ref_v2f=lambda v: np.array(v, dtype=float),
             funvec_dim=n, offers_f2p=False, bijective=False, rtol=1e-9)
    rep = probe_shapes(ctx, d)
    if rep is not None:
        probe_single(ctx, d, rs, rep)
        probe_samples(ctx, d, rs, 2)
        probe_samples(ctx, d, rs, 1)

# -- representation of flags and sizes -------------------------------------------

def _repr_geom(cuqi, fam, n, shape, I):
    """the same geometry with every size passed through the integer constructor I (int / np.int64 / np.int32)"""
    G = cuqi.geometry
    sh = (I(shape[0]), I(shape[1]))
    if fam == "Continuous1D":
        return G.Continuous1D(I(n))
    if fam == "Continuous2D":
        return G.Continuous2D(sh)
    if fam.startswith("Image2D"):
        return G.Image2D(sh, order="F" if fam.endswith("_F") else "C", visual_only=fam.endswith("_V"))
    if fam == "Discrete":
        return G.Discrete(I(n))
    if fam == "_DefaultGeometry1D":
        return G._DefaultGeometry1D(grid=I(n))
    if fam == "_DefaultGeometry2D":
        return G._DefaultGeometry2D(sh)
    if fam == "KLExpansion":
        return G.KLExpansion(np.linspace(0, 1, n + 3), decay_rate=1.5, normalizer=4.0, num_modes=I(n))
    if fam == "StepExpansion":
        return G.StepExpansion(np.linspace(0, 1, 3 * n + 1), n_steps=I(n))
    if fam == "Mapped_Image2D":
        return G.MappedGeometry(G.Image2D(sh), np.exp, np.log)
    if fam == "Mapped_KLExpansion":
        return G.MappedGeometry(G.KLExpansion(np.linspace(0, 1, n + 3), decay_rate=1.5, normalizer=4.0, num_modes=I(n)), np.exp, np.log)
    raise ValueError(fam)

def _summ(x):
    """value, shape and type of a result, in a comparable form"""
    if isinstance(x, (bool, np.bool_)):
        return ("bool", bool(x))
    if isinstance(x, (int, np.integer)):
        return ("int", int(x))
    if x is None:
        return ("none",)
    if isinstance(x, tuple):
        return ("tuple",) + tuple(_summ(e) for e in x)
    if isinstance(x, list):
        return ("list", len(x)) + tuple(_summ(e) for e in x[:3])
    if isinstance(x, np.ndarray):
        a = np.asarray(x)
        return (type(x).__name__, a.shape, a.dtype.kind, np.array(a, dtype=float) if a.dtype.kind in "fiub" else None,
                bool(getattr(x, "is_par", None)) if hasattr(x, "is_par") else None)
    if type(x).__name__ == "Samples":
        return ("Samples", bool(x.is_par), bool(x.is_vec)) + (_summ(x.samples),)
    return (type(x).__name__, repr(x)[:60])

def _summ_equal(a, b):
    if type(a) is not type(b):
        return False
    if isinstance(a, tuple):
        return len(a) == len(b) and all(_summ_equal(x, y) for x, y in zip(a, b))
    if isinstance(a, np.ndarray):
        return a.shape == b.shape and np.allclose(a, b, rtol=1e-12, atol=0, equal_nan=True)
    return a == b

def _summ_short(a):
    if isinstance(a, tuple):
        return "(" + ",".join(_summ_short(x) for x in a) + ")"
    if isinstance(a, np.ndarray):
        return "array%s" % (a.shape,)
    return repr(a)

def _repr_requests(cuqi, g, T, F_, P, Fv, p, fv):
    """every conversion request; T / F_ are the spellings of the flags True / False"""
    CA, SA = cuqi.array.CUQIarray, cuqi.samples.Samples
    isv = len(np.shape(fv)) == 1
    V_ = T if isv else F_
    return {
        "report.par_shape": lambda: tuple(int(v) for v in g.par_shape),
        "report.fun_shape": lambda: tuple(int(v) for v in g.fun_shape),
        "report.par_dim": lambda: g.par_dim, "report.fun_dim": lambda: g.fun_dim,
        "report.fun_is_array": lambda: g.fun_is_array,
        "report.funvec_shape": lambda: tuple(int(v) for v in g.funvec_shape),
        "par2fun.single": lambda: g.par2fun(p.copy()), "par2fun.batch": lambda: g.par2fun(P.copy()),
        "fun2par.single": lambda: g.fun2par(fv.copy()), "fun2par.batch": lambda: g.fun2par(Fv.copy()),
        "CUQIarray(par).funvals": lambda: CA(p.copy(), is_par=T, geometry=g).funvals,
        "CUQIarray(par).parameters": lambda: CA(p.copy(), is_par=T, geometry=g).parameters,
        "CUQIarray(par).funvals.parameters": lambda: CA(p.copy(), is_par=T, geometry=g).funvals.parameters,
        "CUQIarray(fun).parameters": lambda: CA(fv.copy(), is_par=F_, geometry=g).parameters,
        "CUQIarray(fun).funvals": lambda: CA(fv.copy(), is_par=F_, geometry=g).funvals,
        "CUQIarray(fun).parameters.funvals": lambda: CA(fv.copy(), is_par=F_, geometry=g).parameters.funvals,
        "Samples(par).funvals": lambda: SA(P.copy(), geometry=g, is_par=T, is_vec=T).funvals,
        "Samples(par).funvals.vector": lambda: SA(P.copy(), geometry=g, is_par=T, is_vec=T).funvals.vector,
        "Samples(par).funvals.parameters": lambda: SA(P.copy(), geometry=g, is_par=T, is_vec=T).funvals.parameters,
        "Samples(par).parameters": lambda: SA(P.copy(), geometry=g, is_par=T, is_vec=T).parameters,
        "Samples(fun).parameters": lambda: SA(Fv.copy(), geometry=g, is_par=F_, is_vec=V_).parameters,
        "Samples(fun).vector": lambda: SA(Fv.copy(), geometry=g, is_par=F_, is_vec=V_).vector,
        "Samples(fun).funvals": lambda: SA(Fv.copy(), geometry=g, is_par=F_, is_vec=V_).funvals,
        "Samples(fun).vector.funvals": lambda: SA(Fv.copy(), geometry=g, is_par=F_, is_vec=V_).vector.funvals,
    }

def _run_repr(case, ctx, cuqi, rs):
    """flags given as bool / np.bool_ / 0-1 and sizes given as int / np.int64 / np.int32 must give the same conversions
    (value, shape, type) as the plain Python spelling, or be refused."""
    fam, n, shape, Ns = case["family"], case["n"], case["shape"], case["Ns"]
    INTS = {"int": int, "np.int64": np.int64, "np.int32": np.int32}
    FLAGS = {"bool": (True, False), "np.bool_": (np.bool_(True), np.bool_(False)), "int01": (1, 0)}
    g0 = _repr_geom(cuqi, fam, n, shape, int)
    par_dim = int(g0.par_dim)
    p = rs.uniform(0.3, 1.5, par_dim); P = rs.uniform(0.3, 1.5, (par_dim, Ns))
    fv = np.asarray(g0.par2fun(rs.uniform(0.3, 1.5, par_dim)), dtype=float)
    Fv = np.stack([np.asarray(g0.par2fun(rs.uniform(0.3, 1.5, par_dim)), dtype=float) for _ in range(Ns)], axis=-1)
    def run_all(g, T, F_):
        out = {}
        for name, fn in _repr_requests(cuqi, g, T, F_, P, Fv, p, fv).items():
            kind, val = core.outcome(fn, refusal=core.REFUSAL_TYPES_BROAD if hasattr(core, "REFUSAL_TYPES_BROAD") else core.REFUSAL_TYPES)
            out[name] = ("value", _summ(val)) if kind == "value" else (kind, type(val).__name__ + ": " + core.short(str(val), 120))
        return out
    base = run_all(g0, True, False)
    variants = [("size", case["size_repr"], "bool")] + [("flag", "int", fr) for fr in ("np.bool_", "int01")] + [("both", case["size_repr"], "np.bool_")]
    for axis, ir, fr in variants:
        kind, g = core.outcome(_repr_geom, cuqi, fam, n, shape, INTS[ir])
        if kind != "value":
            ctx.count("repr_requests_checked")
            if kind == "refused":
                ctx.refused(f"{fam}.sizes_as_{ir}", g); ctx.count("refusal_observed")
            else:
                ctx.violation("crash", {"geometry": fam, "via": "constructor", "size_repr": ir, "exc": type(g).__name__}, detail=repr(g))
            continue
        T, F_ = FLAGS[fr]
        got = run_all(g, T, F_)
        for name, b in base.items():
            if b[0] != "value":
                continue                       # what the plain spelling cannot do is judged by the other monitors
            o = got[name]
            ctx.count("repr_requests_checked")
            cfg = {"geometry": fam, "axis": axis, "size_repr": ir, "flag_repr": fr, "via": name}
            if o[0] == "refused":
                ctx.refused(f"{fam}.{name}[{ir},{fr}]", Exception(o[1])); ctx.count("refusal_observed")
            elif o[0] == "crashed":
                ctx.violation("crash", dict(cfg, exc=o[1].split(":")[0]), detail=f"{name} with sizes as {ir} and flags as {fr}: {o[1]}")
            elif not _summ_equal(o[1], b[1]):
                ctx.violation("representation_dependent", cfg,
                              detail=f"{name} on {fam}: sizes given as {ir}, flags as {fr} -> {_summ_short(o[1])[:300]}; plain Python int/bool -> {_summ_short(b[1])[:300]}")
    ctx.nontrivial(f"repr:{fam}")

def _run_inadmissible(case, ctx, cuqi, rs):
    """set-ups the documentation excludes must be refused, not silently accepted with wrong maps."""
    n = case["n"]
    grid = _grid("arange", n, rs)
    def expect_refused(what, fn):
        kind, val = core.outcome(fn)
        ctx.count("inadmissible_probed")
        if kind == "refused":
            ctx.refused(what, val); ctx.count("refusal_observed")
        elif kind == "crashed":
            ctx.violation("crash", {"geometry": what.split(".")[0], "via": what}, detail=repr(val))
        else:
            ctx.violation("inadmissible_accepted", {"geometry": what.split(".")[0], "via": what}, detail=f"{what}: accepted and returned {core.short(repr(val), 120)}")
    expect_refused("StepExpansion.n_steps>n_grid", lambda: cuqi.geometry.StepExpansion(grid, n_steps=n + int(rs.randint(1, 5))))
    irregular = grid.copy(); irregular[n // 2] += 0.3 * (grid[1] - grid[0])
    expect_refused("StepExpansion.irregular_grid", lambda: cuqi.geometry.StepExpansion(irregular, n_steps=2))
    g = cuqi.geometry.StepExpansion(grid, n_steps=2, fun2par_projection="median")
    expect_refused("StepExpansion.unknown_projection", lambda: g.fun2par(np.ones(n)))
    gs = cuqi.geometry.StepExpansion(grid, n_steps=min(3, n))
    expect_refused("StepExpansion.par2fun_wrong_length", lambda: gs.par2fun(np.ones(min(3, n) + 1)))
    expect_refused("StepExpansion.fun2par_wrong_length", lambda: gs.fun2par(np.ones(n + 1)))
    kl = cuqi.geometry.KLExpansion(grid, num_modes=max(1, n // 2))
    expect_refused("KLExpansion.par2fun_wrong_length", lambda: kl.par2fun(np.ones(n // 2 + 2)))
    expect_refused("KLExpansion.fun2par_wrong_length", lambda: kl.fun2par(np.ones(n + 1)))
    expect_refused("Continuous1D.grid_2d", lambda: cuqi.geometry.Continuous1D(np.ones((3, 3))))
    expect_refused("Continuous2D.grid_3_axes", lambda: cuqi.geometry.Continuous2D((3, 4, 5)))
    expect_refused("CUQIarray.funvals_without_geometry", lambda: cuqi.array.CUQIarray(np.ones(3), is_par=False))
    expect_refused("CUQIarray.par_multidimensional", lambda: cuqi.array.CUQIarray(np.ones((3, 2)), is_par=True))
    expect_refused("Samples.par_not_vec", lambda: cuqi.samples.Samples(np.ones((3, 2)), is_par=True, is_vec=False))
    ctx.nontrivial("inadmissible")

def selftest(ctx):
    for msg in R.selftest():
        ctx.inconclusive(msg)
