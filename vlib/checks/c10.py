"""C10 - conjugate and direct samplers draw from the exact conditional.

Workload
  conj    supported pairs: Gaussian(cov=1/s | prec=s) (direct Posterior, through JointDistribution with a
          linear / non-linear forward model, scalar or vector mean) and GMRF(prec=d) for every
          bc x order x 1D/2D, random data / data equal to the mean / data in the null space, Gamma(alpha,beta)
          grid, several names and spellings of the hyper-parameter callable; both interfaces, several
          consecutive steps with initial / current points away from 1.
  reject  unsupported structures (powers, swapped, affine, exp, probe-point coincidences, two occurrences,
          mean-only, vector Gamma, other priors, other likelihoods, not a Posterior), both interfaces.
  gibbs   hierarchical problems sampled by HybridGibbs / legacy Gibbs (the library builds the conditionals).
  direct  Direct on every samplable family (and non-samplable ones, which must be refused).
  approx  ConjugateApprox (LMRF): observed, not judged.
Monitors
  contracts.ensure on Gamma._sample (captures shape and rate of the Gamma actually drawn from), on
  Conjugate.step of both interfaces (brackets the draw, captures the target of that very step), on
  Direct.step and Distribution.sample; a recording pass-through on numpy.random.gamma (cross-check that the
  value handed back is the variate of the captured Gamma); rngscript.Scripted as stream recorder for Direct.
Oracle
  (shape, rate) read off the *target's own* logd along the hyper-parameter axis (least squares on
  [1, log s, s] over 3 decades around the bulk; residual = non-Gamma dependence) must equal the captured
  Gamma; for full-rank pairs additionally the textbook update computed from the raw inputs (refs, no cuqi).
  Second line: two-stage KS test of the chain against the Gamma read off the target.
"""
import contextlib
import numpy as np
from vlib import core
from vlib.contracts import ensure, ContractLog
from vlib.rngscript import Scripted
from vlib.refs import c10_conjugate as R
from vlib.refs import stencils as S

PROPERTY = "C10"
RULE = ("discrete axes enumerated (family x hyper-parameter form x construction x bc x order x 1D/2D x data kind x "
        "interface; unsupported structure x interface; Direct family), continuous ones (data, alpha, beta, sizes, "
        "matrices) drawn per case; a conj/gibbs case is non-trivial when a Gamma draw was captured inside a sampler "
        "step and compared with the (shape, rate) read off the target's own log-density over 3 decades; a reject case "
        "when a refusal or an accepted-and-judged draw was observed; a direct case when the chain was compared with "
        "the recorded target.sample() returns and a replay of the stream")
ASSUMPTIONS = ["the property is judged against the target's own logd (Posterior.logd along the hyper-parameter axis); "
               "where that logd is not finite (GMRF neumann order 2 in 2D: NaN log-det, a C20/C04 finding) the step is "
               "observed but not judged",
               "ConjugateApprox and the Regularized* pairs are approximate/implicit by design: observed, not judged",
               "hyper-parameter callables that coincide with the supported form on the library's probe points "
               "(1, 10, 100) but differ elsewhere are not generated (probing is the documented validation mechanism)"]
REQUIRED_COUNTERS = {
    "quick": {"conj_steps_judged": 1600, "shape_compared": 1600, "rate_compared": 1600, "np_gamma_crosschecked": 1600,
              "ref_update_compared": 1000, "scripted_gamma_scaling_checked": 600, "rejections_observed": 160,
              "accepted_draws_judged": 150, "direct_draws_compared": 180, "direct_replay_compared": 160,
              "gibbs_conj_steps_judged": 240, "ks_tests": 6},
    "thorough": {"conj_steps_judged": 10000, "shape_compared": 10000, "rate_compared": 10000, "np_gamma_crosschecked": 10000,
                 "ref_update_compared": 6000, "scripted_gamma_scaling_checked": 4000, "rejections_observed": 480,
                 "accepted_draws_judged": 480, "direct_draws_compared": 1200, "direct_replay_compared": 1100,
                 "gibbs_conj_steps_judged": 1600, "ks_tests": 30},
}
BUDGET_S = {"quick": 240.0, "thorough": 1500.0}

TOL_PARAM = 1e-6      # relative tolerance on shape / rate (unchanged tree: < 1e-11; defects are O(0.1 .. 1))
TOL_RESID = 1e-8      # residual of the Gamma form relative to max|logd| (unchanged tree: < 1e-14)

# --------------------------------------------------------------------------- case generation

COV_FORMS = ["1/{p}", "1.0/{p}", "{p}**(-1.0)", "np.divide(1.0, {p})"]
PREC_FORMS = ["{p}", "1.0*{p}", "{p}+0.0", "{p}*np.ones({m})"]
PNAMES = ["s", "d", "tau", "lam_1"]
ALPHAS = [1.0, 0.3, 2.5, 12.0]
BETAS = [1e-4, 0.5, 3.0, 40.0, 1e-10, 1e6]

NEAR_EPS = ["1e-12", "1e-09", "1e-07", "1e-05", "0.001"]

# structure -> (family, spec)   [which of them are wrongly *sampled* by the legacy interface is not encoded here]
REJECT_STRUCTS = [
    "cov_pow2", "prec_pow2", "cov_sqrt", "prec_sqrt", "cov_identity", "prec_reciprocal", "cov_affine", "prec_affine",
    "cov_exp", "prec_exp", "cov_match_1_10", "prec_match_1_10", "cov_match_1_100", "prec_match_1_100",
    "cov_scaled", "prec_scaled", "cov_vector", "prec_matrix", "prec_weighted", "sqrtprec_param", "sqrtcov_param",
    "two_occurrences_mean_cov", "two_occurrences_mean_prec", "mean_only",
    "gmrf_pow2", "gmrf_reciprocal", "gmrf_affine", "gmrf_scaled", "gmrf_exp", "gmrf_mean_and_prec",
    "gamma_vector_params", "gamma_dim2_scalar_params", "prior_lognormal", "prior_inversegamma", "prior_uniform",
    "prior_gaussian", "prior_beta", "lik_laplace", "lik_lmrf", "lik_cauchy", "lik_lognormal",
    "not_posterior_gamma", "not_posterior_gaussian", "not_posterior_joint",
] + [f"occ2_{carrier}_{fam}"      # second occurrence (in the mean) carried by a callable that is not a plain function
     for carrier in ("partial", "jointpartial", "model", "linearmodel", "instance", "bound")
     for fam in ("cov", "prec", "gmrf")] + [
    f"near_{form}_{fam}_{eps}"      # dependences that miss the supported form by eps (variance floor, jitter, rounding of a scale)
    for form, fams in (("recipplus", ("cov",)), ("recipshift", ("cov",)), ("recipscale", ("cov",)),
                       ("idplus", ("prec", "gmrf")), ("idscale", ("prec", "gmrf")))
    for fam in fams for eps in NEAR_EPS]

DIRECT_FAMILIES = [
    "Gaussian_scalarcov", "Gaussian_veccov", "Gaussian_fullcov", "Gaussian_prec", "Gaussian_sqrtprec", "Gaussian_sqrtcov",
    "Gaussian_1d", "Normal", "Normal_vec", "GMRF_zero_o1", "GMRF_zero_o2", "GMRF_zero_o0", "GMRF_neumann", "GMRF_periodic",
    "GMRF_2d", "Gamma", "Gamma_vec", "InverseGamma", "Beta", "Laplace", "Cauchy", "Lognormal", "Uniform", "MHN",
    "UserDefined_sample", "conditioned_Gaussian",
    # not samplable -> must be refused
    "SmoothedLaplace", "LMRF", "CMRF", "UserDefined_nosample", "conditional_Gaussian", "Posterior", "Gallery",
]
DIRECT_UNSAMPLABLE = {"SmoothedLaplace", "LMRF", "CMRF", "UserDefined_nosample", "conditional_Gaussian", "Posterior", "Gallery"}


def cases(tier, seed):
    rnd = core.rng_for(seed, PROPERTY, tier)
    out = []
    reps = 2 if tier == "quick" else 12
    # ---- conj / gauss
    constructions = ["direct", "joint_linear", "joint_nonlinear", "joint_identity"]
    for rep in range(reps):
        for param in ("cov", "prec"):
            forms = COV_FORMS if param == "cov" else PREC_FORMS
            for fi in range(len(forms)):
                for con in constructions:
                    for data in ("random", "equal_mean", "large", "sparse", "tiny", "huge"):
                        m = rnd.choice([1, 2, 3, 5, 8, 17, 40] if tier == "quick" else [1, 2, 3, 5, 8, 17, 40, 120])
                        if con != "direct" and m == 1:
                            m = 2
                        out.append({"kind": "conj", "family": "gauss", "param": param, "form": fi, "construction": con,
                                    "m": m, "mean": rnd.choice(["scalar0", "scalar", "vector"]) if con == "direct" else "model",
                                    "data": data, "pname": rnd.choice(PNAMES), "alpha": rnd.choice(ALPHAS), "beta": rnd.choice(BETAS),
                                    "ks": False, "rep": rep})
    # ---- conj / gmrf
    for rep in range(reps):
        for pd in (1, 2):
            for bc in ("zero", "periodic", "neumann"):
                for order in (0, 1, 2):
                    for con in ("direct", "joint"):
                        for data in ("random", "nullspace", "sparse", "tiny", "huge") if con == "direct" else ("random", "sparse"):
                            N = rnd.choice([4, 5, 7, 12, 25] if pd == 1 else [4, 5, 6]) if tier == "quick" else \
                                rnd.choice([4, 5, 7, 12, 25, 60] if pd == 1 else [4, 5, 6, 9])
                            out.append({"kind": "conj", "family": "gmrf", "bc": bc, "order": order, "pd": pd, "N": N,
                                        "construction": con, "mean": rnd.choice(["zero", "vector"]), "data": data,
                                        "pname": rnd.choice(PNAMES), "alpha": rnd.choice(ALPHAS), "beta": rnd.choice(BETAS),
                                        "ks": False, "rep": rep})
    # ---- statistical second line (zero bc / gauss only: the known rank finding is reported by the deterministic monitor)
    nks = 12 if tier == "quick" else 64
    for i in range(nks):
        if i % 2 == 0:
            out.append({"kind": "conj", "family": "gauss", "param": ["cov", "prec"][(i // 2) % 2], "form": 0,
                        "construction": ["direct", "joint_linear"][(i // 4) % 2], "m": rnd.choice([2, 3, 6]), "mean": "vector" if (i // 4) % 2 == 0 else "model",
                        "data": "random", "pname": "s", "alpha": rnd.choice(ALPHAS), "beta": rnd.choice(BETAS), "ks": True,
                        "ks_interface": ["experimental", "legacy"][(i // 2) % 2], "rep": i})
        else:
            out.append({"kind": "conj", "family": "gmrf", "bc": "zero", "order": rnd.choice([0, 1, 2]), "pd": rnd.choice([1, 2]), "N": 4,
                        "construction": "direct", "mean": "zero", "data": "random", "pname": "d", "alpha": rnd.choice(ALPHAS),
                        "beta": rnd.choice(BETAS), "ks": True, "ks_interface": ["experimental", "legacy"][(i // 2) % 2], "rep": i})
    # ---- reject
    for rep in range(2 if tier == "quick" else 6):
        for st in REJECT_STRUCTS:
            out.append({"kind": "reject", "structure": st, "m": rnd.choice([1, 3, 6]) if not (st.startswith(("gmrf", "lik_lmrf")) or st.endswith("_gmrf")) else rnd.choice([4, 6]),
                        "alpha": rnd.choice(ALPHAS), "beta": rnd.choice(BETAS), "rep": rep})
    # ---- gibbs
    ng = 2 if tier == "quick" else 8
    for rep in range(ng):
        for interface in ("experimental", "legacy"):
            for prior in ("gmrf_zero_o1", "gmrf_zero_o2", "gauss_cov", "gauss_prec", "gmrf_neumann_o1", "gmrf_zero_o0"):
                for noise in ("cov", "prec"):
                    out.append({"kind": "gibbs", "interface": interface, "prior": prior, "noise": noise,
                                "n": rnd.choice([6, 9, 12]), "mfac": rnd.choice([1, 2]),
                                "steps": 4 if tier == "quick" else 8, "rep": rep})
        out.append({"kind": "gibbs_direct", "n": rnd.choice([1, 3, 7]), "param": ["cov", "prec"][rep % 2], "steps": 5 if tier == "quick" else 12, "rep": rep})
        out.append({"kind": "gibbs_direct", "n": rnd.choice([2, 5]), "param": ["prec", "cov"][rep % 2], "steps": 5 if tier == "quick" else 12, "rep": rep + 100})
    # ---- direct
    for rep in range(2 if tier == "quick" else 8):
        for fam in DIRECT_FAMILIES:
            out.append({"kind": "direct", "family": fam, "n": rnd.choice([2, 3, 5, 9]), "steps": 6 if tier == "quick" else 12, "rep": rep})
    # ---- approx (observed only)
    for rep in range(2 if tier == "quick" else 6):
        out.append({"kind": "approx", "N": rnd.choice([5, 10, 16]), "bc": rnd.choice(["zero", "neumann", "periodic"]), "rep": rep})
    return out


def crash_config(case):
    return {k: case[k] for k in ("kind", "family", "param", "construction", "bc", "order", "pd", "structure", "interface", "prior") if k in case}

# --------------------------------------------------------------------------- monitors

class Monitor:
    """Brackets every Conjugate/Direct step and records what was drawn inside it."""

    def __init__(self):
        self.log = ContractLog()
        self.records = []
        self.cur = None
        self.stray_gammas = 0

    # -- step brackets
    def _pre(self, interface, role):
        def snap(obj, args, kwargs):
            rec = {"interface": interface, "role": role, "cls": type(obj).__name__, "target": getattr(obj, "target", None),
                   "gammas": [], "npg": [], "samples": [], "done": False, "out": None, "args": args}
            self.records.append(rec)
            self.cur = rec
            return rec
        return snap

    def _post(self, interface):
        def post(obj, args, kwargs, result, rec):
            rec["done"] = True
            rec["out"] = np.array(getattr(obj, "current_point"), dtype=float, copy=True).ravel() if interface == "experimental" \
                else np.array(result, dtype=float, copy=True).ravel()
            rec["target_after"] = getattr(obj, "target", None)
            if self.cur is rec:
                self.cur = None
            return None
        return post

    def _post_gamma(self, obj, args, kwargs, result, snap):
        ev = {"shape": np.array(obj.shape, dtype=float, copy=True).ravel(), "rate": np.array(obj.rate, dtype=float, copy=True).ravel(),
              "N": args[0] if args else kwargs.get("N"), "rng": (args[1] if len(args) > 1 else kwargs.get("rng")) is not None,
              "out": np.array(result, dtype=float, copy=True).ravel()}
        if self.cur is not None and not self.cur["done"]:
            self.cur["gammas"].append(ev)
        else:
            self.stray_gammas += 1
        return None

    def _post_dist_sample(self, obj, args, kwargs, result, snap):
        if self.cur is not None and not self.cur["done"]:
            self.cur["samples"].append({"obj": obj, "N": args[0] if args else kwargs.get("N", 1),
                                        "out": np.array(result, dtype=float, copy=True).ravel()})
        return None

    def __enter__(self):
        import cuqi
        self._stack = contextlib.ExitStack()
        st = self._stack
        st.enter_context(ensure(cuqi.distribution.Gamma, "_sample", self._post_gamma, self.log, name="Gamma._sample"))
        st.enter_context(ensure(cuqi.distribution.Distribution, "sample", self._post_dist_sample, self.log, name="Distribution.sample", reentrant=True))
        E, L = cuqi.experimental.mcmc, cuqi.sampler
        for interface, role, cls in (("experimental", "conj", E.Conjugate), ("legacy", "conj", L.Conjugate),
                                     ("legacy", "approx", L.ConjugateApprox), ("experimental", "direct", E.Direct)):
            st.enter_context(ensure(cls, "step", self._post(interface), self.log, snapshot=self._pre(interface, role),
                                    name=f"{interface}.{cls.__name__}.step"))
        real = np.random.gamma
        me = self
        def gamma(shape, scale=1.0, size=None):
            out = real(shape, scale, size)
            if me.cur is not None and not me.cur["done"]:
                me.cur["npg"].append({"shape": np.array(shape, dtype=float, copy=True).ravel(), "scale": np.array(scale, dtype=float, copy=True).ravel(),
                                      "size": size, "out": np.array(out, dtype=float, copy=True).ravel()})
            return out
        self._real_gamma = real
        np.random.gamma = gamma
        return self

    def __exit__(self, *a):
        np.random.gamma = self._real_gamma
        self._stack.close()
        self.cur = None
        return False

    def take(self):
        r, self.records = self.records, []
        self.cur = None
        return r

# --------------------------------------------------------------------------- oracle helpers

def _read_target(target):
    """(fit, status): Gamma form of the target's own logd along the hyper-parameter axis."""
    def f(s):
        return float(np.asarray(target.logd(float(s))).ravel()[0])
    kind, val = core.outcome(R.read_off, f, refusal=(Exception,))
    if kind != "value":
        return None, f"target.logd raised {type(val).__name__}: {core.short(str(val), 120)}"
    fit, g, v = val
    if fit is None:
        return None, "target.logd is not finite on the grid"
    return fit, "ok"


def _judge_step(ctx, rec, fit, status, cfg, counter_prefix=""):
    """Compare the Gamma captured inside one Conjugate step with the target read-off. Returns True when judged."""
    cfg = dict(cfg, interface=rec["interface"])
    ctx.count("conj_steps_observed")
    if not rec["done"]:
        return False
    if len(rec["gammas"]) != 1:
        ctx.violation("gamma_draw_count", cfg, detail=f"{len(rec['gammas'])} Gamma._sample calls inside one {rec['cls']}.step "
                      f"(np.random.gamma calls: {len(rec['npg'])}); the law drawn from cannot be read off a single Gamma object")
        return False
    g = rec["gammas"][0]
    if g["shape"].size != 1 or g["rate"].size != 1:
        ctx.violation("gamma_not_scalar", cfg, detail=f"captured Gamma has shape {g['shape']} rate {g['rate']}")
        return False
    sh, ra = float(g["shape"][0]), float(g["rate"][0])
    # cross-check: the value handed back is the numpy variate of exactly this Gamma
    ctx.count("np_gamma_crosschecked")
    if g["rng"]:
        ctx.violation("draw_not_from_captured_gamma", cfg, detail="Gamma._sample was called with a private rng inside a sampler step")
    elif len(rec["npg"]) != 1:
        ctx.violation("draw_not_from_captured_gamma", cfg, detail=f"{len(rec['npg'])} numpy.random.gamma calls inside one step")
    else:
        p = rec["npg"][0]
        ok = (p["shape"].size == 1 and p["scale"].size == 1 and abs(p["shape"][0] - sh) <= 1e-12 * abs(sh)
              and abs(p["scale"][0] * ra - 1.0) <= 1e-12 and p["out"].size == 1 and rec["out"].size == 1
              and p["out"][0] == rec["out"][0])
        if not ok:
            ctx.violation("draw_not_from_captured_gamma", cfg,
                          detail=f"captured Gamma(shape={sh}, rate={ra}); numpy.random.gamma(shape={p['shape']}, scale={p['scale']}) -> {p['out']}; "
                                 f"step returned {rec['out']}")
    if not (np.isfinite(sh) and np.isfinite(ra) and sh > 0 and ra > 0):
        ctx.violation("gamma_parameters_invalid", cfg, detail=f"captured Gamma(shape={sh}, rate={ra})")
        return False
    if fit is None:
        ctx.count("target_logd_not_judgeable")
        ctx.note("unjudged", status)
        return False
    ctx.count(counter_prefix + "conj_steps_judged")
    if counter_prefix:
        ctx.count("conj_steps_judged")
    tag = f"drawn Gamma(shape={sh:.10g}, rate={ra:.10g}); target logd reads shape={fit['shape']:.10g}, rate={fit['rate']:.10g} " \
          f"(residual {fit['resid']:.2e} of scale {fit['scale']:.3g})"
    if fit["resid"] > TOL_RESID * fit["scale"]:
        ctx.violation("target_not_gamma_form", cfg, detail="accepted target is not of Gamma form in the hyper-parameter: " + tag)
        return True
    ctx.count("shape_compared")
    if abs(sh - fit["shape"]) > TOL_PARAM * max(1.0, abs(fit["shape"])):
        ctx.violation("shape_mismatch", cfg, detail=tag)
    ctx.count("rate_compared")
    if abs(ra - fit["rate"]) > TOL_PARAM * max(abs(fit["rate"]), 1e-12) + _rate_slack(rec["target"], cfg):
        ctx.violation("rate_mismatch", cfg, detail=tag)
    return True


def _rate_slack(target, cfg):
    """GMRF with periodic/neumann bc documents (in code) a sqrt(eps)*I regularisation of the factor it exposes as
    sqrtprec, i.e. 0.5*sqrt(eps)*||b-mean||^2 (7.5e-9 ||r||^2) in the rate.  Allow 130x that, nothing for other pairs."""
    if cfg.get("bc") not in ("periodic", "neumann"):
        return 0.0
    try:
        r = np.asarray(target.likelihood.data, dtype=float).ravel() - np.asarray(target.likelihood.distribution.mean, dtype=float).ravel()
        return 1e-6 * float(r @ r)
    except Exception:  # noqa
        return 0.0


def _lam(pname, expr, m=1):
    """Callable with the hyper-parameter's own name as its only argument."""
    return eval("lambda {p}: ".format(p=pname) + expr.format(p=pname, m=m), {"np": np})


def _spd(rs, n):
    A = rs.standard_normal((n, n))
    return A @ A.T / n + np.eye(n)

# --------------------------------------------------------------------------- conj

def _build_conj(case, rs):
    """Returns (target, info) with info = dict(m, quad (or None), alpha, beta, cfg)."""
    import cuqi
    D = cuqi.distribution
    p = case["pname"]
    alpha, beta = case["alpha"], case["beta"]
    prior = D.Gamma(alpha, beta, name=p)
    if case["family"] == "gauss":
        m, param = case["m"], case["param"]
        expr = (COV_FORMS if param == "cov" else PREC_FORMS)[case["form"]]
        fn = _lam(p, expr, m)
        con = case["construction"]
        if con == "direct":
            mean = {"scalar0": 0.0, "scalar": float(rs.uniform(-3, 3)), "vector": rs.standard_normal(m) * 2}[case["mean"]]
            if m == 1 and case["mean"] == "vector":
                mean = np.array([float(rs.uniform(-3, 3))])
            mean_vec = np.broadcast_to(np.asarray(mean, dtype=float), (m,)).copy()
            y = D.Gaussian(mean, **{param: fn}, geometry=m, name="y")   # scalar means are broadcast by the library
            data = _data(case["data"], mean_vec, rs)
            target = D.Posterior(y.to_likelihood(data), prior)
        else:
            n = max(2, m - 1) if con != "joint_identity" else m
            xval = rs.standard_normal(n)
            if con == "joint_linear":
                A = cuqi.model.LinearModel(rs.standard_normal((m, n)))
                mean_vec = A.get_matrix() @ xval if hasattr(A, "get_matrix") else None
            elif con == "joint_nonlinear":
                B = rs.standard_normal((m, n))
                A = cuqi.model.Model(lambda x: np.tanh(B @ x) + 0.1 * (B @ x) ** 2, range_geometry=m, domain_geometry=n)
                mean_vec = np.tanh(B @ xval) + 0.1 * (B @ xval) ** 2
            x = D.Gaussian(np.zeros(n), 1.0, name="x")
            if con == "joint_identity":
                y = D.Gaussian(lambda x: x, **{param: fn}, geometry=m, name="y")
                mean_vec = xval.copy()
            else:
                y = D.Gaussian(A @ x if con == "joint_linear" else A(x), **{param: fn}, name="y")
                if con == "joint_linear":
                    mean_vec = np.asarray(A.get_matrix() @ xval).ravel()
            data = _data(case["data"], mean_vec, rs)
            J = D.JointDistribution(prior, x, y)
            target = J(y=data, x=xval)
        quad = float(np.sum((data - mean_vec) ** 2))
        cfg = {"kind": "conj", "family": "gauss", "param": param, "construction": con}
        return target, {"m": m, "quad": quad, "alpha": alpha, "beta": beta, "cfg": cfg, "full_rank": True}
    # ---- gmrf
    import cuqi
    N, pd, bc, order = case["N"], case["pd"], case["bc"], case["order"]
    n = N ** pd
    geom = cuqi.geometry.Continuous1D(N) if pd == 1 else cuqi.geometry.Image2D((N, N))
    mean_vec = np.zeros(n) if case["mean"] == "zero" else rs.standard_normal(n)
    fn = _lam(p, "{p}")
    x = D.GMRF(mean_vec, fn, bc_type=bc, order=order, geometry=geom, name="x")
    Dm = S.diff_op(N, bc, order, pd)
    P = Dm.T @ Dm
    if case["data"] == "nullspace":
        Bn = S.null_space_basis(N, bc, order, pd)
        if Bn.shape[1]:
            v = Bn @ rs.standard_normal(Bn.shape[1])
            data = mean_vec + 2.0 * v / max(np.linalg.norm(v), 1e-12)
        else:
            data = mean_vec.copy()
    elif case["data"] in ("sparse", "tiny", "huge"):
        data = _data(case["data"], mean_vec, rs)
    else:
        data = mean_vec + rs.standard_normal(n) * float(rs.choice([0.1, 1.0, 5.0]))
    if case["construction"] == "direct":
        target = D.Posterior(x.to_likelihood(data), prior)
    else:
        m = n + 1
        A = cuqi.model.LinearModel(rs.standard_normal((m, n)))
        y = D.Gaussian(A @ x, 0.3, name="y")
        J = D.JointDistribution(prior, x, y)
        target = J(y=rs.standard_normal(m), x=data)
    r = data - mean_vec
    quad = float(r @ P @ r)
    cfg = {"kind": "conj", "family": "gmrf", "construction": case["construction"], "bc": bc, "order": order, "pd": pd}
    return target, {"m": n, "quad": quad, "alpha": alpha, "beta": beta, "cfg": cfg, "full_rank": bc == "zero",
                    "true_rank": int(np.linalg.matrix_rank(P))}


def _data(kind, mean_vec, rs):
    m = mean_vec.size
    if kind == "equal_mean":
        return mean_vec.copy()
    if kind == "large":
        return mean_vec + rs.standard_normal(m) * 30.0
    if kind == "tiny":      # almost noise-free: residuals 1e-6 (bulk of the conditional at s ~ 1e12 unless beta dominates)
        return mean_vec + rs.standard_normal(m) * 1e-6
    if kind == "huge":      # residuals 1e5 (bulk at s ~ 1e-10)
        return mean_vec + rs.standard_normal(m) * 1e5
    if kind == "sparse":    # exact zeros among the data (len(b) vs number of non-zeros)
        d = mean_vec + rs.standard_normal(m)
        d[rs.uniform(size=m) < 0.5] = 0.0
        d[0] = 0.0
        return d
    return mean_vec + rs.standard_normal(m) * float(rs.choice([0.2, 1.0, 3.0]))


def _drive_conj(interface, target, rs, mon, K):
    """Run K+1 consecutive steps of the given interface on `target` under the monitor; returns (outcome kind, value, records, chain)."""
    import cuqi
    mon.take()
    if interface == "experimental":
        def go():
            smp = cuqi.experimental.mcmc.Conjugate(target, initial_point=np.array([float(rs.uniform(0.2, 6.0))]))
            smp.warmup(1)
            smp.sample(K)
            return np.asarray(smp.get_samples().samples, dtype=float).ravel()
    else:
        def go():
            smp = cuqi.sampler.Conjugate(target)
            outs = []
            for k in range(K + 1):
                arg = [None, np.array([float(rs.uniform(0.2, 6.0))]), np.array([37.5])][k % 3]
                outs.append(float(np.asarray(smp.step(arg)).ravel()[0]) if arg is not None else float(np.asarray(smp.step()).ravel()[0]))
            return np.array(outs)
    kind, val = core.outcome(go)
    return kind, val, mon.take()


def _run_conj(case, ctx, rs):
    target, info = _build_conj(case, rs)
    cfg = info["cfg"]
    fit, status = _read_target(target)
    K = 3
    with Monitor() as mon:
        for interface in ("experimental", "legacy"):
            kind, val, recs = _drive_conj(interface, target, rs, mon, K)
            c = dict(cfg, interface=interface)
            if kind != "value":
                ctx.violation("supported_pair_refused" if kind == "refused" else "crash", dict(c, exc=type(val).__name__),
                              detail=f"supported conjugate pair not sampled: {type(val).__name__}: {core.short(str(val), 300)}")
                continue
            recs = [r for r in recs if r["role"] == "conj"]
            if len(recs) != K + 1:
                ctx.violation("step_count", c, detail=f"{len(recs)} Conjugate.step calls observed for warmup(1)+sample({K}) / {K + 1} legacy steps")
            judged = 0
            for r in recs:
                if r["target"] is not target:
                    ctx.violation("step_on_other_target", c, detail="the sampler stepped on an object that is not the given target")
                    continue
                judged += bool(_judge_step(ctx, r, fit, status, cfg))
                # independent reference (textbook update from the raw inputs) for full-rank pairs
                if info["full_rank"] and r["done"] and len(r["gammas"]) == 1 and r["gammas"][0]["shape"].size == 1:
                    sh_ref, ra_ref = R.conjugate_update(info["m"], info["quad"], info["alpha"], info["beta"])
                    sh, ra = float(r["gammas"][0]["shape"][0]), float(r["gammas"][0]["rate"][0])
                    ctx.count("ref_update_compared")
                    if abs(sh - sh_ref) > TOL_PARAM * max(1.0, sh_ref) or abs(ra - ra_ref) > TOL_PARAM * ra_ref:
                        ctx.violation("ref_update_mismatch", c, detail=f"drawn Gamma(shape={sh:.10g}, rate={ra:.10g}); textbook update from the raw inputs "
                                      f"(m={info['m']}, quad={info['quad']:.6g}, alpha={info['alpha']}, beta={info['beta']}): ({sh_ref:.10g}, {ra_ref:.10g})")
            # the chain is the sequence of draws
            outs = np.array([r["out"][0] for r in recs if r["done"] and r["out"] is not None and r["out"].size == 1])
            ctx.count("chain_vs_draws_compared")
            exp_chain = outs
            if val.shape != exp_chain.shape or not np.array_equal(val, exp_chain):
                ctx.violation("chain_not_the_draws", c, detail=f"chain {val.tolist()} vs values of the steps {exp_chain.tolist()}")
            if judged:
                ctx.nontrivial(f"{interface}")
        ctx.count("contract_evaluations", sum(mon.log.evaluations.values()))
    # scripted stream (rngscript): dictate the standard Gamma variate g0; the value handed back must be g0 / rate(target)
    if fit is not None and fit["resid"] <= TOL_RESID * fit["scale"] and fit["rate"] > 0:
        import cuqi
        for interface in ("experimental", "legacy"):
            g0 = float(rs.uniform(0.5, 3.0))
            def go():
                if interface == "experimental":
                    smp = cuqi.experimental.mcmc.Conjugate(target, initial_point=np.array([2.2]))
                    smp.sample(2)
                    return np.asarray(smp.get_samples().samples, dtype=float).ravel()
                smp = cuqi.sampler.Conjugate(target)
                return np.array([float(np.asarray(smp.step(np.array([2.2]))).ravel()[0]) for _ in range(2)])
            with Scripted(gamma=lambda shape, api, seq: np.full(shape, g0) if shape != () else g0) as rec:
                kind, val = core.outcome(go)
            if kind != "value":
                continue   # already reported above
            ctx.count("scripted_gamma_scaling_checked", len(val))
            c = dict(cfg, interface=interface)
            tol = TOL_PARAM + _rate_slack(target, cfg) / fit["rate"]
            if len(rec.of("gamma")) != len(val) or not np.all(np.abs(val * fit["rate"] / g0 - 1.0) <= tol):
                ctx.violation("scripted_variate_scaling", c, detail=f"numpy.random.gamma scripted to return the standard variate {g0:.6g}: "
                              f"{len(rec.of('gamma'))} gamma draws, chain {val.tolist()}, expected {g0 / fit['rate']:.10g} = g0 / rate read off the target")
    if fit is not None:
        ctx.note("target_shape_rate", [fit["shape"], fit["rate"]])
    if "true_rank" in info:
        ctx.note("rank_of_precision_vs_dim", [info["true_rank"], info["m"]])
    if case.get("ks") and fit is not None:
        _ks_second_line(case, ctx, target, fit, cfg, rs)


def _chain(interface, target, N, seed):
    import cuqi
    np.random.seed(seed)
    if interface == "experimental":
        smp = cuqi.experimental.mcmc.Conjugate(target)
        smp.sample(N)
        return np.asarray(smp.get_samples().samples, dtype=float).ravel()
    smp = cuqi.sampler.Conjugate(target)
    return np.array([float(np.asarray(smp.step(None)).ravel()[0]) for _ in range(N)])


def _ks_second_line(case, ctx, target, fit, cfg, rs):
    interface = case["ks_interface"]
    c = dict(cfg, interface=interface)
    N = 1500 if ctx.tier == "quick" else 5000
    seed0 = int(rs.randint(1, 2 ** 31 - 1))
    x = _chain(interface, target, N, seed0)
    D1, s1, p1 = R.ks_to_gamma(x, fit["shape"], fit["rate"])
    ctx.count("ks_tests")
    ctx.note("ks_p", p1)
    if p1 >= 1e-7:
        ctx.nontrivial("ks")
        return
    x2 = _chain(interface, target, 4 * N, seed0 + 1)
    D2, s2, p2 = R.ks_to_gamma(x2, fit["shape"], fit["rate"])
    ctx.count("ks_retests")
    if p2 < 1e-7 and np.sign(s1) == np.sign(s2):
        ctx.violation("ks_law_mismatch", c, detail=f"chain of {N} then {4 * N} draws vs Gamma({fit['shape']:.6g}, {fit['rate']:.6g}) read off the target: "
                      f"D={D1:.4f} p={p1:.2e}; retest D={D2:.4f} p={p2:.2e}")
    ctx.nontrivial("ks")

# --------------------------------------------------------------------------- reject

def _build_reject(case, rs):
    """Returns a zero-argument builder of the target (building may itself refuse)."""
    import cuqi
    D = cuqi.distribution
    st, m = case["structure"], case["m"]
    alpha, beta = case["alpha"], case["beta"]
    data = rs.standard_normal(m) * 1.5 + 0.3
    gam = lambda: D.Gamma(alpha, beta, name="s")
    G = lambda **kw: D.Gaussian(np.zeros(m), name="y", **kw)
    lik = None
    prior = gam
    if st == "cov_pow2": lik = lambda: G(cov=lambda s: 1 / s ** 2)
    elif st == "prec_pow2": lik = lambda: G(prec=lambda s: s ** 2)
    elif st == "cov_sqrt": lik = lambda: G(cov=lambda s: 1 / np.sqrt(s))
    elif st == "prec_sqrt": lik = lambda: G(prec=lambda s: np.sqrt(s))
    elif st == "cov_identity": lik = lambda: G(cov=lambda s: s)
    elif st == "prec_reciprocal": lik = lambda: G(prec=lambda s: 1 / s)
    elif st == "cov_affine": lik = lambda: G(cov=lambda s: 1 / (s + 1))
    elif st == "prec_affine": lik = lambda: G(prec=lambda s: s + 1)
    elif st == "cov_exp": lik = lambda: G(cov=lambda s: np.exp(1 - s))
    elif st == "prec_exp": lik = lambda: G(prec=lambda s: np.exp(s - 1))
    elif st == "cov_match_1_10": lik = lambda: G(cov=lambda s: 1 / (s + (s - 1) * (s - 10) * 0.05))
    elif st == "prec_match_1_10": lik = lambda: G(prec=lambda s: s + (s - 1) * (s - 10) * 0.05)
    elif st == "cov_match_1_100": lik = lambda: G(cov=lambda s: 1 / (s + (s - 1) * (100 - s) * 0.05))
    elif st == "prec_match_1_100": lik = lambda: G(prec=lambda s: s + (s - 1) * (100 - s) * 0.05)
    elif st == "cov_scaled": lik = lambda: G(cov=lambda s: 2 / s)
    elif st == "prec_scaled": lik = lambda: G(prec=lambda s: 2 * s)
    elif st == "cov_vector": lik = lambda: G(cov=lambda s: np.ones(m) / s)
    elif st == "prec_matrix": lik = lambda: G(prec=lambda s: s * np.eye(m))
    elif st == "prec_weighted": lik = lambda: G(prec=lambda s: s * np.arange(1.0, m + 1))
    elif st == "sqrtprec_param": lik = lambda: G(sqrtprec=lambda s: np.sqrt(s))
    elif st == "sqrtcov_param": lik = lambda: G(sqrtcov=lambda s: 1 / np.sqrt(s))
    elif st == "two_occurrences_mean_cov": lik = lambda: D.Gaussian(lambda s: s * np.ones(m), cov=lambda s: 1 / s, geometry=m, name="y")
    elif st == "two_occurrences_mean_prec": lik = lambda: D.Gaussian(lambda s: np.ones(m) / s, prec=lambda s: s, geometry=m, name="y")
    elif st == "mean_only": lik = lambda: D.Gaussian(lambda s: s * np.ones(m), cov=1.0, geometry=m, name="y")
    elif st == "gmrf_pow2": lik = lambda: D.GMRF(np.zeros(m), lambda s: s ** 2, geometry=m, name="y")
    elif st == "gmrf_reciprocal": lik = lambda: D.GMRF(np.zeros(m), lambda s: 1 / s, geometry=m, name="y")
    elif st == "gmrf_affine": lik = lambda: D.GMRF(np.zeros(m), lambda s: s + 1, geometry=m, name="y")
    elif st == "gmrf_scaled": lik = lambda: D.GMRF(np.zeros(m), lambda s: 2 * s, geometry=m, name="y")
    elif st == "gmrf_exp": lik = lambda: D.GMRF(np.zeros(m), lambda s: np.exp(s - 1), geometry=m, name="y")
    elif st == "gmrf_mean_and_prec": lik = lambda: D.GMRF(lambda s: s * np.ones(m), lambda s: s, geometry=m, name="y")
    elif st == "gamma_vector_params":
        lik = lambda: G(cov=lambda s: 1 / s)
        prior = lambda: D.Gamma(np.array([alpha, alpha + 1]), np.array([beta, 2 * beta]), name="s")
    elif st == "gamma_dim2_scalar_params":
        lik = lambda: G(cov=lambda s: 1 / s)
        prior = lambda: D.Gamma(alpha, beta, geometry=2, name="s")
    elif st.startswith("prior_"):
        lik = lambda: G(cov=lambda s: 1 / s)
        prior = {"prior_lognormal": lambda: D.Lognormal(0.0, 1.0, name="s"),
                 "prior_inversegamma": lambda: D.InverseGamma(alpha + 1, 0.0, 1.0, name="s"),
                 "prior_uniform": lambda: D.Uniform(0.1, 10.0, name="s"),
                 "prior_gaussian": lambda: D.Gaussian(1.0, 1.0, name="s"),
                 "prior_beta": lambda: D.Beta(2.0, 2.0, name="s")}[st]
    elif st == "lik_laplace": lik = lambda: D.Laplace(np.zeros(m), lambda s: 1 / s, name="y")
    elif st == "lik_lmrf": lik = lambda: D.LMRF(np.zeros(m), lambda s: 1 / s, geometry=m, name="y")
    elif st == "lik_cauchy": lik = lambda: D.Cauchy(np.zeros(m), lambda s: 1 / s, name="y")
    elif st == "lik_lognormal": lik = lambda: D.Lognormal(np.zeros(m), lambda s: 1 / s, name="y")
    elif st.startswith("near_"):
        return _build_near(case, rs)
    elif st.startswith("occ2_"):
        return _build_occ2(case, rs, data, gam)
    elif st == "not_posterior_gamma":
        return lambda: gam()
    elif st == "not_posterior_gaussian":
        return lambda: G(cov=2.0)
    elif st == "not_posterior_joint":
        return lambda: D.JointDistribution(gam(), G(cov=lambda s: 1 / s))
    else:
        raise KeyError(st)
    if st == "lik_lognormal":
        data = np.abs(data) + 0.1
    return lambda: D.Posterior(lik().to_likelihood(data), prior())


def _build_near(case, rs):
    """cov / prec that misses the supported form by eps, with data and prior scaled so that the miss matters:
    the bulk of the conditional lies where 1/s ~ eps (variance floor) resp. s ~ eps (precision floor)."""
    import cuqi
    D = cuqi.distribution
    _, form, fam, eps_s = case["structure"].split("_")
    eps = float(eps_s)
    m = max(case["m"], 4)
    fn = {"recipplus": lambda s: 1 / s + eps, "recipshift": lambda s: 1 / (s + eps), "recipscale": lambda s: (1 + eps) / s,
          "idplus": lambda s: s + eps, "idscale": lambda s: s * (1 + eps)}[form]
    if form == "recipplus":
        std, beta = 0.3 * np.sqrt(eps), 1e-3 * eps
    elif form in ("recipshift", "idplus"):
        std, beta = 3.0 / np.sqrt(eps), 1.0
    else:
        std, beta = float(rs.choice([1e-5, 1.0, 1e4])), case["beta"]
    data = rs.standard_normal(m) * std
    alpha = case["alpha"]
    def build():
        lik = D.GMRF(np.zeros(m), fn, geometry=m, name="y") if fam == "gmrf" else D.Gaussian(np.zeros(m), **{fam: fn}, name="y")
        return D.Posterior(lik.to_likelihood(data), D.Gamma(alpha, beta, name="s"))
    build.gibbs = None
    build.extra_cfg = {"near_form": form, "near_fam": fam, "eps": eps_s}
    return build


class _Scaler:
    """Callable object / bound-method carrier of a hyper-parameter dependence s -> s*v."""
    def __init__(self, v):
        self.v = v
    def __call__(self, s):
        return s * self.v
    def scaled(self, s):
        return s * self.v


def _build_occ2(case, rs, data, gam):
    """Gaussian/GMRF whose cov/prec has the supported form *and* whose mean depends on the same hyper-parameter
    through a callable that is not a plain function (partial left by conditioning a joint, Model, LinearModel,
    callable instance, bound method).  builder.gibbs builds the joint for the HybridGibbs route (or is None)."""
    import cuqi, functools
    D = cuqi.distribution
    _, carrier, fam = case["structure"].split("_")
    m = case["m"]
    xval = rs.standard_normal(m) + 0.5
    def lik(mean):
        if fam == "gmrf":
            return D.GMRF(mean, lambda s: s, geometry=m, name="y")
        return D.Gaussian(mean, **{fam: (lambda s: 1 / s) if fam == "cov" else (lambda s: s)}, geometry=m, name="y")
    def joint():
        x = D.Gaussian(np.zeros(m), 1.0, name="x")
        return D.JointDistribution(x, lik(lambda x, s: s * x), gam())
    if carrier == "jointpartial":
        builder = lambda: joint()(x=xval, y=data)
        builder.gibbs = lambda: joint()(y=data)
        return builder
    mean = {"partial": lambda: functools.partial(lambda x, s: s * x, xval),
            "model": lambda: cuqi.model.Model(lambda s: s * xval, range_geometry=m, domain_geometry=1),
            "linearmodel": lambda: cuqi.model.LinearModel(lambda s: s * xval, lambda y: np.array([float(xval @ y)]), range_geometry=m, domain_geometry=1),
            "instance": lambda: _Scaler(xval),
            "bound": lambda: _Scaler(xval).scaled}[carrier]
    builder = lambda: D.Posterior(lik(mean()).to_likelihood(data), gam())
    builder.gibbs = None
    return builder


def _reject_gibbs_route(case, ctx, make_joint):
    """HybridGibbs hands the unsupported conditional to Conjugate itself (MH on x, Conjugate on s)."""
    import cuqi
    E = cuqi.experimental.mcmc
    st = case["structure"]
    cfg = {"kind": "reject", "interface": "experimental", "structure": st, "route": "hybridgibbs"}
    kind, T = core.outcome(make_joint, refusal=core.REFUSAL_TYPES_BROAD)
    if kind != "value":
        ctx.refused("build_gibbs:" + st, T); ctx.count("rejections_observed")
        return
    with Monitor() as mon:
        def go():
            g = E.HybridGibbs(T, {"x": E.MH(), "s": E.Conjugate()})
            g.sample(3)
            return g.get_samples()
        kind, val = core.outcome(go, refusal=core.REFUSAL_TYPES_BROAD)
        recs = [r for r in mon.take() if r["role"] == "conj"]
    if kind == "refused":
        ctx.refused("experimental:hybridgibbs", val)
        ctx.count("rejections_observed")
        ctx.nontrivial("experimental:hybridgibbs:refused")
        return
    if kind == "crashed":
        ctx.violation("crash", dict(cfg, exc=type(val).__name__), detail=f"{type(val).__name__}: {core.short(str(val), 300)}")
        return
    ctx.count("unsupported_accepted")
    for r in recs:
        if not (r["done"] and len(r["gammas"]) == 1 and r["gammas"][0]["shape"].size == 1):
            ctx.violation("unsupported_sampled", cfg, detail=f"structure {st} accepted inside HybridGibbs without a capturable Gamma draw")
            continue
        sh, ra = float(r["gammas"][0]["shape"][0]), float(r["gammas"][0]["rate"][0])
        fit, status = _read_target(r["target"])
        ctx.count("accepted_draws_judged")
        exact = fit is not None and fit["resid"] <= TOL_RESID * fit["scale"] and abs(sh - fit["shape"]) <= TOL_PARAM * max(1.0, abs(fit["shape"])) \
            and abs(ra - fit["rate"]) <= TOL_PARAM * abs(fit["rate"])
        if exact:
            ctx.count("accepted_and_exact")
        else:
            why = status if fit is None else f"target logd reads shape={fit['shape']:.8g}, rate={fit['rate']:.8g}, non-Gamma residual {fit['resid']:.2e} of scale {fit['scale']:.3g}"
            ctx.violation("unsupported_sampled", cfg, detail=f"structure {st} (m={case['m']}) was not rejected inside HybridGibbs; drawn from Gamma({sh}, {ra}); {why}")
    ctx.nontrivial("experimental:hybridgibbs:accepted")


def _run_reject(case, ctx, rs):
    import cuqi
    builder = _build_reject(case, rs)
    if getattr(builder, "gibbs", None) is not None:
        _reject_gibbs_route(case, ctx, builder.gibbs)
    st = case["structure"]
    kind, target = core.outcome(builder)
    if kind != "value":
        # the structure cannot even be expressed: that is a refusal of the library, observed once
        ctx.refused("build:" + st, target)
        ctx.count("rejections_observed")
        ctx.nontrivial("build_refused")
        return
    fit = status = None
    with Monitor() as mon:
        for interface, route in (("experimental", "construct"), ("experimental", "reset"), ("legacy", "construct")):
            cfg = {"kind": "reject", "interface": interface, "structure": st, "route": route, **getattr(builder, "extra_cfg", {})}
            mon.take()
            def go():
                if interface == "experimental" and route == "construct":
                    smp = cuqi.experimental.mcmc.Conjugate(target)
                    smp.sample(2)
                    return np.asarray(smp.get_samples().samples, dtype=float).ravel()
                if interface == "experimental":
                    # a sampler that already runs on a supported pair is handed the unsupported target (what Gibbs does every sweep)
                    D = cuqi.distribution
                    good = D.Posterior(D.Gaussian(np.zeros(2), cov=lambda s: 1 / s, name="y").to_likelihood(np.array([0.4, -1.1])), D.Gamma(1.0, 1.0, name="s"))
                    smp = cuqi.experimental.mcmc.Conjugate(good)
                    smp.sample(1)
                    smp.target = target
                    smp.sample(2)
                    return np.asarray(smp.get_samples().samples, dtype=float).ravel()[1:]
                smp = cuqi.sampler.Conjugate(target)
                return np.array([float(np.asarray(smp.step(np.array([1.0]))).ravel()[0]), float(np.asarray(smp.step(np.array([4.2]))).ravel()[0])])
            # rejection of an unsupported structure: any exception type counts as a rejection here
            kind, val = core.outcome(go, refusal=core.REFUSAL_TYPES_BROAD)
            recs = [r for r in mon.take() if r["role"] == "conj" and r["target"] is target]
            if kind == "refused":
                ctx.refused(f"{interface}", val)
                ctx.count("rejections_observed")
                ctx.nontrivial(interface + ":" + route + ":refused")
                continue
            if kind == "crashed":
                ctx.violation("crash", dict(cfg, exc=type(val).__name__), detail=f"{type(val).__name__}: {core.short(str(val), 300)}")
                continue
            # accepted: then it has to be exact
            ctx.count("unsupported_accepted")
            if fit is None and status is None:
                fit, status = _read_target(target)
            drawn = [(float(r["gammas"][0]["shape"][0]), float(r["gammas"][0]["rate"][0])) for r in recs
                     if r["done"] and len(r["gammas"]) == 1 and r["gammas"][0]["shape"].size == 1]
            if not drawn:
                ctx.violation("unsupported_sampled", cfg, detail=f"structure {st} was accepted and returned {val.tolist()} without a capturable Gamma draw")
                continue
            exact = fit is not None and fit["resid"] <= TOL_RESID * fit["scale"] and all(
                abs(sh - fit["shape"]) <= TOL_PARAM * max(1.0, abs(fit["shape"])) and abs(ra - fit["rate"]) <= TOL_PARAM * abs(fit["rate"]) for sh, ra in drawn)
            ctx.count("accepted_draws_judged", len(drawn))
            if exact:
                ctx.count("accepted_and_exact")
                if not st.startswith("near_") or "scale" in st:     # a near-miss whose miss is not measurable proves nothing
                    ctx.nontrivial(interface + ":accepted_exact")
            else:
                why = status if fit is None else (f"target logd reads shape={fit['shape']:.8g}, rate={fit['rate']:.8g}, non-Gamma residual "
                                                  f"{fit['resid']:.2e} of scale {fit['scale']:.3g}")
                ctx.violation("unsupported_sampled", cfg, detail=f"structure {st} (m={case['m']}) was not rejected; drawn from Gamma{drawn[0]}; {why}")
                ctx.nontrivial(interface + ":accepted_wrong")

# --------------------------------------------------------------------------- gibbs

def _run_gibbs(case, ctx, rs):
    import cuqi
    D = cuqi.distribution
    n, interface = case["n"], case["interface"]
    m = n * case["mfac"] + 1
    prior = case["prior"]
    d = D.Gamma(float(rs.choice([1.0, 2.0])), float(rs.choice([1e-2, 0.5])), name="d")
    s = D.Gamma(float(rs.choice([1.0, 3.0])), float(rs.choice([1e-2, 1.0])), name="s")
    fam, bc, order, pd = "gauss", None, None, None
    if prior.startswith("gmrf"):
        fam = "gmrf"
        bc = "neumann" if "neumann" in prior else "zero"
        order = 2 if "o2" in prior else (0 if "o0" in prior else 1)
        pd = 1   # (matrix-backed LinearModel on an Image2D domain fails inside the model layer: C07/C12 territory, not driven here)
        geom = cuqi.geometry.Continuous1D(n)
        x = D.GMRF(np.zeros(n), lambda d: d, bc_type=bc, order=order, geometry=geom, name="x")
    elif prior == "gauss_cov":
        x = D.Gaussian(np.zeros(n), cov=lambda d: 1 / d, name="x")
    else:
        x = D.Gaussian(np.zeros(n), prec=lambda d: d, name="x")
    Amat = rs.standard_normal((m, n)) / np.sqrt(n)
    A = cuqi.model.LinearModel(Amat, domain_geometry=x.geometry, range_geometry=m)
    y = D.Gaussian(A @ x, cov=lambda s: 1 / s, name="y") if case["noise"] == "cov" else D.Gaussian(A @ x, prec=lambda s: s, name="y")
    xtrue = np.cumsum(rs.standard_normal(n)) * 0.3
    ydata = Amat @ xtrue + 0.1 * rs.standard_normal(m)
    T = D.JointDistribution(d, s, x, y)(y=ydata)
    K = case["steps"]
    np.random.seed(int(rs.randint(1, 2 ** 31 - 1)))
    with Monitor() as mon:
        if interface == "experimental":
            E = cuqi.experimental.mcmc
            def go():
                g = E.HybridGibbs(T, {"x": E.LinearRTO(), "d": E.Conjugate(), "s": E.Conjugate()})
                g.warmup(2)
                g.sample(K)
                return g.get_samples()
        else:
            L = cuqi.sampler
            def go():
                g = L.Gibbs(T, {"x": L.LinearRTO, ("d", "s"): L.Conjugate})
                return g.sample(K, 2)
        kind, val = core.outcome(go)
        recs = [r for r in mon.take() if r["role"] == "conj"]
    base = {"kind": "gibbs", "interface": interface}
    if kind != "value":
        ctx.violation("supported_pair_refused" if kind == "refused" else "crash", dict(base, prior=prior, exc=type(val).__name__),
                      detail=f"Gibbs with conjugate hyper-parameter updates failed: {type(val).__name__}: {core.short(str(val), 300)}")
        return
    ctx.count("gibbs_conj_steps_observed", len(recs))
    if len(recs) != 2 * (K + 2):
        ctx.violation("step_count", dict(base, prior=prior), detail=f"{len(recs)} conjugate steps observed in {K + 2} Gibbs sweeps over two hyper-parameters")
    chains = {k: np.asarray(val[k].samples, dtype=float) for k in ("d", "s")}
    seen = {"d": [], "s": []}
    judged = 0
    for r in recs:
        t = r["target"]
        pname = getattr(getattr(t, "prior", None), "name", None)
        if pname == "d":
            cfg = {"kind": "gibbs", "family": fam, "construction": "gibbs"}
            if fam == "gmrf":
                cfg.update({"bc": bc, "order": order, "pd": pd})
            else:
                cfg["param"] = "cov" if prior == "gauss_cov" else "prec"
        else:
            cfg = {"kind": "gibbs", "family": "gauss", "param": case["noise"], "construction": "gibbs"}
        fit, status = _read_target(t)
        judged += bool(_judge_step(ctx, r, fit, status, cfg, counter_prefix="gibbs_"))
        if pname in seen and r["done"]:
            seen[pname].append(float(r["out"][0]))
    # the stored chains are the draws of the steps (burn-in handling differs between the interfaces: compare the tail)
    for k in ("d", "s"):
        ch = chains[k].ravel()
        ctx.count("chain_vs_draws_compared")
        tail = np.array(seen[k][-len(ch):]) if interface == "legacy" else np.array(seen[k])
        if interface == "legacy":
            ok = ch.size == K and np.array_equal(ch, np.array(seen[k][-K:]))
        else:
            ok = ch.size == K + 2 and np.array_equal(ch, tail)
        if not ok:
            ctx.violation("chain_not_the_draws", dict(base, prior=prior), detail=f"chain of {k}: {ch.tolist()} vs step values {seen[k]}")
    if judged:
        ctx.nontrivial()


def _run_gibbs_direct(case, ctx, rs):
    """z ~ Gamma, w | z ~ Gaussian(0, 1/z): HybridGibbs with Direct on w and Conjugate on z."""
    import cuqi
    D, E = cuqi.distribution, cuqi.experimental.mcmc
    n, K = case["n"], case["steps"]
    z = D.Gamma(float(rs.choice([2.0, 5.0])), float(rs.choice([0.5, 2.0])), name="z")
    mean = rs.standard_normal(n)
    w = D.Gaussian(mean, cov=lambda z: 1 / z, name="w") if case["param"] == "cov" else D.Gaussian(mean, prec=lambda z: z, name="w")
    J = D.JointDistribution(z, w)
    np.random.seed(int(rs.randint(1, 2 ** 31 - 1)))
    with Monitor() as mon:
        def go():
            g = E.HybridGibbs(J, {"w": E.Direct(), "z": E.Conjugate()})
            g.warmup(1)
            g.sample(K)
            return g.get_samples()
        kind, val = core.outcome(go)
        recs = mon.take()
    cfg = {"kind": "gibbs_direct", "interface": "experimental"}
    if kind != "value":
        ctx.violation("supported_pair_refused" if kind == "refused" else "crash", dict(cfg, exc=type(val).__name__),
                      detail=f"{type(val).__name__}: {core.short(str(val), 300)}")
        return
    zs, ws = [], []
    last_z = None
    judged = 0
    for r in recs:
        if r["role"] == "conj":
            fit, status = _read_target(r["target"])
            judged += bool(_judge_step(ctx, r, fit, status, {"kind": "gibbs", "family": "gauss", "param": case["param"], "construction": "gibbs_direct"},
                                       counter_prefix="gibbs_"))
            if r["done"]:
                last_z = float(r["out"][0]); zs.append(last_z)
        elif r["role"] == "direct":
            _judge_direct_step(ctx, r, cfg)
            if r["done"]:
                ws.append(r["out"])
                # the Direct target of this sweep must be the conditional at the latest z
                t = r["target"]
                if last_z is not None:
                    ctx.count("direct_target_is_current_conditional")
                    got = np.asarray(t.cov if case["param"] == "cov" else t.prec, dtype=float).ravel()
                    want = 1 / last_z if case["param"] == "cov" else last_z
                    if got.size != 1 or abs(got[0] - want) > 1e-12 * abs(want):
                        ctx.violation("direct_on_stale_target", cfg, detail=f"Direct stepped on a Gaussian with {case['param']}={got} while the latest z is {last_z}")
    chz = np.asarray(val["z"].samples, dtype=float).ravel()
    chw = np.asarray(val["w"].samples, dtype=float)
    ctx.count("chain_vs_draws_compared", 2)
    if not (chz.size == len(zs) and np.array_equal(chz, np.array(zs))):
        ctx.violation("chain_not_the_draws", cfg, detail=f"z chain {chz.tolist()} vs {zs}")
    if not (chw.shape[1] == len(ws) and all(np.array_equal(chw[:, i], ws[i]) for i in range(len(ws)))):
        ctx.violation("chain_not_the_draws", cfg, detail="w chain differs from the values of the Direct steps")
    if judged:
        ctx.nontrivial()

# --------------------------------------------------------------------------- direct

def _judge_direct_step(ctx, r, cfg):
    if not r["done"]:
        return False
    calls = [c for c in r["samples"]]
    ctx.count("direct_steps_observed")
    own = [c for c in calls if c["obj"] is r["target"]]
    if len(own) != 1 or len(calls) != 1:
        ctx.violation("direct_sample_calls", cfg, detail=f"{len(calls)} Distribution.sample calls inside one Direct.step, {len(own)} of them on the sampler's target")
        return False
    ctx.count("direct_draws_compared")
    if own[0]["N"] != 1 or own[0]["out"].shape != r["out"].shape or not np.array_equal(own[0]["out"], r["out"]):
        ctx.violation("direct_not_target_sample", cfg, detail=f"target.sample(N={own[0]['N']}) returned {core.short(own[0]['out'].tolist(), 200)}, "
                      f"the step left current_point = {core.short(r['out'].tolist(), 200)}")
    return True


def _build_direct(fam, n, rs):
    import cuqi
    D = cuqi.distribution
    spd = _spd(rs, n)
    mean = rs.standard_normal(n)
    tbl = {
        "Gaussian_scalarcov": lambda: D.Gaussian(mean, 2.3, name="x"),
        "Gaussian_veccov": lambda: D.Gaussian(mean, rs.uniform(0.5, 2, n), name="x"),
        "Gaussian_fullcov": lambda: D.Gaussian(mean, spd, name="x"),
        "Gaussian_prec": lambda: D.Gaussian(mean, prec=spd, name="x"),
        "Gaussian_sqrtprec": lambda: D.Gaussian(mean, sqrtprec=np.linalg.cholesky(spd).T, name="x"),
        "Gaussian_sqrtcov": lambda: D.Gaussian(mean, sqrtcov=np.linalg.cholesky(spd), name="x"),
        "Gaussian_1d": lambda: D.Gaussian(0.5, 2.0, name="x"),
        "Normal": lambda: D.Normal(1.0, 2.0, name="x"),
        "Normal_vec": lambda: D.Normal(mean, np.ones(n), name="x"),
        "GMRF_zero_o1": lambda: D.GMRF(mean, 3.0, order=1, geometry=n, name="x"),
        "GMRF_zero_o2": lambda: D.GMRF(mean, 3.0, order=2, geometry=max(n, 4), name="x") if n >= 4 else D.GMRF(np.zeros(4), 3.0, order=2, geometry=4, name="x"),
        "GMRF_zero_o0": lambda: D.GMRF(mean, 0.7, order=0, geometry=n, name="x"),
        "GMRF_neumann": lambda: D.GMRF(mean, 3.0, bc_type="neumann", geometry=n, name="x"),
        "GMRF_periodic": lambda: D.GMRF(np.zeros(max(n, 3)), 3.0, bc_type="periodic", geometry=max(n, 3), name="x"),
        "GMRF_2d": lambda: D.GMRF(np.zeros(16), 3.0, geometry=cuqi.geometry.Image2D((4, 4)), name="x"),
        "Gamma": lambda: D.Gamma(2.0, 3.0, name="x"),
        "Gamma_vec": lambda: D.Gamma(rs.uniform(0.5, 4, n), rs.uniform(0.5, 4, n), name="x"),
        "InverseGamma": lambda: D.InverseGamma(3.0, 0.0, 2.0, name="x"),
        "Beta": lambda: D.Beta(2.0, 3.0, name="x"),
        "Laplace": lambda: D.Laplace(mean, 2.0, name="x"),
        "Cauchy": lambda: D.Cauchy(mean, 2.0, name="x"),
        "Lognormal": lambda: D.Lognormal(mean, 0.5, name="x"),
        "Uniform": lambda: D.Uniform(np.zeros(n), np.ones(n), name="x"),
        "MHN": lambda: D.ModifiedHalfNormal(2.0, 1.0, 0.5, name="x"),
        "UserDefined_sample": lambda: D.UserDefinedDistribution(dim=n, logpdf_func=lambda x: -0.5 * np.sum(x ** 2), sample_func=lambda: np.random.randn(n), name="x"),
        "conditioned_Gaussian": lambda: D.Gaussian(mean, lambda s: 1 / s, name="x")(s=2.5),
        "SmoothedLaplace": lambda: D.SmoothedLaplace(mean, 2.0, 1e-3, name="x"),
        "LMRF": lambda: D.LMRF(np.zeros(n), 1.0, geometry=n, name="x"),
        "CMRF": lambda: D.CMRF(np.zeros(n), 1.0, geometry=n, name="x"),
        "UserDefined_nosample": lambda: D.UserDefinedDistribution(dim=n, logpdf_func=lambda x: -0.5 * np.sum(x ** 2), name="x"),
        "conditional_Gaussian": lambda: D.Gaussian(mean, lambda s: 1 / s, name="x"),
        "Posterior": lambda: D.Posterior(D.Gaussian(np.zeros(n), lambda s: 1 / s, name="y").to_likelihood(mean), D.Gamma(1.0, 1.0, name="s")),
        "Gallery": lambda: D.DistributionGallery("donut"),
    }
    return tbl[fam]()


def _run_direct(case, ctx, rs):
    import cuqi
    fam, n, K = case["family"], case["n"], case["steps"]
    cfg = {"kind": "direct", "family": fam}
    target = _build_direct(fam, n, rs)
    kind, smp = core.outcome(cuqi.experimental.mcmc.Direct, target)
    if fam in DIRECT_UNSAMPLABLE:
        if kind == "refused":
            ctx.refused("direct:" + fam, smp); ctx.count("rejections_observed"); ctx.count("direct_unsamplable_refused"); ctx.nontrivial()
        elif kind == "crashed":
            ctx.violation("crash", dict(cfg, exc=type(smp).__name__), detail=repr(smp))
        else:
            k2, v2 = core.outcome(lambda: smp.sample(2))
            if k2 == "value":
                ctx.violation("direct_accepts_unsamplable", cfg, detail=f"Direct accepted a {fam} target without a sample method and produced a chain")
            else:
                ctx.refused("direct_step:" + fam, v2); ctx.count("rejections_observed"); ctx.nontrivial()
        return
    if kind != "value":
        ctx.violation("direct_refuses_samplable" if kind == "refused" else "crash", dict(cfg, exc=type(smp).__name__),
                      detail=f"Direct on a samplable {fam}: {type(smp).__name__}: {core.short(str(smp), 200)}")
        return
    seed0 = int(rs.randint(1, 2 ** 31 - 1))
    with Monitor() as mon:
        np.random.seed(seed0)
        with Scripted() as rec1:
            smp.warmup(2)
            smp.sample(K)
        recs = [r for r in mon.take() if r["role"] == "direct"]
    chain = np.asarray(smp.get_samples().samples, dtype=float)
    chain = chain.reshape(1, -1) if chain.ndim == 1 else chain
    if len(recs) != K + 2:
        ctx.violation("step_count", cfg, detail=f"{len(recs)} Direct.step calls for warmup(2)+sample({K})")
    ok = 0
    for r in recs:
        if r["target"] is not target:
            ctx.violation("step_on_other_target", cfg, detail="Direct stepped on an object that is not the given target")
            continue
        ok += bool(_judge_direct_step(ctx, r, cfg))
    ctx.count("chain_vs_draws_compared")
    if chain.shape[1] != len(recs) or not all(np.array_equal(chain[:, i], recs[i]["out"]) for i in range(min(chain.shape[1], len(recs)))):
        ctx.violation("chain_not_the_draws", cfg, detail="the stored chain differs from the values of the Direct steps")
    # replay: the same stream position fed to the target's own sample method gives the same chain, consuming the same draws
    np.random.seed(seed0)
    with Scripted() as rec2:
        ref = [np.asarray(target.sample(), dtype=float).ravel() for _ in range(K + 2)]
    ctx.count("direct_replay_compared", len(ref))
    same = chain.shape[1] == len(ref) and all(chain[:, i].shape == ref[i].shape and np.array_equal(chain[:, i], ref[i]) for i in range(len(ref)))
    if not same:
        ctx.violation("direct_replay_mismatch", cfg, detail=f"chain under seed {seed0} is not the sequence target.sample() gives from the same stream state; "
                      f"first chain column {core.short(chain[:, 0].tolist(), 150)} vs {core.short(ref[0].tolist(), 150)}")
    sig1 = [(d[1], d[2]) for d in rec1.draws]
    sig2 = [(d[1], d[2]) for d in rec2.draws]
    ctx.count("direct_stream_signature_compared")
    if sig1 != sig2:
        ctx.violation("direct_stream_mismatch", cfg, detail=f"Direct consumed {len(sig1)} random draws, {K + 2} target.sample() calls consume {len(sig2)}: {sig1[:4]} vs {sig2[:4]}")
    if ok:
        ctx.nontrivial()

# --------------------------------------------------------------------------- approx (observed only)

def _run_approx(case, ctx, rs):
    import cuqi
    D = cuqi.distribution
    N, bc = case["N"], case["bc"]
    x = D.LMRF(0, lambda s: 1 / s, bc_type=bc, geometry=N, name="x")
    s = D.Gamma(1.0, 1e-2, name="s")
    P = D.Posterior(x.to_likelihood(rs.standard_normal(N)), s)
    got = {}
    with Monitor() as mon:
        for interface in ("experimental", "legacy"):
            mon.take()
            def go():
                if interface == "experimental":
                    a = cuqi.experimental.mcmc.ConjugateApprox(P); a.sample(2); return a.current_point
                return cuqi.sampler.ConjugateApprox(P).step()
            kind, val = core.outcome(go)
            recs = mon.take()
            if kind == "value":
                g = [r["gammas"][0] for r in recs if r["done"] and len(r["gammas"]) == 1]
                if g:
                    got[interface] = (float(g[0]["shape"][0]), float(g[0]["rate"][0]))
                    ctx.count("approx_observed")
            else:
                ctx.refused("approx:" + interface, val)
    ctx.note("approx_gammas", got)
    if len(got) == 2:
        ctx.count("approx_interfaces_agree" if np.allclose(got["experimental"], got["legacy"], rtol=1e-10) else "approx_interfaces_differ")

# --------------------------------------------------------------------------- entry points

def run_case(case, ctx):
    rs = core.np_rng(ctx.seed, PROPERTY, core.canon(case))
    kind = case["kind"]
    if kind == "conj":
        _run_conj(case, ctx, rs)
    elif kind == "reject":
        _run_reject(case, ctx, rs)
    elif kind == "gibbs":
        _run_gibbs(case, ctx, rs)
    elif kind == "gibbs_direct":
        _run_gibbs_direct(case, ctx, rs)
    elif kind == "direct":
        _run_direct(case, ctx, rs)
    elif kind == "approx":
        _run_approx(case, ctx, rs)
    else:
        raise KeyError(kind)


def selftest(ctx):
    for msg in R.selftest():
        ctx.inconclusive(msg)
    # reference stencils agree with the null-space dimension they imply (used for the 'nullspace' data and rank notes)
    for bc in ("zero", "periodic", "neumann"):
        for order in (0, 1, 2):
            Dm = S.diff_op(6, bc, order, 1)
            if np.linalg.matrix_rank(Dm.T @ Dm) != 6 - S.null_space_dim(6, bc, order, 1):
                ctx.inconclusive(f"stencil rank/null-space mismatch for {bc} order {order}")
