"""C20 - difference operators and the MRF priors built on them have the documented structure.

Workload: every (N, boundary condition, order, 1D/2D, dx) in a bounded range (exhaustive),
each with the operators and the GMRF/LMRF/CMRF priors built on them.
Monitors: the operator matrices, precision matrices, GMRF.sqrtprec / logpdf, LMRF/CMRF logpdf
observed at the public API.
Oracle: dense loop-built reference stencils (vlib/refs/stencils.py, no cuqi import).
"""
import numpy as np
from vlib import core
from vlib.refs import stencils as S

PROPERTY = "C20"
RULE = ("exhaustive enumeration of (kind, N, boundary condition, order, physical dim, dx/prec/shift variant); "
        "a case is non-trivial when the library built the object and at least one structural monitor "
        "(stencil rows, Kronecker stacking, D^T D, null space, sqrtprec, rank/log-det, MRF density) compared a "
        "value against the reference; distinct = distinct descriptors")
ASSUMPTIONS = ["reference stencils follow the row layout documented by construction in cuqi.operator "
               "(rows compared up to a per-row sign, since the sign of a difference is not documented)"]
EXHAUSTIVE = {"quick": True, "thorough": True}
REQUIRED_COUNTERS = {"quick": {"stencil_rows_checked": 500, "nullspace_checked": 50, "gmrf_rank_logdet_checked": 40, "mrf_density_checked": 100, "gmrf_config_switch_checked": 20, "mrf_extreme_magnitude_beyond_exp_range": 100},
                     "thorough": {"stencil_rows_checked": 3000, "nullspace_checked": 200, "gmrf_rank_logdet_checked": 150, "mrf_density_checked": 400, "gmrf_config_switch_checked": 60, "mrf_extreme_magnitude_beyond_exp_range": 300}}

EXTREME_SCALES = (1e-3, 0.02, 0.05, 1.0, 50.0, 1e3)

def _ranges(tier):
    return (range(2, 13), range(2, 6)) if tier == "quick" else (range(2, 41), range(2, 13))

def cases(tier, seed):
    r1, r2 = _ranges(tier)
    out = []
    for pd, rng in ((1, r1), (2, r2)):
        for N in rng:
            for order in (1, 2):
                for bc in (S.BCS1 if order == 1 else S.BCS2):
                    dxs = (None, 0.5, 2.0) if pd == 1 else (None, 0.5)
                    for dx in dxs:
                        out.append({"kind": "op", "N": N, "bc": bc, "order": order, "pd": pd, "dx": dx})
            for order in (0, 1, 2):
                for bc in ("zero", "periodic", "neumann"):
                    out.append({"kind": "prec", "N": N, "bc": bc, "order": order, "pd": pd})
                    # variant 0/1: a fresh object per precision; 2: one object whose prec is re-assigned
                    # (history); 3: conditioned copies of one object with a callable precision (as Gibbs does)
                    for variant in range(4):
                        out.append({"kind": "gmrf", "N": N, "bc": bc, "order": order, "pd": pd, "variant": variant})
            # run-time configuration: cuqi.config.MAX_DIM_INV decides between the exact (eigenvalue) log-det and the
            # documented Cholesky approximation of P + sqrt(eps) I; the switch must follow the *current* setting
            if N ** pd >= 4:
                for bc in ("periodic", "neumann"):
                    for side in ("below", "above"):
                        out.append({"kind": "gmrf_cfg", "N": N, "bc": bc, "order": 1, "pd": pd, "side": side})
            for bc in S.BCS1:   # LMRF/CMRF accept all five first-order boundary conditions
                # variant 0/1: vector location (zero / random); 2: scalar location, also evaluated on a batch of columns
                for variant in range(3):
                    out.append({"kind": "lmrf", "N": N, "bc": bc, "pd": pd, "variant": variant})
                    out.append({"kind": "cmrf", "N": N, "bc": bc, "pd": pd, "variant": variant})
    # magnitudes: long fields and small/large scales, where the log-density is of ordinary size but products of
    # the individual factors over- or underflow (the documented density is a *sum* of log terms)
    big1, big2 = ((64, 256, 600), (10, 16)) if tier == "quick" else ((64, 150, 256, 400, 600, 1000), (10, 16, 24, 32))
    for pd, sizes in ((1, big1), (2, big2)):
        for N in sizes:
            for bc in S.BCS1:
                for si in range(len(EXTREME_SCALES)):
                    out.append({"kind": "lmrf", "N": N, "bc": bc, "pd": pd, "variant": 3, "scale_idx": si})
                    out.append({"kind": "cmrf", "N": N, "bc": bc, "pd": pd, "variant": 3, "scale_idx": si})
    return out

def crash_config(case):
    return {k: case[k] for k in ("kind", "bc", "order", "pd") if k in case}

def _dense(M):
    return M.toarray() if hasattr(M, "toarray") else np.asarray(M)

def _rows_equal_up_to_sign(A, B, tol=1e-12):
    if A.shape != B.shape:
        return False, "shape %s vs %s" % (A.shape, B.shape)
    for i, (a, b) in enumerate(zip(A, B)):
        if not (np.allclose(a, b, atol=tol, rtol=0) or np.allclose(a, -b, atol=tol, rtol=0)):
            return False, "row %d: %s vs reference %s" % (i, a.tolist(), b.tolist())
    return True, ""

def _cfg(case):
    return {k: case[k] for k in ("kind", "bc", "order", "pd") if k in case}

def run_case(case, ctx):
    import cuqi
    kind = case["kind"]
    rs = core.np_rng(ctx.seed, PROPERTY, core.canon(case))
    N, pd, bc = case["N"], case["pd"], case["bc"]
    nodes = N if pd == 1 else (N, N)
    n = N ** pd
    if kind == "op":
        order, dx = case["order"], case["dx"]
        cls = cuqi.operator.FirstOrderFiniteDifference if order == 1 else cuqi.operator.SecondOrderFiniteDifference
        if pd == 2 and dx is not None:
            kind_, val = core.outcome(cls, nodes, bc_type=bc, dx=dx)
            if kind_ == "refused":
                ctx.refused("2D dx", val); ctx.count("refusal_observed"); ctx.nontrivial()
                return
            if kind_ == "crashed":
                ctx.violation("crash", {**_cfg(case), "exc": type(val).__name__}, detail=repr(val)); return
            op = val  # accepted: then it must be the scaled operator
        else:
            op = cls(nodes, bc_type=bc, dx=dx) if dx is not None else cls(nodes, bc_type=bc)
        D = _dense(op.get_matrix())
        R = S.diff_op(N, bc, order, pd, 1.0 if dx is None else dx)
        ok, why = _rows_equal_up_to_sign(D, R)
        ctx.count("stencil_rows_checked", R.shape[0])
        if not ok:
            ctx.violation("stencil_mismatch", _cfg(case), detail=f"N={N} dx={dx}: {why}")
        if pd == 2:
            D1 = _dense(cls(N, bc_type=bc).get_matrix())
            ctx.count("kron_stacking_checked")
            if not np.allclose(D, S.stack_2d(D1, N), atol=1e-12):
                ctx.violation("kron_stacking_mismatch", _cfg(case), detail=f"N={N}: 2D operator is not vstack(kron(I,D),kron(D,I)) of its own 1D operator")
        # action on vectors through every documented entry point
        for _ in range(3):
            x = rs.standard_normal(n)
            ref = np.abs(R @ x)
            for name, got in (("matmul", op @ x), ("get_matrix", op.get_matrix() @ x)):
                ctx.count("operator_applications")
                if not ctx.close(np.abs(np.asarray(got).ravel()), ref, rtol=1e-10, atol=1e-12):
                    ctx.violation("operator_action_mismatch", {**_cfg(case), "via": name}, detail=f"N={N} dx={dx}")
        if tuple(op.shape) != R.shape or int(op.dim) != n:
            ctx.violation("operator_shape_mismatch", _cfg(case), detail=f"shape {op.shape} dim {op.dim} vs {R.shape}, {n}")
        ctx.nontrivial()
        ctx.note("shape", list(D.shape))
        return

    if kind == "prec":
        order = case["order"]
        op = cuqi.operator.PrecisionFiniteDifference(nodes, bc_type=bc, order=order)
        P = _dense(op.get_matrix())
        R = S.diff_op(N, bc, order, pd)
        Pref = R.T @ R
        ctx.count("precision_checked")
        if not np.allclose(P, Pref, atol=1e-10):
            ctx.violation("precision_not_DtD", _cfg(case), detail=f"N={N}: max abs diff {np.max(np.abs(P-Pref)) if P.shape==Pref.shape else 'shape'}")
            return
        if not np.allclose(P, P.T, atol=1e-12):
            ctx.violation("precision_not_symmetric", _cfg(case), detail=f"N={N}")
        w = np.linalg.eigvalsh((P + P.T) / 2)
        if w.min() < -1e-10 * max(1.0, w.max()):
            ctx.violation("precision_not_psd", _cfg(case), detail=f"N={N}: min eig {w.min()}")
        k = S.null_space_dim(N, bc, order, pd)
        nullity = int(np.sum(w < 1e-9 * max(1.0, w.max())))
        ctx.count("nullspace_checked")
        if nullity != k:
            ctx.violation("nullspace_dimension", _cfg(case), detail=f"N={N}: nullity {nullity}, implied by bc {k}")
        B = S.null_space_basis(N, bc, order, pd)
        if B.shape[1] and not np.allclose(P @ B, 0, atol=1e-9 * max(1.0, w.max())):
            ctx.violation("nullspace_basis", _cfg(case), detail=f"N={N}: P does not annihilate the implied null space")
        ctx.nontrivial()
        ctx.note("eig_min_max_nullity", [float(w.min()), float(w.max()), nullity])
        return

    geom = cuqi.geometry.Continuous1D(N) if pd == 1 else cuqi.geometry.Image2D((N, N))
    if kind == "gmrf_cfg":
        order = case["order"]
        R = S.diff_op(N, bc, order, pd)
        Pref = R.T @ R
        saved = cuqi.config.MAX_DIM_INV
        try:
            # 'below': the limit is lowered under the dimension -> documented approximation; 'above': exact
            cuqi.config.MAX_DIM_INV = (n - 1) if case["side"] == "below" else (n + 1)
            deltas = (0.9, 4.3)
            consts = [float(cuqi.distribution.GMRF(np.zeros(n), d, bc_type=bc, order=order, geometry=geom, name="x").logpdf(np.zeros(n))) for d in deltas]
        finally:
            cuqi.config.MAX_DIM_INV = saved
        r_obs = 2 * (consts[1] - consts[0]) / (np.log(deltas[1]) - np.log(deltas[0]))
        logdet_obs = 2 * consts[0] - r_obs * (np.log(deltas[0]) - np.log(2 * np.pi))
        exact, r_ref, _ = S.pseudo_logdet_and_rank(Pref)
        approx = float(np.linalg.slogdet(Pref + np.sqrt(np.finfo(float).eps) * np.eye(n))[1])
        want = approx if case["side"] == "below" else exact
        ctx.count("gmrf_config_switch_checked")
        ctx.note("logdet_obs_exact_approx", [float(logdet_obs), exact, approx])
        if abs(r_obs - r_ref) > 1e-6 or abs(logdet_obs - want) > 1e-6 * max(1.0, abs(want)) + 1e-6:
            ctx.violation("gmrf_logdet_ignores_config", {**_cfg(case), "side": case["side"]},
                          detail=f"N={N}: with cuqi.config.MAX_DIM_INV set {case['side']} the dimension the log-det implied by logpdf is {logdet_obs:.6g} "
                                 f"(rank {r_obs:.6g}); exact {exact:.6g}, documented approximation {approx:.6g}")
        ctx.nontrivial()
        return
    variant = case["variant"]
    shift = np.zeros(n) if variant == 0 else rs.standard_normal(n)
    if kind in ("lmrf", "cmrf") and variant == 2:
        shift = float(rs.standard_normal())       # scalar location, broadcast by the library
    if kind == "gmrf":
        order = case["order"]
        R = S.diff_op(N, bc, order, pd)
        Pref = R.T @ R
        deltas = (0.7, 3.1) if variant == 0 else (float(rs.uniform(0.1, 10)), float(rs.uniform(10, 50)))
        consts, quad_ok = [], True
        g_hist = None
        for delta in deltas:
            if variant <= 1:
                g = cuqi.distribution.GMRF(shift, delta, bc_type=bc, order=order, geometry=geom, name="x")
            elif variant == 2:      # same object, precision re-assigned after everything was read once
                if g_hist is None:
                    g_hist = cuqi.distribution.GMRF(shift, delta, bc_type=bc, order=order, geometry=geom, name="x")
                else:
                    g_hist.prec = delta
                    ctx.count("prec_reassigned")
                g = g_hist
            else:                   # conditioned copies of one conditional object
                if g_hist is None:
                    g_hist = cuqi.distribution.GMRF(shift, lambda d: d, bc_type=bc, order=order, geometry=geom, name="x")
                g = g_hist(d=delta)
                ctx.count("conditioned_copy")
            consts.append(float(g.logpdf(shift)))
            for _ in range(3 if np.isfinite(consts[-1]) else 0):
                x = shift + rs.standard_normal(n)
                q = float(g.logpdf(x)) - consts[-1]
                qref = -0.5 * delta * float((x - shift) @ Pref @ (x - shift))
                ctx.count("mrf_density_checked")
                if not ctx.close(q, qref, rtol=1e-9, atol=1e-9):
                    quad_ok = False
                    ctx.violation("gmrf_quadratic_form", _cfg(case), detail=f"N={N} delta={delta}: logpdf(x)-logpdf(mean)={q} vs -delta/2 (x-m)^T D^T D (x-m)={qref}")
            # sqrtprec^T sqrtprec == delta * P (up to the documented sqrt(eps) regularisation)
            Sq = _dense(g.sqrtprec)
            reg = 0.0 if bc == "zero" else np.sqrt(np.finfo(float).eps)
            ctx.count("sqrtprec_checked")
            if not np.allclose(Sq.T @ Sq, delta * (Pref + reg * np.eye(n)), atol=1e-7 * delta * max(1.0, np.abs(Pref).max())):
                ctx.violation("gmrf_sqrtprec", _cfg(case), detail=f"N={N} delta={delta}: sqrtprec^T sqrtprec != prec * D^T D")
            ctx.count("sqrtprec_mean_checked")
            if not ctx.close(np.asarray(g.sqrtprecTimesMean).ravel(), Sq @ shift, rtol=1e-9, atol=1e-9):
                ctx.violation("gmrf_sqrtprecTimesMean", _cfg(case), detail=f"N={N}")
        # rank and log-determinant as reported through the normalising constant:
        # const(delta) = 0.5*(r*(log delta - log 2pi) + logdet)
        logdet_ref, r_ref, w = S.pseudo_logdet_and_rank(Pref)
        ctx.count("gmrf_rank_logdet_checked")
        if not np.all(np.isfinite(consts)):
            ctx.violation("gmrf_rank_logdet", _cfg(case), detail=f"N={N}: logpdf(mean) is not finite ({consts}); precision has rank {r_ref}, log-pdet {logdet_ref:.6g}")
            ctx.nontrivial()
            return
        r_obs = 2 * (consts[1] - consts[0]) / (np.log(deltas[1]) - np.log(deltas[0]))
        logdet_obs = 2 * consts[0] - r_obs * (np.log(deltas[0]) - np.log(2 * np.pi))
        ctx.note("rank_obs_ref_logdet_obs_ref", [float(r_obs), r_ref, float(logdet_obs), logdet_ref])
        if abs(r_obs - r_ref) > 1e-6 or abs(logdet_obs - logdet_ref) > 1e-6 * max(1.0, abs(logdet_ref)) + 1e-6:
            ctx.violation("gmrf_rank_logdet", _cfg(case),
                          detail=f"N={N}: rank/log-det implied by logpdf = {r_obs:.6g}/{logdet_obs:.6g}, of the precision = {r_ref}/{logdet_ref:.6g}")
        ctx.nontrivial()
        return

    # LMRF / CMRF : documented densities of the first differences of (x - location)
    R = S.diff_op(N, bc, 1, pd)
    scale = 0.3 if variant == 0 else float(rs.uniform(0.05, 5))
    if variant == 3:
        scale = EXTREME_SCALES[case["scale_idx"]]
    if kind == "lmrf":
        d = cuqi.distribution.LMRF(shift, scale, bc_type=bc, geometry=geom, name="x")
        ref = lambda x: float(np.sum(-np.log(2 * scale) - np.abs(R @ (x - shift)) / scale))
    else:
        d = cuqi.distribution.CMRF(shift, scale, bc_type=bc, geometry=geom, name="x")
        ref = lambda x: float(np.sum(np.log(scale / np.pi) - np.log((R @ (x - shift)) ** 2 + scale ** 2)))
    amps = [rs.choice([0.1, 1.0, 10.0]) for _ in range(4)] if variant != 3 else [1e-3, 1.0, 100.0]
    for amp in amps:
        if variant == 3:   # smooth and rough fields
            x = shift + amp * (rs.standard_normal(n) if rs.uniform() < 0.5 else np.sin(np.arange(n) * 2 * np.pi / n))
            ctx.count("mrf_extreme_magnitude_checked")
            ctx.count("mrf_extreme_magnitude_beyond_exp_range", int(abs(ref(x)) > 745))
        else:
            x = shift + rs.standard_normal(n) * amp
        ctx.count("mrf_density_checked")
        got = float(d.logpdf(x))
        if not ctx.close(got, ref(x), rtol=1e-10, atol=1e-9):
            ctx.violation("mrf_density", _cfg(case), detail=f"N={N} scale={scale}: logpdf={got} reference={ref(x)}")
        got2 = float(d.logd(x))
        if not ctx.close(got2, got, rtol=1e-12, atol=1e-12):
            ctx.violation("mrf_logd_vs_logpdf", _cfg(case), detail=f"N={N}: logd={got2} logpdf={got}")
    if variant == 2:
        # a matrix of column vectors (the layout of Samples.samples): either refused or one log-density per column
        k = int(rs.choice([2, 3, 5]))
        X = shift + rs.standard_normal((n, k))
        kind_, val = core.outcome(d.logpdf, X)
        ctx.count("mrf_batch_evaluated")
        if kind_ == "refused":
            ctx.refused("mrf batch", val)
        elif kind_ == "crashed":
            ctx.violation("crash", {**_cfg(case), "exc": type(val).__name__, "via": "batch"}, detail=repr(val))
        else:
            want = np.array([ref(X[:, j]) for j in range(k)])
            got = np.asarray(val, dtype=float).ravel()
            if got.shape != want.shape or not ctx.close(got, want, rtol=1e-10, atol=1e-9):
                ctx.violation("mrf_batch_not_columnwise", _cfg(case), detail=f"N={N}: logpdf of a {X.shape} matrix of columns returned {np.asarray(val).shape} {got[:4]}, per column {want[:4]}")
    ctx.nontrivial()

def selftest(ctx):
    # the reference stencils must annihilate their own implied null spaces and the 2D stacking must agree with numpy's kron
    for N in (3, 5, 8):
        for order in (1, 2):
            for bc in (S.BCS1 if order == 1 else S.BCS2):
                D = S.diff_1d(N, bc, order)
                K = np.vstack([np.kron(np.eye(N), D), np.kron(D, np.eye(N))])
                if not np.allclose(S.stack_2d(D, N), K):
                    ctx.inconclusive(f"reference stacking disagrees with numpy.kron for {N},{bc},{order}")
                for pd in (1, 2):
                    R = S.diff_op(N, bc, order, pd)
                    B = S.null_space_basis(N, bc, order, pd)
                    if B.shape[1] and not np.allclose(R @ B, 0, atol=1e-12):
                        ctx.inconclusive(f"reference null space wrong for {N},{bc},{order},{pd}")
                    if np.linalg.matrix_rank(R) != N ** pd - B.shape[1]:
                        ctx.inconclusive(f"reference rank wrong for {N},{bc},{order},{pd}")
