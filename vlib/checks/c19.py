"""C19 - sample statistics and burn-in/thinning are exact functions of the stored chain.

Workload (all driven through the real cuqi.samples.Samples / JointSamples of the tree under test):
  exh    small chains (Ns 1..), every (b, t) with b in 0..Ns+1, t in 1..Ns+3 plus hostile values,
         for every geometry/representation combination;
  hist   random arrays (dim 1..30, Ns 1..200), random histories of burnthin / funvals / vector /
         parameters calls, statistics after every step;
  stats  dtypes, strided inputs, ties, credibility levels incl. 0, 100 and out-of-range values;
  joint  JointSamples with members of different geometry / representation / length, chained burnthin;
  diag   compute_ess / compute_rhat / to_arviz_inferencedata with a recorder on arviz.ess / arviz.rhat.
Monitors: contracts (vlib.contracts.ensure) on Samples.burnthin and on every statistic method, a
pass-through recorder on the arviz functions the library looks up at call time, direct comparison of every
returned object with the reference state machine (vlib/refs/c19_model.py, no cuqi import).
"""
import numpy as np
from vlib import core
from vlib.contracts import ensure, ContractLog
from vlib.refs import c19_model as R

PROPERTY = "C19"
RULE = ("kinds exh/hist/stats/joint/diag; geometry kind x start representation enumerated cyclically, sizes/values/"
        "histories sampled from the seeded generator; a case is non-trivial when at least one burnthin contract "
        "compared a non-empty proper sub-chain (b>0 or t>1) or a statistic / arviz hand-over was compared on a chain "
        "with Ns>=2; distinct = distinct descriptors, sub-keys = (kind, geometry kind, representation)")
ASSUMPTIONS = ["arviz.ess / arviz.rhat applied to one variable's chain are the reference for the per-variable values",
               "for StepExpansion / KLExpansion / non-array function geometries the 'converted samples' are obtained with "
               "the geometry's own per-sample maps (the maps themselves are judged by C13)",
               "negative burn-in/thinning and credibility levels outside [0,100] are not judged (documentation silent) "
               "beyond 'no crash other than a documented exception'"]
REQUIRED_COUNTERS = {
    "quick": {"burnthin_contract_evaluated": 1700, "burnthin_columns_compared": 3000, "burnthin_refusal_observed": 500,
              "stat_values_compared": 80000, "ci_order_checked": 1200, "conversion_values_compared": 80000,
              "converted_stats_compared": 20000, "joint_members_checked": 100, "arviz_dict_entries_checked": 800,
              "ess_values_compared": 250, "rhat_values_compared": 300, "history_steps_checked": 1500,
              "source_untouched_checked": 3500},
    "thorough": {"burnthin_contract_evaluated": 18000, "burnthin_columns_compared": 40000, "burnthin_refusal_observed": 4000,
                 "stat_values_compared": 800000, "ci_order_checked": 12000, "conversion_values_compared": 1000000,
                 "converted_stats_compared": 200000, "joint_members_checked": 800, "arviz_dict_entries_checked": 6000,
                 "ess_values_compared": 2000, "rhat_values_compared": 2500, "history_steps_checked": 20000,
                 "source_untouched_checked": 35000},
}
BUDGET_S = {"quick": 200.0, "thorough": 1500.0}

# ----------------------------------------------------------------------------- case generation

GEOM_KINDS = ["none", "discrete", "discrete_names", "cont1d", "image_C", "image_F", "image_vis", "cont2d",
              "mapped_image", "mapped_cont1d", "mapped_noimap", "step", "kl", "objfun"]

def _gen_geom(r, kind, small=False):
    hi = 6 if small else 30
    n = r.choice([1, 2, 3]) if r.random() < 0.2 else r.randint(1, hi)
    if kind in ("none", "discrete", "cont1d"):
        return {"g": kind, "n": n}
    if kind == "discrete_names":
        return {"g": kind, "n": n, "pattern": r.choice(["rev", "mixed", "unicode"])}
    if kind in ("image_C", "image_F", "image_vis", "cont2d", "mapped_image", "mapped_noimap"):
        m = 3 if small else 6
        rows, cols = r.randint(1, m), r.randint(1, m)
        if r.random() < 0.5 and rows == cols:
            cols = cols % m + 1            # prefer non-square shapes (axis mix-ups show)
        d = {"g": kind, "rows": rows, "cols": cols}
        if kind == "mapped_image":
            d["map"] = r.choice(R.ALL_MAPS if r.random() < 0.5 else R.COUPLING_MAPS); d["order"] = r.choice(["C", "F"])
        if kind == "mapped_noimap":
            d["map"] = "affine"
        return d
    if kind == "mapped_cont1d":
        if r.random() < 0.6:
            n = max(n, 2)
        return {"g": kind, "n": n, "map": r.choice(R.ALL_MAPS if r.random() < 0.5 else R.COUPLING_MAPS)}
    if kind == "step":
        steps = r.randint(1, 4 if small else 6)
        return {"g": kind, "steps": steps, "grid": steps * r.randint(1, 4) + r.randint(0, 2)}
    if kind == "kl":
        grid = r.randint(2, 6 if small else 20)
        return {"g": kind, "grid": grid, "modes": r.randint(1, grid)}
    if kind == "objfun":
        n = max(2, min(n, 8))
        return {"g": kind, "n": n, "k": r.randint(1, n - 1)}
    raise ValueError(kind)

def _par_dim(spec):
    return spec["n"] if "n" in spec else spec["rows"] * spec["cols"]

def _reps_for(kind):
    if kind == "objfun":
        return ["par"]
    if kind == "cont2d":
        return ["par", "fun"]
    return ["par", "funvec", "fun"]

def _gen_Ns(r, hi=200):
    u = r.random()
    if u < 0.25:
        return r.choice([1, 2, 3, 4])
    if u < 0.6:
        return r.randint(5, 30)
    return r.randint(31, hi)

def _gen_bt(r, Ns):
    """Burn-in / thinning pair biased to the boundaries."""
    b = r.choice([0, 0, 1, Ns - 1, Ns, Ns + 1, max(0, Ns - 2), r.randint(0, Ns + 1), r.randint(0, max(0, Ns // 2))])
    t = r.choice([1, 1, 2, 3, Ns, Ns + 3, max(1, Ns - 1), r.randint(1, Ns + 3), r.randint(1, max(1, Ns // 3))])
    return [max(0, b), max(1, t)]

def _gen_percent(r):
    return r.choice([0, 100, 95, 99, 50, 90, 10, 1, 68.27, round(r.uniform(0, 100), 3), round(r.uniform(0, 100), 3)])

def cases(tier, seed):
    q = tier == "quick"
    out = []
    # ---- exh
    r = core.rng_for(seed, PROPERTY, "exh")
    combos = [(k, rep) for k in GEOM_KINDS for rep in _reps_for(k)]
    maxNs = 7 if q else 12
    per_Ns = 8 if q else 24
    j = r.randint(0, len(combos) - 1)
    for Ns in range(1, maxNs + 1):
        for _ in range(per_Ns):
            k, rep = combos[j % len(combos)]; j += 1
            out.append({"kind": "exh", "geom": _gen_geom(r, k, small=True), "rep": rep, "Ns": Ns, "id": len(out)})
    # ---- hist
    r = core.rng_for(seed, PROPERTY, "hist")
    n_hist = 170 if q else 1700
    j = r.randint(0, len(combos) - 1)
    for i in range(n_hist):
        k, rep = combos[j % len(combos)]; j += 1
        Ns = _gen_Ns(r)
        gspec = _gen_geom(r, k)
        if k.startswith("mapped") and r.random() < 0.3:
            Ns = _par_dim(gspec)              # square (dim, Ns) block
        ops, cur = [], Ns
        for _ in range(r.randint(3, 8)):
            if r.random() < 0.5:
                b, t = _gen_bt(r, cur)
                if r.random() < 0.75:       # mostly keep the history alive
                    b = min(b, max(0, cur - 1))
                ops.append(["burnthin", b, t])
                if b < cur:
                    cur = len(R.kept_indices(cur, b, t))
            else:
                ops.append([r.choice(["funvals", "vector", "parameters"])])
        out.append({"kind": "hist", "geom": gspec, "rep": rep, "Ns": Ns, "ops": ops,
                    "percents": [_gen_percent(r) for _ in range(2)], "id": i})
    # ---- hist, dedicated: user maps that couple the entries of one sample (or return views), Ns in {1, 2, dim, many}
    r = core.rng_for(seed, PROPERTY, "couple")
    bases = [("mapped_cont1d", None), ("mapped_image", "C"), ("mapped_image", "F")]
    for mi, mp in enumerate(R.COUPLING_MAPS + ["flipview", "selfview"]):
        for bi, (k, order) in enumerate(bases):
            if not q or (mi + bi) % 2 == 0 or mp in ("softmax", "sortlast"):
                reps_n = 1 if q else 3
                for _ in range(reps_n):
                    if k == "mapped_cont1d":
                        gspec = {"g": k, "n": r.randint(2, 12), "map": mp}
                    else:
                        rows, cols = r.randint(1, 4), r.randint(2, 5)
                        gspec = {"g": k, "rows": rows, "cols": cols, "map": mp, "order": order}
                    dim = _par_dim(gspec)
                    for Ns in (1, 2, dim, r.randint(dim + 1, 90)):
                        b, t = _gen_bt(r, Ns)
                        b = min(b, Ns - 1)
                        ops = r.choice([[["funvals"], ["vector"], ["parameters"], ["funvals"]],
                                        [["burnthin", b, t], ["funvals"], ["vector"], ["burnthin", 0, 2]],
                                        [["funvals"], ["burnthin", b, t], ["parameters"]]])
                        out.append({"kind": "hist", "tag": "couple", "geom": gspec, "rep": "par", "Ns": Ns, "ops": ops,
                                    "percents": [95, _gen_percent(r)], "id": len(out)})
    # ---- stats
    r = core.rng_for(seed, PROPERTY, "stats")
    n_stats = 70 if q else 600
    for i in range(n_stats):
        k, rep = combos[(i * 5 + 3) % len(combos)]
        gspec = _gen_geom(r, k)
        out.append({"kind": "stats", "geom": gspec, "rep": rep,
                    "Ns": _par_dim(gspec) if (k.startswith("mapped") and r.random() < 0.3) else _gen_Ns(r),
                    "dtype": r.choice(["float64", "float64", "int64", "float32", "ties", "const", "strided", "fortran", "big", "readonly", "readonly"]),
                    "percents": [0, 100, _gen_percent(r), _gen_percent(r), r.choice([100.5, 101, 250, -5])], "id": i})
    # ---- joint
    r = core.rng_for(seed, PROPERTY, "joint")
    n_joint = 50 if q else 400
    for i in range(n_joint):
        members = []
        same_Ns = _gen_Ns(r, 80)
        for m in range(r.randint(1, 4)):
            k, rep = combos[r.randint(0, len(combos) - 1)]
            if k == "objfun":
                k, rep = "image_F", "fun"
            Ns = same_Ns if r.random() < 0.7 else _gen_Ns(r, 80)
            members.append({"key": r.choice(["x", "s", "d", "beta", "z_long_name", "a"]) + str(m),
                            "geom": _gen_geom(r, k, small=True), "rep": rep, "Ns": Ns})
        minNs = min(m["Ns"] for m in members)
        calls, cur = [], minNs
        for _ in range(r.randint(1, 4)):
            b, t = _gen_bt(r, cur)
            if r.random() < 0.7:
                b = min(b, max(0, cur - 1))
            calls.append([b, t])
            if b < cur:
                cur = len(R.kept_indices(cur, b, t))
        out.append({"kind": "joint", "members": members, "calls": calls, "id": i})
    # ---- diag
    r = core.rng_for(seed, PROPERTY, "diag")
    n_diag = 90 if q else 700
    name_patterns = ["default", "default", "rev", "mixed", "unicode", "image", "cont1d", "duplicate"]
    reps = ["par", "par", "par", "funvec_same", "vector_of_image", "funvec_dim_differs", "fun3d"]
    for i in range(n_diag):
        names = name_patterns[i % len(name_patterns)]
        rep = reps[(i // len(name_patterns) + i) % len(reps)]
        n = r.choice([1, 2, 3, 11, 12, 13]) if r.random() < 0.5 else r.randint(2, 24)
        if names == "duplicate":
            n = max(n, 3); rep = "par"
        if rep in ("vector_of_image", "fun3d"):
            names = "image"
        if rep == "funvec_dim_differs":
            names = "step"
        Ns = r.choice([3, 4, 5, 8]) if r.random() < 0.15 else r.randint(9, 120)
        d = {"kind": "diag", "names": names, "rep": rep, "n": n, "Ns": Ns, "id": i,
             "pre": _gen_bt(r, Ns) if r.random() < 0.4 else None,
             "ess_kw": r.choice([{}, {}, {"method": "mean"}, {"method": "tail"}, {"method": "sd"}, {"relative": True}]),
             "rhat_kw": r.choice([{}, {}, {"method": "split"}, {"method": "identity"}, {"method": "folded"}]),
             "n_chains": r.randint(1, 3), "single_obj": r.random() < 0.2, "eq_geom_copy": r.random() < 0.3,
             "rhat_first": r.random() < 0.5}
        if d["pre"] is not None:
            d["pre"][0] = min(d["pre"][0], Ns - 1)
        out.append(d)
    return out

def crash_config(case):
    c = {"kind": case.get("kind")}
    if "geom" in case:
        c["geom"] = case["geom"]["g"]
    for k in ("rep", "names", "dtype"):
        if k in case:
            c[k] = case[k]
    return c

# ----------------------------------------------------------------------------- building geometries / samples

def _names(pattern, n):
    if pattern == "rev":
        return ["z%02d" % (n - i) for i in range(n)]               # strictly decreasing lexicographically
    if pattern == "mixed":
        base = ["b", "a", "c10", "c2", "Z", "y", "m1", "m0", "k", "B"]
        return [base[i % len(base)] + ("_%d" % (i // len(base)) if i >= len(base) else "") for i in range(n)]
    if pattern == "unicode":
        base = ["β", "α", "δ", "x y", "w-1", "q.2"]
        return [base[i % len(base)] + ("%d" % (i // len(base)) if i >= len(base) else "") for i in range(n)]
    if pattern == "duplicate":
        base = ["a", "b", "a", "c", "b"]
        return [base[i % len(base)] + ("" if i < len(base) else str(i // len(base))) for i in range(n)]
    raise ValueError(pattern)

def make_geom(spec):
    """-> (library geometry or None, RefGeom)."""
    import cuqi
    G = cuqi.geometry
    g = spec["g"]
    if g == "none":
        return None, R.identity_geom(spec["n"])
    if g == "discrete":
        return G.Discrete(spec["n"]), R.identity_geom(spec["n"])
    if g == "discrete_names":
        return G.Discrete(_names(spec["pattern"], spec["n"])), R.identity_geom(spec["n"])
    if g == "cont1d":
        return G.Continuous1D(spec["n"]), R.identity_geom(spec["n"])
    if g in ("image_C", "image_F"):
        o = g[-1]
        return G.Image2D((spec["rows"], spec["cols"]), order=o), R.image_geom(spec["rows"], spec["cols"], o)
    if g == "image_vis":
        return G.Image2D((spec["rows"], spec["cols"]), visual_only=True), R.identity_geom(spec["rows"] * spec["cols"])
    if g == "cont2d":
        return G.Continuous2D((spec["rows"], spec["cols"])), R.cont2d_geom(spec["rows"], spec["cols"])
    if g == "mapped_image":
        fmap, imap = R.MAPS[spec["map"]]
        return (G.MappedGeometry(G.Image2D((spec["rows"], spec["cols"]), order=spec["order"]), map=fmap, imap=imap),
                R.mapped_geom(R.image_geom(spec["rows"], spec["cols"], spec["order"]), spec["map"]))
    if g == "mapped_noimap":
        fmap, _ = R.MAPS[spec["map"]]
        return (G.MappedGeometry(G.Image2D((spec["rows"], spec["cols"])), map=fmap),
                R.mapped_geom(R.image_geom(spec["rows"], spec["cols"], "C"), spec["map"], with_imap=False))
    if g == "mapped_cont1d":
        fmap, imap = R.MAPS[spec["map"]]
        return (G.MappedGeometry(G.Continuous1D(spec["n"]), map=fmap, imap=imap),
                R.mapped_geom(R.identity_geom(spec["n"]), spec["map"]))
    if g in ("step", "kl"):
        if g == "step":
            lib = G.StepExpansion(np.linspace(0.0, 1.0, max(spec["grid"], spec["steps"] + 1)), n_steps=spec["steps"])
        else:
            lib = G.KLExpansion(np.linspace(0.0, 1.0, spec["grid"]), num_modes=spec["modes"])
        # a second, private instance provides the per-sample maps (so the oracle never shares state with the object under test)
        import copy
        own = copy.deepcopy(lib)
        nfun = int(own.fun_dim)
        ref = R.RefGeom(own.par_dim, (nfun,), lambda p: np.asarray(own.par2fun(np.asarray(p, dtype=float))).reshape(nfun),
                        fun2par=lambda f: np.asarray(own.fun2par(np.asarray(f, dtype=float))).reshape(own.par_dim),
                        independent=False)
        return lib, ref
    if g == "objfun":
        n, k = spec["n"], spec["k"]
        class ObjFun(G.Geometry):
            """function values are dicts (not arrays); a vector representation exists"""
            @property
            def par_shape(self):
                return (n,)
            def par2fun(self, p):
                p = np.asarray(p, dtype=float)
                return {"a": p[:k].copy(), "b": 2.0 * p[k:]}
            def fun2par(self, f):
                return np.concatenate([f["a"], f["b"] / 2.0])
            def fun2vec(self, f):
                return np.concatenate([f["b"], f["a"]])
            def vec2fun(self, v):
                return {"a": v[n - k:].copy(), "b": v[:n - k].copy()}
            def _plot(self, *a, **kw):
                pass
        def r_p2f(p):
            p = np.asarray(p, dtype=float)
            return {"a": np.array([p[i] for i in range(k)]), "b": np.array([2.0 * p[i] for i in range(k, n)])}
        ref = R.RefGeom(n, None, r_p2f,
                        fun2par=lambda f: np.array(list(f["a"]) + [v / 2.0 for v in f["b"]]),
                        fun2vec=lambda f: np.array(list(f["b"]) + list(f["a"])),
                        vec2fun=lambda v: {"a": np.array(list(v[n - k:])), "b": np.array(list(v[:n - k]))},
                        funvec_dim=n)
        return ObjFun(), ref
    raise ValueError(g)

def _raw_values(rs, shape, flavour="float64"):
    if flavour == "ties":
        return rs.randint(1, 6, size=shape).astype(float)
    if flavour == "int64":
        return rs.randint(1, 60, size=shape)
    if flavour == "const":
        return np.full(shape, 1.25)
    if flavour == "big":
        return 1e6 + rs.standard_normal(shape)
    x = np.abs(rs.standard_normal(shape)) + 0.05 + rs.uniform(0, 2, size=shape[:-1] + (1,))
    if flavour == "float32":
        return x.astype(np.float32)
    if flavour == "strided":
        big = np.abs(rs.standard_normal(shape[:-1] + (2 * shape[-1],))) + 0.05
        return big[..., ::2]
    if flavour == "fortran":
        return np.asfortranarray(x)
    return x

def make_samples(spec, rep, Ns, rs, flavour="float64"):
    """-> (Samples, RefSamples, library geometry, RefGeom). Values are positive (maps sq1/exp/log stay invertible)."""
    from cuqi.samples import Samples
    lib, ref = make_geom(spec)
    fl = "float64" if flavour == "readonly" else flavour
    if rep == "par":
        arr, flags = _raw_values(rs, (ref.par_dim, Ns), fl), (True, True)
    elif rep == "funvec":
        arr, flags = _raw_values(rs, (ref.funvec_dim, Ns), fl) + 1.0, (False, True)
    elif rep == "fun":
        arr, flags = _raw_values(rs, ref.fun_shape + (Ns,), fl) + 1.0, (False, False)
    else:
        raise ValueError(rep)
    if flavour == "readonly":           # a write through the caller's array raises instead of passing silently
        arr.setflags(write=False)
    return Samples(arr, geometry=lib, is_par=flags[0], is_vec=flags[1]), R.RefSamples(arr.copy(), *flags), lib, ref

# ----------------------------------------------------------------------------- monitors

_CASE_TOL = [1e-10]      # relative tolerance of the running case (float32 inputs: 2e-4; defects of interest are O(1))

def _tol(arr=None):
    if arr is not None and isinstance(arr, np.ndarray) and arr.dtype == np.float32:
        return 2e-4
    return _CASE_TOL[0]

def _same(a, b):
    """Exact equality of stored values (NaN positions count as equal: a NaN sample stays a NaN sample)."""
    a, b = np.asarray(a), np.asarray(b)
    if a.shape != b.shape:
        return False
    if a.dtype.kind in "fc" and b.dtype.kind in "fc":
        return bool(np.array_equal(a, b, equal_nan=True))
    return bool(np.array_equal(a, b))

def _scale(arr):
    a = np.asarray(arr, dtype=float)
    a = a[np.isfinite(a)]
    return max(1.0, float(np.max(np.abs(a))) if a.size else 1.0)

class Monitors:
    """Contracts on the real Samples class; everything they compare is counted on ctx."""
    def __init__(self, ctx, cfg):
        self.ctx, self.cfg = ctx, dict(cfg)
        self.log = ContractLog()
        self._stack = []
        self.proper_subchain = 0
        self.stat_on_chain = 0

    def cfg_with(self, **kw):
        c = dict(self.cfg); c.update(kw); return c

    # ---- burnthin contract
    def _bt_snapshot(self, s, args, kwargs):
        raw = s.samples
        return {"raw_obj": raw, "raw_copy": raw.copy() if isinstance(raw, np.ndarray) else None,
                "is_par": s.is_par, "is_vec": s.is_vec, "geom": s.geometry, "id": id(s)}

    def _bt_post(self, s, args, kwargs, res, snap):
        ctx = self.ctx
        Nb = args[0] if len(args) > 0 else kwargs.get("Nb")
        Nt = args[1] if len(args) > 1 else kwargs.get("Nt", 1)
        ctx.count("burnthin_contract_evaluated")
        raw = snap["raw_copy"]
        if raw is None or not all(isinstance(v, (int, np.integer)) and not isinstance(v, bool) for v in (Nb, Nt)) or Nb < 0 or Nt < 1:
            ctx.count("burnthin_unjudged_input")
            return None
        Ns = raw.shape[-1]
        rep = {"rep_flags": "par" if snap["is_par"] else ("funvec" if snap["is_vec"] else "fun")}
        if Nb >= Ns:
            ctx.violation("burnin_not_refused", self.cfg_with(**rep),
                          detail=f"burnthin({Nb},{Nt}) on Ns={Ns} returned a value with {getattr(res, 'Ns', '?')} samples instead of raising")
            return None
        idx = R.kept_indices(Ns, Nb, Nt)
        want = R.take_last_axis(raw, idx)
        got = getattr(res, "samples", None)
        ctx.count("burnthin_columns_compared", len(idx))
        if not isinstance(got, np.ndarray) or got.shape != want.shape or not _same(got, want):
            first = None
            if isinstance(got, np.ndarray) and got.ndim == want.ndim and got.shape[:-1] == want.shape[:-1]:
                cols = [i for i in range(min(got.shape[-1], want.shape[-1])) if not _same(got[..., i], want[..., i])]
                first = cols[0] if cols else min(got.shape[-1], want.shape[-1])
            ctx.violation("burnthin_not_slice", self.cfg_with(**rep),
                          detail=f"burnthin({Nb},{Nt}) on raw shape {raw.shape}: returned shape {getattr(got, 'shape', None)}, expected stored "
                                 f"samples {idx[:6]}{'...' if len(idx) > 6 else ''} (shape {want.shape}); first differing kept sample #{first}")
        elif got.dtype != raw.dtype:
            ctx.violation("burnthin_not_slice", self.cfg_with(**rep), detail=f"dtype changed {raw.dtype}->{got.dtype}")
        if Nb > 0 or Nt > 1:
            if len(idx) >= 1 and Ns >= 2:
                self.proper_subchain += 1
        # flags / geometry / type
        ctx.count("burnthin_flags_checked")
        problems = []
        if res is s:
            problems.append("returned the source object itself")
        if type(res) is not type(s):
            problems.append(f"type {type(res).__name__} != {type(s).__name__}")
        for fl in ("is_par", "is_vec"):
            if getattr(res, fl, None) is not snap[fl]:
                problems.append(f"{fl} {snap[fl]} -> {getattr(res, fl, None)}")
        try:
            g_res = res.geometry
            same_geom = (g_res is snap["geom"]) or (type(g_res) is type(snap["geom"]) and g_res == snap["geom"])
        except Exception as e:  # noqa
            same_geom = False; problems.append(f"geometry access raised {e!r}")
        if not same_geom:
            problems.append(f"geometry {snap['geom']!r} -> {getattr(res, '_geometry', None)!r}")
        if problems:
            ctx.violation("burnthin_flags_not_preserved", self.cfg_with(**rep), detail=f"burnthin({Nb},{Nt}): " + "; ".join(problems))
        # source untouched
        ctx.count("source_untouched_checked")
        src_problems = []
        if s.samples is not snap["raw_obj"]:
            src_problems.append("source.samples rebound")
        if not (isinstance(s.samples, np.ndarray) and s.samples.shape == raw.shape and _same(s.samples, raw)):
            src_problems.append(f"source values/shape changed ({raw.shape} -> {getattr(s.samples, 'shape', None)})")
        if s.is_par is not snap["is_par"] or s.is_vec is not snap["is_vec"]:
            src_problems.append("source flags changed")
        if s.geometry is not snap["geom"]:
            src_problems.append("source geometry rebound")
        if src_problems:
            ctx.violation("burnthin_source_modified", self.cfg_with(**rep), detail=f"burnthin({Nb},{Nt}): " + "; ".join(src_problems))
        return None

    # ---- statistics contracts
    def _stat_post(self, name):
        fn = R.STAT_FUNCS[name]
        def post(s, args, kwargs, res, snap):
            raw = s.samples
            if not isinstance(raw, np.ndarray) or raw.dtype == object or raw.shape[-1] == 0:
                self.ctx.count("stat_unjudged_input"); return None
            want = R.per_coordinate(raw, fn)
            sc = _scale(raw) ** (2 if name == "variance" else 1)
            self.ctx.count("stat_values_compared", int(want.size))
            self.ctx.count(f"stat_{name}_calls")
            if raw.shape[-1] >= 2:
                self.stat_on_chain += 1
            got = np.asarray(res)
            if got.shape != want.shape or not self.ctx.close(got, want, rtol=_tol(raw), atol=_tol(raw) * sc, scale=sc):
                self.ctx.violation("statistic_mismatch", self.cfg_with(stat=name, ndim=int(raw.ndim)),
                                   detail=f"{name}() on raw shape {raw.shape}: got shape {got.shape} {core.short(got.ravel()[:4].tolist(), 120)}, "
                                          f"per-coordinate reference shape {want.shape} {core.short(want.ravel()[:4].tolist(), 120)}")
            return None
        return post

    def _ci_post(self, s, args, kwargs, res, snap):
        raw = s.samples
        percent = args[0] if args else kwargs.get("percent", 95)
        if not isinstance(raw, np.ndarray) or raw.dtype == object or raw.shape[-1] == 0 or not (0 <= percent <= 100):
            self.ctx.count("stat_unjudged_input"); return None
        lo, hi = R.ci_bounds(raw, float(percent))
        sc = _scale(raw)
        self.ctx.count("stat_values_compared", int(2 * lo.size))
        self.ctx.count("stat_compute_ci_calls")
        try:
            got_lo, got_hi = np.asarray(res[0]), np.asarray(res[1])
            n_parts = len(res)
        except Exception:  # noqa
            got_lo = got_hi = np.asarray(np.nan); n_parts = -1
        ok = n_parts == 2 and got_lo.shape == lo.shape and got_hi.shape == hi.shape and \
            self.ctx.close(got_lo, lo, rtol=_tol(raw), atol=_tol(raw) * sc, scale=sc) and \
            self.ctx.close(got_hi, hi, rtol=_tol(raw), atol=_tol(raw) * sc, scale=sc)
        if not ok:
            self.ctx.violation("statistic_mismatch", self.cfg_with(stat="compute_ci", ndim=int(raw.ndim)),
                               detail=f"compute_ci({percent}) on raw shape {raw.shape}: got lo {core.short(got_lo.ravel()[:3].tolist(), 90)} hi "
                                      f"{core.short(got_hi.ravel()[:3].tolist(), 90)}; reference lo {core.short(lo.ravel()[:3].tolist(), 90)} hi {core.short(hi.ravel()[:3].tolist(), 90)}")
        return None

    def _width_post(self, s, args, kwargs, res, snap):
        raw = s.samples
        percent = args[0] if args else kwargs.get("percent", 95)
        if not isinstance(raw, np.ndarray) or raw.dtype == object or raw.shape[-1] == 0 or not (0 <= percent <= 100):
            self.ctx.count("stat_unjudged_input"); return None
        lo, hi = R.ci_bounds(raw, float(percent))
        sc = _scale(raw)
        self.ctx.count("stat_values_compared", int(lo.size))
        self.ctx.count("stat_ci_width_calls")
        got = np.asarray(res)
        if got.shape != lo.shape or not self.ctx.close(got, hi - lo, rtol=_tol(raw), atol=2 * _tol(raw) * sc, scale=sc):
            self.ctx.violation("statistic_mismatch", self.cfg_with(stat="ci_width", ndim=int(raw.ndim)),
                               detail=f"ci_width({percent}) on raw shape {raw.shape}: got {core.short(got.ravel()[:4].tolist(), 120)}, reference hi-lo {core.short((hi - lo).ravel()[:4].tolist(), 120)}")
        return None

    def __enter__(self):
        from cuqi.samples import Samples
        cms = [ensure(Samples, "burnthin", self._bt_post, self.log, snapshot=self._bt_snapshot, reentrant=True)]
        for name, meth in (("mean", "mean"), ("median", "median"), ("variance", "variance"), ("std", "std")):
            cms.append(ensure(Samples, meth, self._stat_post(name), self.log))
        cms.append(ensure(Samples, "compute_ci", self._ci_post, self.log))
        cms.append(ensure(Samples, "ci_width", self._width_post, self.log))
        for cm in cms:
            cm.__enter__(); self._stack.append(cm)
        return self

    def __exit__(self, *a):
        while self._stack:
            self._stack.pop().__exit__(None, None, None)
        return False


def check_all_stats(s, ctx, mon, percents, cfg, expect_ref=None):
    """Call every statistic (the contracts compare each with the raw array) and judge the relations between them.
    `expect_ref` (RefSamples): the converted samples the statistics must be those of."""
    res = {}
    for name in ("mean", "median", "variance", "std"):
        k, v = core.outcome(getattr(s, name))
        if k == "value":
            res[name] = np.asarray(v)
        elif k == "refused":
            ctx.refused(f"stat_{name}", v)
        else:
            ctx.violation("crash", {**cfg, "exc": type(v).__name__, "where": name}, detail=repr(v))
    arr_ok = isinstance(s.samples, np.ndarray) and s.samples.dtype != object
    if arr_ok and len(res) < 4:
        ctx.violation("statistic_refused", cfg, detail=f"statistics refused on a numeric array of shape {s.samples.shape}: only {sorted(res)} returned")
    if expect_ref is not None and arr_ok and isinstance(expect_ref.arr, np.ndarray):
        # statistics of function-value samples are those of the converted samples (reference conversion)
        sc = _scale(expect_ref.arr)
        for name, fn in R.STAT_FUNCS.items():
            if name in res:
                want = R.per_coordinate(expect_ref.arr, fn)
                ctx.count("converted_stats_compared", int(want.size))
                s2 = sc ** (2 if name == "variance" else 1)
                if res[name].shape != want.shape or not ctx.close(res[name], want, rtol=10 * _tol(), atol=10 * _tol() * s2, scale=s2):
                    ctx.violation("converted_statistic_mismatch", {**cfg, "stat": name},
                                  detail=f"{name}() of shape {res[name].shape} is not the statistic of the converted samples (reference shape {want.shape})")
    if "variance" in res and "std" in res:
        ctx.count("std_var_relation_checked")
        sc = _scale(res["variance"])
        if not ctx.close(res["std"] ** 2, res["variance"], rtol=10 * _tol(s.samples), atol=1e-12 * sc, scale=sc):
            ctx.violation("statistic_mismatch", {**cfg, "stat": "std_vs_variance"}, detail="std()**2 != variance()")
    for p in percents:
        k, v = core.outcome(s.compute_ci, p)
        k2, w = core.outcome(s.ci_width, p)
        if not (0 <= p <= 100):
            if k == "refused":
                ctx.refused("ci_out_of_range", v); ctx.count("ci_out_of_range_refused")
            elif k == "crashed":
                ctx.violation("crash", {**cfg, "exc": type(v).__name__, "where": "compute_ci"}, detail=repr(v))
            else:
                ctx.count("ci_out_of_range_unjudged")
            continue
        if k != "value" or k2 != "value":
            if arr_ok:
                ctx.violation("statistic_refused", {**cfg, "stat": "compute_ci"}, detail=f"compute_ci({p}) / ci_width({p}) -> {k} {v!r} / {k2}")
            else:
                ctx.refused("stat_ci", v if k != "value" else w)
            continue
        lo, hi = np.asarray(v[0]), np.asarray(v[1])
        sc = _scale(s.samples)
        tol = _tol(s.samples) * sc
        ctx.count("ci_order_checked")
        if np.any(lo > hi + tol):
            ctx.violation("ci_bounds_order", {**cfg, "which": "lo>hi"}, detail=f"percent={p}: lower bound exceeds upper bound (max lo-hi = {float(np.max(lo - hi))})")
        if "median" in res and res["median"].shape == lo.shape:
            if np.any(lo > res["median"] + tol) or np.any(res["median"] > hi + tol):
                ctx.violation("ci_bounds_order", {**cfg, "which": "median_outside"},
                              detail=f"percent={p}: median not inside [lo, hi]: lo-med max {float(np.max(lo - res['median']))}, med-hi max {float(np.max(res['median'] - hi))}")
        ctx.count("ci_width_relation_checked")
        if np.asarray(w).shape != lo.shape or not ctx.close(np.asarray(w), hi - lo, rtol=0, atol=1e-3 * tol, scale=1.0):
            ctx.violation("ci_width_not_difference", cfg, detail=f"percent={p}: ci_width != upper-lower of compute_ci")
    return res


def compare_state(lib_s, ref_s, ctx, cfg, what, independent=True):
    """Returned Samples object vs reference state (values, shape, flags)."""
    ok = True
    if isinstance(ref_s.arr, list):
        got = lib_s.samples
        ctx.count("conversion_values_compared", len(ref_s.arr))
        if not isinstance(got, list) or len(got) != len(ref_s.arr):
            ctx.violation("conversion_mismatch", {**cfg, "op": what}, detail=f"{what}: expected a list of {len(ref_s.arr)} function values, got {type(got).__name__}")
            return False
        for i, (a, b) in enumerate(zip(got, ref_s.arr)):
            if not (isinstance(a, dict) and set(a) == set(b) and all(np.allclose(a[k], b[k], rtol=1e-12, atol=0) for k in b)):
                ctx.violation("conversion_mismatch", {**cfg, "op": what}, detail=f"{what}: function value #{i} differs"); ok = False; break
    else:
        got = lib_s.samples
        ctx.count("conversion_values_compared", int(ref_s.arr.size))
        sc = _scale(ref_s.arr)
        if not isinstance(got, np.ndarray) or got.shape != ref_s.arr.shape or \
                not ctx.close(got, ref_s.arr, rtol=_tol(got), atol=_tol(got) * sc, scale=sc):
            bad = None
            if isinstance(got, np.ndarray) and got.shape == ref_s.arr.shape:
                bad = [i for i in range(got.shape[-1]) if not np.allclose(got[..., i], ref_s.arr[..., i], rtol=1e-8, atol=1e-8 * sc)][:5]
            ctx.violation("conversion_mismatch", {**cfg, "op": what},
                          detail=f"{what}: samples of shape {getattr(got, 'shape', type(got).__name__)} differ from the per-sample converted reference "
                                 f"of shape {ref_s.arr.shape}; differing sample indices {bad}")
            ok = False
    ctx.count("representation_flags_checked")
    if lib_s.is_par is not ref_s.is_par or lib_s.is_vec is not ref_s.is_vec:
        ctx.violation("representation_flags", {**cfg, "op": what},
                      detail=f"{what}: flags (is_par,is_vec)=({lib_s.is_par},{lib_s.is_vec}), documented ({ref_s.is_par},{ref_s.is_vec})")
        ok = False
    return ok


def apply_op(lib_s, op):
    if op[0] == "burnthin":
        return lib_s.burnthin(op[1], op[2])
    return getattr(lib_s, op[0])


def _snapshot_source(s):
    raw = s.samples
    if isinstance(raw, np.ndarray):
        return ("arr", raw, raw.copy(), s.is_par, s.is_vec)
    return ("list", raw, len(raw), s.is_par, s.is_vec)

def _source_untouched(s, snap, ctx, cfg, what):
    ctx.count("source_untouched_checked")
    kind, obj, val, ip, iv = snap
    bad = []
    if s.samples is not obj:
        bad.append("samples rebound")
    elif kind == "arr" and not (s.samples.shape == val.shape and _same(s.samples, val)):
        bad.append("values changed")
    elif kind == "list" and len(s.samples) != val:
        bad.append("list length changed")
    if s.is_par is not ip or s.is_vec is not iv:
        bad.append("flags changed")
    if bad:
        ctx.violation("source_modified", {**cfg, "op": what}, detail=f"{what}: " + "; ".join(bad))


def step(lib_s, ref_s, op, ref_geom, ctx, cfg):
    """One history step on the real object and on the reference state.
    Returns (new lib state, new ref state) or (None, None) when the history ends."""
    what = op[0]
    snap = _snapshot_source(lib_s)
    kind, val = core.outcome(apply_op, lib_s, op)
    _source_untouched(lib_s, snap, ctx, cfg, what)
    new_ref, same = None, False
    try:
        new_ref, same = R.ref_apply(ref_s, op, ref_geom)
        expect = "value"
    except R.MustRefuse:
        expect = "refuse"
    except R.Unavailable:
        expect = "unknown"
    if kind == "crashed":
        ctx.violation("crash", {**cfg, "exc": type(val).__name__, "where": what}, detail=repr(val))
        return None, None
    if expect == "refuse":
        ctx.count("burnthin_refusal_checked")
        if kind == "refused":
            ctx.refused("burnin>=Ns", val); ctx.count("burnthin_refusal_observed")
        elif isinstance(lib_s.samples, list):
            ctx.violation("burnin_not_refused", {**cfg, "rep_flags": "list"}, detail=f"{op} on Ns={ref_s.Ns} returned a value")
        # for arrays a returned value is reported by the burnthin contract (burnin_not_refused)
        return None, None
    if expect == "unknown":
        if kind == "refused":
            ctx.refused(f"{what}_unavailable", val)
        else:
            ctx.count("step_unjudged_no_reference")
        return None, None
    if kind == "refused":
        ctx.violation("valid_call_refused", {**cfg, "op": what},
                      detail=f"{op} on a state with Ns={ref_s.Ns} flags ({ref_s.is_par},{ref_s.is_vec}) raised {val!r}")
        return None, None
    ctx.count("history_steps_checked")
    if what != "burnthin":
        if same:
            ctx.count("self_return_checked")
            if val is not lib_s:
                ctx.count("self_return_new_object")   # values still judged below
        g_old, g_new = lib_s.geometry, val.geometry
        if not (g_new is g_old or (type(g_new) is type(g_old) and g_new == g_old)):
            ctx.violation("conversion_geometry_lost", {**cfg, "op": what}, detail=f"{what}: geometry {g_old!r} -> {g_new!r}")
    compare_state(val, new_ref, ctx, cfg, what)
    return val, new_ref

# ----------------------------------------------------------------------------- run_case

def run_case(case, ctx):
    kind = case["kind"]
    rs = core.np_rng(ctx.seed, PROPERTY, core.canon(case))
    if kind == "diag":
        return run_diag(case, ctx, rs)
    if kind == "joint":
        return run_joint(case, ctx, rs)
    cfg = {"kind": kind, "geom": case["geom"]["g"], "rep": case["rep"]}
    if case["geom"]["g"] == "cont2d" and case["geom"]["cols"] == 1 and case["geom"]["rows"] > 1:
        cfg["unit_axis"] = "trailing"      # DESIGN.md section 4 #26: Continuous2D.par2fun squeezes a length-1 axis
    if kind == "stats":
        cfg["dtype"] = case["dtype"]
    with Monitors(ctx, cfg) as mon:
        flavour = case.get("dtype", "float64")
        _CASE_TOL[0] = 2e-4 if flavour == "float32" else 1e-10
        s, ref, lib_geom, ref_geom = make_samples(case["geom"], case["rep"], case["Ns"], rs, flavour)
        Ns = case["Ns"]
        if kind == "exh":
            run_exh(case, ctx, mon, s, ref, ref_geom, cfg)
        elif kind == "hist":
            cur, cur_ref = s, ref
            check_all_stats(cur, ctx, mon, case["percents"][:1], cfg, expect_ref=ref)
            for op in case["ops"]:
                cur, cur_ref = step(cur, cur_ref, op, ref_geom, ctx, cfg)
                if cur is None:
                    break
                # statistics after every step: those of the (reference-)converted samples
                check_all_stats(cur, ctx, mon, case["percents"], {**cfg, "after": op[0]}, expect_ref=cur_ref)
            # the original object must still hold the original chain
            ctx.count("source_untouched_checked")
            if not (isinstance(s.samples, np.ndarray) and _same(s.samples, ref.arr)):
                ctx.violation("source_modified", {**cfg, "op": "history"}, detail="the first object of the history no longer holds its chain")
        elif kind == "stats":
            check_all_stats(s, ctx, mon, case["percents"], cfg, expect_ref=ref)
            # function-value statistics through every conversion
            cur, cur_ref = s, ref
            for op in (["funvals"], ["vector"], ["parameters"], ["funvals"]):
                cur, cur_ref = step(cur, cur_ref, op, ref_geom, ctx, cfg)
                if cur is None:
                    break
                check_all_stats(cur, ctx, mon, case["percents"][:3], {**cfg, "after": op[0]}, expect_ref=cur_ref)
        if mon.proper_subchain or mon.stat_on_chain:
            ctx.nontrivial(f"{kind}|{cfg['geom']}|{cfg['rep']}")
        ctx.note("Ns_shape", [Ns, list(np.shape(ref.arr))])
        ctx.note("contract_evaluations", mon.log.evaluations)


def run_exh(case, ctx, mon, s, ref, ref_geom, cfg):
    Ns = case["Ns"]
    variants = [(s, ref, "start")]
    # also the converted representations of the same chain
    for op in (["funvals"], ["vector"]):
        cur, cur_ref = step(variants[-1][0], variants[-1][1], op, ref_geom, ctx, cfg)
        if cur is None or cur is variants[-1][0]:
            break
        variants.append((cur, cur_ref, op[0]))
    for obj, oref, tag in variants:
        c2 = {**cfg, "after": tag}
        if oref.is_list:
            k, v = core.outcome(obj.burnthin, 0, 1)
            if k == "refused":
                ctx.refused("burnthin_on_list", v)
            else:
                ctx.count("step_unjudged_no_reference")
            continue
        for b in range(0, Ns + 2):
            for t in range(1, Ns + 4):
                new, new_ref = step(obj, oref, ["burnthin", b, t], ref_geom, ctx, c2)
                if new is not None and (b + t) % 5 == 0:
                    check_all_stats(new, ctx, mon, [95], c2, expect_ref=new_ref)
        # keyword / default forms
        for call, op in ((lambda: obj.burnthin(Nb=min(1, Ns - 1), Nt=2), ["burnthin", min(1, Ns - 1), 2]),
                         (lambda: obj.burnthin(Ns - 1), ["burnthin", Ns - 1, 1]),
                         (lambda: obj.burnthin(np.int64(0), np.int64(1)), ["burnthin", 0, 1])):
            k, v = core.outcome(call)
            if k == "value":
                compare_state(v, R.ref_apply(oref, op, ref_geom)[0], ctx, c2, "burnthin_kw")
            else:
                ctx.violation("valid_call_refused", {**c2, "op": "burnthin_kw"}, detail=f"{op}: {v!r}")
        # hostile values: a documented exception or the exact slice
        for b, t in ((0, 0), (0.0, 1), (1.5, 1), (0, 1.0), (None, 1), ("1", 1)):
            k, v = core.outcome(obj.burnthin, b, t)
            if k == "refused":
                ctx.refused("burnthin_hostile", v); ctx.count("hostile_refused")
            elif k == "crashed":
                ctx.violation("crash", {**c2, "exc": type(v).__name__, "where": "burnthin"}, detail=f"burnthin({b!r},{t!r}): {v!r}")
            else:
                ctx.count("hostile_value_returned")
                if b is None and t == 1:       # numpy semantics None == from the start
                    compare_state(v, oref, ctx, c2, "burnthin_None")


def run_joint(case, ctx, rs):
    from cuqi.samples import JointSamples
    cfg = {"kind": "joint", "n_members": len(case["members"])}
    with Monitors(ctx, cfg) as mon:
        members, refs = {}, {}
        for m in case["members"]:
            s, ref, _, _ = make_samples(m["geom"], m["rep"], m["Ns"], rs)
            members[m["key"]] = s; refs[m["key"]] = ref
        js = JointSamples(members)
        cur, cur_refs = js, refs
        originals = {k: (v, v.samples, v.samples.copy()) for k, v in members.items()}
        for b, t in case["calls"]:
            mon.cfg = {**cfg, "members": "/".join(f"{m['geom']['g']}:{m['rep']}" for m in case["members"])[:80]}
            must_refuse = any(b >= r.Ns for r in cur_refs.values())
            before = {k: (v, v.samples) for k, v in cur.items()}
            kind, val = core.outcome(cur.burnthin, b, t)
            if kind == "crashed":
                ctx.violation("crash", {**cfg, "exc": type(val).__name__, "where": "JointSamples.burnthin"}, detail=repr(val)); break
            if must_refuse:
                ctx.count("burnthin_refusal_checked")
                if kind == "refused":
                    ctx.refused("joint_burnin>=Ns", val); ctx.count("burnthin_refusal_observed")
                else:
                    ctx.violation("burnin_not_refused", {**cfg, "rep_flags": "joint"},
                                  detail=f"JointSamples.burnthin({b},{t}) returned although a member has Ns<= {b}: {[r.Ns for r in cur_refs.values()]}")
                break
            if kind == "refused":
                ctx.violation("valid_call_refused", {**cfg, "op": "joint_burnthin"}, detail=f"burnthin({b},{t}) with member lengths {[r.Ns for r in cur_refs.values()]}: {val!r}")
                break
            # every member, same keys in the same order, same container type
            if not isinstance(val, dict) or set(val.keys()) != set(cur.keys()):     # key order / container subclass: not stated by the property
                ctx.violation("joint_members_mismatch", cfg, detail=f"type {type(val).__name__}, keys {list(val.keys()) if hasattr(val, 'keys') else None} vs {list(cur.keys())}")
                break
            new_refs = {}
            for key in cur.keys():
                new_refs[key] = R.ref_apply(cur_refs[key], ["burnthin", b, t], None)[0]
                ctx.count("joint_members_checked")
                mcfg = {**cfg, "member_geom": [m for m in case["members"] if m["key"] == key][0]["geom"]["g"],
                        "member_rep": [m for m in case["members"] if m["key"] == key][0]["rep"]}
                compare_state(val[key], new_refs[key], ctx, mcfg, "joint_burnthin")
                if not _same(val[key].samples, new_refs[key].arr):
                    ctx.violation("burnthin_not_slice", {**mcfg, "rep_flags": "joint_member"}, detail=f"member {key!r}: burnthin({b},{t}) is not stored samples b, b+t, ...")
                g_old, g_new = cur[key].geometry, val[key].geometry
                if not (g_new is g_old or (type(g_new) is type(g_old) and g_new == g_old)):
                    ctx.violation("burnthin_flags_not_preserved", {**mcfg, "rep_flags": "joint_member"}, detail=f"member {key!r}: geometry {g_old!r} -> {g_new!r}")
            # source container untouched
            ctx.count("source_untouched_checked")
            if list(cur.keys()) != list(before.keys()) or any(cur[k] is not before[k][0] or cur[k].samples is not before[k][1] for k in before):
                ctx.violation("burnthin_source_modified", {**cfg, "rep_flags": "joint"}, detail=f"JointSamples.burnthin({b},{t}) changed its source container")
            cur, cur_refs = val, new_refs
        for k, (obj, arr_obj, arr_copy) in originals.items():
            ctx.count("source_untouched_checked")
            if js.get(k) is not obj or obj.samples is not arr_obj or not _same(arr_obj, arr_copy):
                ctx.violation("burnthin_source_modified", {**cfg, "rep_flags": "joint"}, detail=f"original member {k!r} changed after the history of burnthin calls")
        # statistics of a member of the last container
        for key in list(cur.keys())[:2]:
            check_all_stats(cur[key], ctx, mon, [90], {**cfg, "after": "joint_burnthin"}, expect_ref=cur_refs[key])
        if mon.proper_subchain:
            ctx.nontrivial(f"joint|{len(case['members'])}")
        ctx.note("member_Ns", [m["Ns"] for m in case["members"]])
        ctx.note("calls", case["calls"])

# ----------------------------------------------------------------------------- ESS / R-hat

class ArvizRecorder:
    """Pass-through recorder on the arviz function the library looks up at call time."""
    def __init__(self, fname):
        import cuqi.samples._samples as M
        self.mod, self.fname, self.calls = M.arviz, fname, []

    def __enter__(self):
        self.real = getattr(self.mod, self.fname)
        def wrap(data, *a, **kw):
            if isinstance(data, dict):
                rec = [(k, np.array(v, copy=True)) for k, v in data.items()]
            else:
                rec = data
            self.calls.append((rec, a, dict(kw)))
            return self.real(data, *a, **kw)
        setattr(self.mod, self.fname, wrap)
        return self

    def __exit__(self, *a):
        setattr(self.mod, self.fname, self.real)
        return False


def _ar_chains(rs, n, Ns, shift=0.0):
    rho = rs.permutation(np.linspace(0.0, 0.95, n)) if n > 1 else np.array([rs.uniform(0, 0.9)])
    X = np.zeros((n, Ns)); e = rs.standard_normal((n, Ns))
    X[:, 0] = e[:, 0]
    for k in range(1, Ns):
        X[:, k] = rho * X[:, k - 1] + e[:, k]
    return X + shift + 0.3 * np.arange(n)[:, None]

def _diag_geometry(names, n):
    """-> (factory of equal library geometries, expected variable names, number of chains rows)"""
    import cuqi
    G = cuqi.geometry
    default_names = ["v"] if n == 1 else ["v%d" % i for i in range(n)]
    if names == "default":
        return (lambda: None), default_names, n
    if names == "cont1d":
        return (lambda: G.Continuous1D(n)), default_names, n
    if names == "image":
        rows = max(d for d in (1, 2, 3, 4) if n % d == 0)
        return (lambda: G.Image2D((rows, n // rows))), default_names, n
    if names == "step":
        m = 2 * n + 1
        return (lambda: G.StepExpansion(np.linspace(0, 1, m), n_steps=n)), None, m
    nm = _names(names, n)
    return (lambda: G.Discrete(list(nm))), nm, n


def _check_handover(ctx, cfg, fn, calls, exp_names, exp_rows, kw):
    """The dict handed to arviz maps variable i -> its chain(s), unpermuted, in variable order."""
    if len(calls) != 1:
        ctx.violation("arviz_mapping_mismatch", {**cfg, "fn": fn}, detail=f"arviz.{fn} called {len(calls)} times"); return False
    rec, a, got_kw = calls[0]
    ok = True
    if got_kw != kw or a:
        ctx.violation("arviz_kwargs_not_forwarded", {**cfg, "fn": fn}, detail=f"passed {kw}, arviz received args={a} kwargs={got_kw}"); ok = False
    if not isinstance(rec, list):
        ctx.count("arviz_handover_not_dict"); return ok
    n = len(exp_rows)
    ctx.count("arviz_dict_entries_checked", n)
    if len(rec) != n:
        ctx.violation("arviz_mapping_mismatch", {**cfg, "fn": fn},
                      detail=f"{n} variables, dict handed to arviz.{fn} has {len(rec)} entries: keys {[k for k, _ in rec][:8]}")
        return False
    if exp_names is not None and [str(k) for k, _ in rec] != [str(x) for x in exp_names]:
        ctx.violation("arviz_mapping_mismatch", {**cfg, "fn": fn}, detail=f"key order {[k for k, _ in rec][:8]} vs variables {exp_names[:8]}")
        ok = False
    for i, (k, v) in enumerate(rec):
        if v.shape != exp_rows[i].shape or not np.array_equal(v, exp_rows[i]):
            which = [j for j in range(n) if v.shape == exp_rows[j].shape and np.array_equal(v, exp_rows[j])]
            ctx.violation("arviz_mapping_mismatch", {**cfg, "fn": fn},
                          detail=f"entry #{i} ({k!r}) is not variable {i}'s chain (shape {v.shape} vs {exp_rows[i].shape}); it equals the chain of variable(s) {which}"
                                 + ("" if which else "; reversed in time" if v.shape == exp_rows[i].shape and np.array_equal(v[..., ::-1], exp_rows[i]) else ""))
            ok = False
            break
    return ok


def run_diag(case, ctx, rs):
    from cuqi.samples import Samples
    import arviz as real_arviz
    names, rep, n, Ns = case["names"], case["rep"], case["n"], case["Ns"]
    cfg = {"kind": "diag", "names": names, "rep": rep}
    factory, exp_names, n_rows = _diag_geometry(names, n)
    geom = factory()
    n_ch = case["n_chains"]
    raws = [_ar_chains(rs, n_rows, Ns, shift=0.2 * j) for j in range(n_ch + 1)]

    def build(raw, g):
        if rep == "par":
            return Samples(raw, geometry=g)
        if rep in ("funvec_same", "funvec_dim_differs"):
            return Samples(raw, geometry=g, is_par=False, is_vec=True)
        if rep == "vector_of_image":
            return Samples(raw, geometry=g).funvals.vector
        if rep == "fun3d":
            return Samples(raw, geometry=g).funvals
        raise ValueError(rep)

    objs = [build(raws[0], geom)] + [build(raws[j], factory() if case["eq_geom_copy"] else geom) for j in range(1, n_ch + 1)]
    rows = [r.copy() for r in raws]
    if rep == "vector_of_image":
        # vector form of the image of a parameter vector (order C) is the parameter vector itself: judged by the hist kind;
        # here only the hand-over of whatever the object stores is judged
        rows = [np.array(o.samples, copy=True) for o in objs]
    if case["pre"] is not None:
        b, t = case["pre"]
        objs = [o.burnthin(b, t) for o in objs]
        if rep != "fun3d":
            rows = [R.take_last_axis(r, R.kept_indices(r.shape[-1], b, t)) for r in rows]
    s = objs[0]
    Ns_eff = rows[0].shape[-1]
    real_ess, real_rhat = real_arviz.ess, real_arviz.rhat
    wellformed = rep in ("par", "funvec_same", "vector_of_image") and names != "duplicate"

    def do_ess():
        # ---------------- ESS
        kw = dict(case["ess_kw"])
        with ArvizRecorder("ess") as rec:
            # compute_ess on a representation it does not support may refuse with IndexError (accepted as refusal)
            kind, val = core.outcome(s.compute_ess, refusal=core.REFUSAL_TYPES_BROAD, **kw)
        if kind == "crashed":
            ctx.violation("crash", {**cfg, "exc": type(val).__name__, "where": "compute_ess"}, detail=repr(val))
        elif kind == "refused":
            ctx.refused(f"ess_{rep}", val)
            if wellformed:
                ctx.violation("diagnostic_refused", {**cfg, "fn": "ess", "exc": type(val).__name__, "order": "ess_first"}, detail=f"compute_ess({kw}) on a (variables, draws)={rows[0].shape} chain raised {val!r}")
        elif rep == "fun3d":
            ctx.count("diag_unjudged_value")
        else:
            exp_rows = [rows[0][i] for i in range(rows[0].shape[0])]
            _check_handover(ctx, cfg, "ess", rec.calls, exp_names, exp_rows, kw)
            ref = np.array([float(real_ess(r, **kw)) for r in exp_rows])
            got = np.asarray(val, dtype=float)
            ctx.count("ess_values_compared", len(ref))
            if got.shape != ref.shape or not ctx.close(got, ref, rtol=1e-8, atol=1e-10):
                ctx.violation("ess_output_mismatch", cfg,
                              detail=f"compute_ess({kw}) shape {got.shape} {core.short(np.round(got, 3).tolist(), 160)} vs per-variable arviz.ess in variable order "
                                     f"{core.short(np.round(ref, 3).tolist(), 160)}")
            if Ns_eff >= 2:
                ctx.nontrivial(f"diag|ess|{names}|{rep}")


    def do_toarviz():
        # ---------------- to_arviz_inferencedata with explicit indices
        if wellformed and n_rows >= 2:
            perm = rs.permutation(n_rows)[: max(1, int(rs.randint(1, n_rows + 1)))]
            for idx in (perm, [int(i) for i in perm]):
                kind, val = core.outcome(s.to_arviz_inferencedata, idx)
                if kind != "value":
                    ctx.violation("diagnostic_refused", {**cfg, "fn": "to_arviz_inferencedata"}, detail=f"indices {list(perm)}: {val!r}")
                    continue
                ctx.count("arviz_dict_entries_checked", len(perm))
                keys = list(val.keys())
                good = [str(k) for k in keys] == [str(exp_names[i]) for i in perm] and \
                    all(np.array_equal(np.asarray(val[k]), rows[0][i]) for k, i in zip(keys, perm))
                if not good:
                    ctx.violation("arviz_mapping_mismatch", {**cfg, "fn": "to_arviz_inferencedata"},
                                  detail=f"variable_indices {list(perm)[:8]}: keys {keys[:8]} / values are not variables[idx] -> samples[idx,:]")


    def do_rhat():
        # ---------------- R-hat
        kw = dict(case["rhat_kw"])
        chains_arg = objs[1] if (case["single_obj"] and n_ch == 1) else objs[1:]
        with ArvizRecorder("rhat") as rec:
            kind, val = core.outcome(s.compute_rhat, chains_arg, **kw)
        if kind == "crashed":
            ctx.violation("crash", {**cfg, "exc": type(val).__name__, "where": "compute_rhat"}, detail=repr(val))
        elif kind == "refused":
            ctx.refused(f"rhat_{rep}", val)
            if wellformed:
                ctx.violation("diagnostic_refused", {**cfg, "fn": "rhat", "exc": type(val).__name__,
                                                 "order": "rhat_first" if case.get("rhat_first") else "after_ess"}, detail=f"compute_rhat({kw}) with {n_ch} other chain(s) raised {val!r}")
        elif rep == "fun3d":
            ctx.count("diag_unjudged_value")
        else:
            exp_rows = [np.stack([r[i] for r in rows], axis=0) for i in range(rows[0].shape[0])]
            _check_handover(ctx, cfg, "rhat", rec.calls, exp_names, exp_rows, kw)
            ref = np.array([float(real_rhat(r, **kw)) for r in exp_rows])
            got = np.asarray(val, dtype=float)
            ctx.count("rhat_values_compared", len(ref))
            if got.shape != ref.shape or not ctx.close(got, ref, rtol=1e-8, atol=1e-10):
                ctx.violation("rhat_output_mismatch", cfg,
                              detail=f"compute_rhat({kw}) shape {got.shape} {core.short(np.round(got, 4).tolist(), 160)} vs per-variable arviz.rhat in variable order "
                                     f"{core.short(np.round(ref, 4).tolist(), 160)}")
            if Ns_eff >= 2:
                ctx.nontrivial(f"diag|rhat|{names}|{rep}")

    order = (do_rhat, do_ess, do_toarviz) if case.get("rhat_first") else (do_ess, do_toarviz, do_rhat)
    for f in order:
        f()
    # mismatching geometry / length must not silently give numbers for a different pairing
    if wellformed and n_rows >= 2:
        other = Samples(raws[0][:, : max(1, Ns // 2)].copy(), geometry=geom) if rep == "par" else None
        if other is not None and other.Ns != s.Ns:
            kind, val = core.outcome(s.compute_rhat, [other])
            if kind == "refused":
                ctx.refused("rhat_length_mismatch", val)
            elif kind == "crashed":
                ctx.violation("crash", {**cfg, "exc": type(val).__name__, "where": "compute_rhat"}, detail=repr(val))
            else:
                ctx.count("diag_unjudged_value")
    ctx.note("n_Ns_chains", [n_rows, Ns_eff, n_ch + 1])

# ----------------------------------------------------------------------------- self test

def selftest(ctx):
    rs = core.np_rng("selftest", PROPERTY)
    for msg in R.selftest(rs):
        ctx.inconclusive("reference model disagrees with numpy: " + msg)
    # arviz on one chain given as a numpy row is what arviz computes for that row inside a dict
    import arviz
    X = _ar_chains(rs, 3, 40)
    d = arviz.ess({"b": X[0], "a": X[1], "c10": X[2]})
    for k, i in (("b", 0), ("a", 1), ("c10", 2)):
        if abs(float(d[k]) - float(arviz.ess(X[i]))) > 1e-9:
            ctx.inconclusive("arviz.ess(dict)[name] != arviz.ess(row)")
    Y = np.stack([X, _ar_chains(rs, 3, 40)], axis=1)
    d = arviz.rhat({"b": Y[0], "a": Y[1]})
    for k, i in (("b", 0), ("a", 1)):
        if abs(float(d[k]) - float(arviz.rhat(Y[i]))) > 1e-9:
            ctx.inconclusive("arviz.rhat(dict)[name] != arviz.rhat(rows)")
