"""C17 - shipped test problems match their documentation and are internally consistent.

Workload: option sweep over cuqi.testproblem.{Deconvolution1D (incl. legacy), Deconvolution2D, Heat1D,
Poisson1D, Abel1D, WangCubic}: sizes, PSF type/parameter/size parity/custom (a)symmetric PSF, boundary
conditions, phantoms, noise types/levels, field types/maps, observation maps, priors, numpy seeds.
Monitors (all at the public API of the problem object that the constructor hands out):
  model.forward / get_matrix, exactSolution, exactData, data, infoString, get_components(), the
  likelihood / prior / posterior log-densities, the global numpy random stream consumed by the
  constructor (scripted stream: the noise realisation is read off the recorded draw), the grid the
  user-supplied source term is evaluated on.
Oracle: reference operators written from the documentation (vlib/refs/c17_refs.py, no cuqi import).
"""
import math, re
import numpy as np
from vlib import core
from vlib.refs import c17_refs as R
from vlib.rngscript import Scripted
from vlib.refs import stencils as S

PROPERTY = "C17"
RULE = ("discrete option axes (problem, PSF kind x boundary condition, legacy PSF kind, field type, map, observation "
        "map, noise type, prior kind) are enumerated, continuous ones (sizes, PSF parameter/size, noise level, SNR, "
        "end point, time horizon, numpy seed) are drawn per case; a case is non-trivial when the problem was built "
        "and the forward model was compared with the reference operator on non-zero inputs and the recorded noise "
        "draw was compared with data - exactData; distinct = distinct descriptors")
ASSUMPTIONS = [
    "PSF centre = sample at index len(PSF)//2 (where the PSF generators put x=0; equals scipy.ndimage's convention, "
    "cross-checked in the reference self-test)",
    "CustomKL fields and 2D string phantoms are taken from the library object itself (geometry maps are C13's subject); "
    "KL / KL_Full / Step fields are re-computed from their docstring formulas",
    "SNR is read as ||exactData|| / sigma (the documentation only says 'signal to noise ratio')",
    "Poisson1D: the staggered-grid discretisation (step endpoint/(dim-1), source nodes) is taken as documented by construction",
]
REQUIRED_COUNTERS = {
    "quick": {"forward_vs_reference_checked": 500, "matrix_entries_checked": 40000, "exactdata_checked": 180,
              "noise_affine_checked": 170, "posterior_logd_checked": 400, "components_identity_checked": 180,
              "noise_stat_pooled_samples": 1500, "psf_tie_cases_checked": 12, "psf_tie_cases_2d_checked": 4,
              "observation_map_cases_checked": 60, "observation_nonmonotone_checked": 8, "observation_offnode_checked": 8,
              "observation_leading_segment_checked": 10, "observation_length_checked": 100},
    "thorough": {"forward_vs_reference_checked": 4000, "matrix_entries_checked": 300000, "exactdata_checked": 1200,
                 "noise_affine_checked": 1200, "posterior_logd_checked": 2500, "components_identity_checked": 1200,
                 "noise_stat_pooled_samples": 15000, "psf_tie_cases_checked": 90, "psf_tie_cases_2d_checked": 25,
                 "observation_map_cases_checked": 350, "observation_nonmonotone_checked": 50, "observation_offnode_checked": 60,
                 "observation_leading_segment_checked": 80, "observation_length_checked": 500},
}
BUDGET_S = {"quick": 240.0, "thorough": 1500.0}

BC1 = {"zero": "constant", "periodic": "wrap", "mirror": "mirror", "reflect": "reflect", "nearest": "nearest"}
BC2 = {"zero": "constant", "periodic": "wrap", "neumann": "reflect", "mirror": "mirror", "nearest": "nearest"}
PSF_KINDS = ("gauss", "moffat", "defocus", "custom_sym", "custom_asym", "custom_sym_neg", "custom_asym_neg")
LEGACY_KINDS = ("gauss", "sinc", "prolate", "vonmises", "custom_sym", "custom_asym", "custom_sym_neg", "custom_asym_neg")
FIELDS = ("none", "KL", "KL_modes", "KL_Full", "Step", "CustomKL", "geomobj")
ABEL_FIELDS = ("none", "KL", "KL_modes", "Step", "CustomKL", "geomobj")
OBS = (None, "every2", "perm", "mid", "every3from1", "reversed", "mixed", "upper", "repeat_perm", "single", "three",
       "mixed_perm", "repeat", "full_reversed", "single_mid", "full",
       "lead_half", "trail2", "lead1", "lead_lt", "lead_nm1", "trail_half", "lead2")
OBS_LEADING = ("lead1", "lead2", "lead_half", "lead_nm1", "lead_lt")      # a prefix of the solution grid (g[:k], g[g<c])
OBS_NONMONOTONE = ("perm", "reversed", "repeat_perm", "mixed_perm", "full_reversed")
PHANTOMS_2D = ("satellite", "shepp_logan", "grains", "cat", "camera")

# ----------------------------------------------------------------------------- case generation

def _spell(r, s):
    return r.choice([s, s.capitalize(), s.upper()])

USE_OPS = ("forward_exact", "logd", "gradient", "MAP", "ML", "sample", "sample_exp")

def _use(r):
    """'use' history applied to the constructed problem before all monitors are evaluated a second time"""
    ops = [[op, r.choice([1, 2])] for op in USE_OPS if r.random() < (0.3 if op.startswith("sample") else 0.6)]
    r.shuffle(ops)
    return ops

def _noise(r):
    nt = r.choice(["gaussian", "gaussian", "scaledgaussian"])
    spelled = {"gaussian": r.choice(["gaussian", "Gaussian"]), "scaledgaussian": r.choice(["scaledgaussian", "scaledGaussian"])}[nt]
    std = r.choice([0.01, 0.05, 0.3, round(r.uniform(0.002, 0.5), 4), 1e-8, 7.5])
    return nt, spelled, std

def _phantom1(r, dim):
    name = r.choice(list(R.PHANTOMS_1D) + ["ndarray", "nd_neg", "nd_zero"])
    param = None
    if name in ("gauss", "sinc", "vonmises", "derivgauss") and r.random() < 0.5:
        param = round(r.uniform(1.0, 8.0), 3)
    if name in ("square", "hat") and r.random() < 0.5:
        param = round(r.uniform(3.0, min(10.0, dim / 1.6)), 3)
    return name, param

# boundary-value classes: defocus radii whose square is (in exact arithmetic) a sum of two integer squares, so that samples
# sit exactly on the edge of the documented disc  dist^2 <= R^2 ; integer radii are exact ties in floating point too
TIE_RADII = (1, 2, 3, 5, 1.0, 2.0, 4)                                        # exact ties (counted, floor in REQUIRED_COUNTERS)
NEAR_TIE_RADII = (math.sqrt(2), math.sqrt(5), math.sqrt(8), math.sqrt(13), 2.5)  # ties only in exact arithmetic: float R**2 decides

def _tie_size(r, R_, default_size):
    c = int(math.ceil(R_))
    return r.choice([2 * c + 1, 2 * c + 2, 2 * c + 3] + ([None] if default_size >= 2 * c + 2 else []))

def _d1_case(r, kind, bc, tie=False):
    dim = r.randint(8, 40)
    c = {"kind": "d1", "dim": dim, "psf": kind, "bc": bc, "bc_spelled": _spell(r, bc), "tie": bool(tie)}
    if kind.startswith("custom"):
        c["psf_len"] = r.choice([r.randrange(3, dim, 2), r.randrange(2, dim, 2), dim, dim, dim + r.randint(1, 3), 1 if kind == "custom_sym" else 2])
    else:
        c["psf_size"] = r.choice([None, None, r.randrange(3, dim, 2), r.randrange(2, dim, 2), dim])
        c["psf_param"] = r.choice([None, round(r.uniform(1.0, 5.0) if kind == "defocus" else r.uniform(0.6, 6.0), 3), 0.05, 40.0])
        c["psf_spelled"] = _spell(r, kind)
        if tie and kind == "defocus":
            c["psf_param"] = r.choice(TIE_RADII)
            c["psf_size"] = _tie_size(r, c["psf_param"], dim)
        elif kind == "defocus" and r.random() < 0.3:
            c["psf_param"] = r.choice(NEAR_TIE_RADII)
        elif tie:           # size limits and integer-valued parameters
            c["psf_size"] = r.choice([1, 2, 3, dim - 1, dim, dim + 1])
            c["psf_param"] = r.choice([1, 2, 1.0, 3])
    c["phantom"], c["phantom_param"] = _phantom1(r, dim)
    if tie and r.random() < 0.5:        # round(dim/param) lands exactly on .5 ; piecewise phantoms with nodes on their break points
        k = r.randint(1, max(1, int(dim / 3 - 0.5)))
        c["phantom"], c["phantom_param"] = r.choice([("square", dim / (k + 0.5)), ("hat", dim / (k + 0.5)), ("pc", None), ("skyscraper", None)])
        if c["phantom"] in ("pc", "skyscraper") and not kind.startswith("custom"):
            c["dim"] = dim = r.choice([11, 21, 31])
            if c.get("psf_size") is not None and not (tie and kind == "defocus"):
                c["psf_size"] = min(c["psf_size"], dim + 1)
    c["phantom_spelled"] = _spell(r, c["phantom"])
    c["noise"], c["noise_spelled"], c["noise_std"] = _noise(r)
    c["prior"] = r.choice([None, None, "gauss", "gauss", "laplace", "gmrf"])
    c["use"] = _use(r)
    c["np_seed"] = r.randrange(2 ** 31)
    return c

def _legacy_case(r, kind, tie=False):
    dim = 2 * r.randint(4, 20)
    c = {"kind": "d1leg", "dim": dim, "psf": kind, "bc": "periodic", "tie": bool(tie)}
    if not kind.startswith("custom"):
        c["psf_param"] = r.choice([None, round(r.uniform(2.0, 25.0), 3), 0.05, 200.0])
        if tie:             # sinc: zeros of the PSF fall exactly on samples; integer-valued parameters otherwise
            c["psf_param"] = r.choice([dim / 2, dim, 2 * dim, 2, 4]) if kind in ("sinc", "prolate") else r.choice([1, 2, 10, 1.0])
        c["psf_spelled"] = r.choice([kind, kind.capitalize(), "vonMises" if kind == "vonmises" else kind])
    c["phantom"], c["phantom_param"] = _phantom1(r, dim)
    c["phantom_spelled"] = _spell(r, c["phantom"])
    c["noise"], c["noise_spelled"], c["noise_std"] = _noise(r)
    c["prior"] = r.choice([None, None, "gauss", "gauss", "laplace", "gmrf"])
    c["use"] = _use(r)
    c["np_seed"] = r.randrange(2 ** 31)
    return c

def _d2_case(r, kind, bc, tier, tie=False):
    dim = r.randint(4, 10) if tier == "quick" else r.randint(4, 16)
    c = {"kind": "d2", "dim": dim, "psf": kind, "bc": bc, "bc_spelled": _spell(r, bc), "tie": bool(tie)}
    size = r.choice([r.randrange(3, 10, 2), r.randrange(2, 9, 2), r.randint(2, 7), dim + 1 if r.random() < 0.3 else 3])
    if kind.startswith("custom"):
        c["psf_len"] = size
    else:
        c["psf_size"] = r.choice([size, size, size, None])
        c["psf_param"] = r.choice([None, round(r.uniform(1.0, 3.5) if kind == "defocus" else r.uniform(0.6, 4.0), 3), 0.05, 30.0])
        c["psf_spelled"] = _spell(r, kind)
        if tie and kind == "defocus":
            c["psf_param"] = r.choice(TIE_RADII)
            c["psf_size"] = _tie_size(r, c["psf_param"], 21)
        elif kind == "defocus" and r.random() < 0.3:
            c["psf_param"] = r.choice(NEAR_TIE_RADII)
            c["psf_size"] = r.choice([7, 8, 9, None])
        elif tie:
            c["psf_size"] = r.choice([1, 2, 3, dim, dim + 1])
            c["psf_param"] = r.choice([1, 2, 1.0, 3])
    c["phantom"] = r.choice(["nd_same", "nd_vec", "nd_other", "nd_neg", "nd_zero", r.choice(PHANTOMS_2D)])
    c["noise"], c["noise_spelled"], c["noise_std"] = _noise(r)
    c["prior"] = r.choice([None, "gauss", "gauss", "gmrf"])
    c["use"] = _use(r)
    c["np_seed"] = r.randrange(2 ** 31)
    return c

def _field_params(r, field, n_nodes):
    if field == "KL":
        return r.choice([{}, {"decay_rate": round(r.uniform(1.0, 3.0), 2), "normalizer": round(r.uniform(1.0, 20.0), 2)}])
    if field == "KL_modes":
        return {"num_modes": r.randint(2, max(2, n_nodes - 2))}
    if field == "KL_Full":
        return r.choice([{}, {"std": round(r.uniform(0.5, 2.0), 2), "cor_len": round(r.uniform(0.1, 0.6), 2), "nu": round(r.uniform(1.0, 3.5), 2)}])
    if field == "Step":
        ok = [k for k in range(2, min(n_nodes, 9)) if R.step_is_unambiguous(n_nodes, k)]
        return {"n_steps": r.choice(ok)} if ok else None
    if field == "CustomKL":
        return {"trunc_term": r.randint(2, max(2, min(6, n_nodes // 2))), "mean": round(r.uniform(0.5, 1.5), 2),
                "std": round(r.uniform(1.0, 1.5), 2), "cor": round(r.uniform(0.1, 0.5), 2)}
    if field == "geomobj":
        return {"npar": r.randint(2, 6), "bseed": r.randrange(10 ** 6)}
    return {}

def _pde_case(r, problem, field, obs=None):
    c = {"kind": problem, "field": field}
    if problem == "heat":
        c["dim"] = r.randint(6, 40)
        n_nodes = c["dim"]
    elif problem == "poisson":
        c["dim"] = r.randint(7, 40)
        n_nodes = c["dim"]
    else:
        c["dim"] = r.randint(5, 40)
        n_nodes = c["dim"]
    fp = _field_params(r, field, n_nodes)
    if fp is None:      # no unambiguous step count for this size: shift the size by one
        c["dim"] += 1
        fp = _field_params(r, field, c["dim"]) or {"n_steps": 2}
        if not R.step_is_unambiguous(c["dim"], fp["n_steps"]):
            c["field"], fp = "none", {}
    c["field_params"] = fp
    c["endpoint"] = r.choice([1.0, 1.0, round(r.uniform(0.5, 3.0), 3)])
    c["snr"] = r.choice([10, 50, 100, 200, 1000, round(r.uniform(5, 500), 2), 1e-3, 1e8])
    if problem == "heat":
        c["map"] = r.choice([None, None, "exp", "affine", "sqplus"])
        c["steps"] = r.randint(5, 160)
        c["obs"] = obs
        c["exact"] = r.choice([None, None, "ndarray", "zeros", "neg"])
    elif problem == "poisson":
        needs_pos = c["field"] in ("KL", "KL_modes", "KL_Full", "CustomKL", "geomobj")
        c["map"] = "exp" if needs_pos else r.choice([None, None, "exp", "affine", "sqplus"])
        c["obs"] = obs
        c["exact"] = r.choice([None, None, "ndarray", "ones", "neg"])
        c["source"] = r.choice(["default", "recorded_default", "poly", "sin"])
    else:
        c["map"] = r.choice([None, None, "times10", "sqplus", "exp"])
    c["use"] = _use(r)
    c["np_seed"] = r.randrange(2 ** 31)
    return c

def cases(tier, seed):
    r = core.rng_for(seed, PROPERTY, tier, "cases")
    q = tier == "quick"
    out = []
    for rnd in range(6 if q else 44):
        for kind in PSF_KINDS:
            for bc in BC1:
                out.append(_d1_case(r, kind, bc, tie=rnd % 2 == 0))
    for rnd in range(6 if q else 40):
        for kind in LEGACY_KINDS:
            out.append(_legacy_case(r, kind, tie=rnd % 2 == 0))
    for probe in ("odd_dim", "bc", "psf_size"):
        out.append({"kind": "d1leg_refusal", "probe": probe, "dim": 2 * r.randint(4, 20) + (1 if probe == "odd_dim" else 0)})
    for rnd in range(4 if q else 22):
        for kind in PSF_KINDS:
            for bc in BC2:
                out.append(_d2_case(r, kind, bc, tier, tie=rnd % 2 == 0))
    k = 0
    for _ in range(8 if q else 60):
        for field in FIELDS:        # the observation rules are cycled (7 fields, 16 rules: every pair meets)
            out.append(_pde_case(r, "heat", field, obs=OBS[(k + 5) % len(OBS)]))
            out.append(_pde_case(r, "poisson", field, obs=OBS[k % len(OBS)]))
            k += 1
    for _ in range(7 if q else 50):
        for field in ABEL_FIELDS:
            out.append(_pde_case(r, "abel", field))
    for i in range(18 if q else 72):
        out.append({"kind": "wang", "noise_std": r.choice([1, 0.5, 2.3, round(r.uniform(0.1, 5), 3), 1e-6]) if i else None,
                    "prior": r.choice([None, "gauss"]) if i else None,
                    "data": ([None, 0, 0.0, "zeros1", -2.5, round(r.uniform(-5, 5), 3)][i % 6] if i < 12 else r.choice([None, 0, 0.0, "zeros1", round(r.uniform(-5, 5), 3)])) if i else None,
                    "use": _use(r), "np_seed": r.randrange(2 ** 31)})
    for fam in ("d1_gaussian", "d1_scaled", "d1_legacy", "d2_gaussian", "d2_scaled", "heat", "poisson", "abel"):
        for rep in range(1 if q else 6):
            out.append({"kind": "noise_stat", "family": fam, "reps": 24 if q else 40, "np_seed": r.randrange(2 ** 31),
                        "dim": r.randint(12, 30) if not fam.startswith("d2") else r.randint(5, 8),
                        "level": r.choice([0.01, 0.05, 0.3]) if fam.startswith("d") else r.choice([10, 50, 200])})
    # interleave kinds so that every shard sees every kind
    r.shuffle(out)
    return out

def crash_config(case):
    return _cfg(case)

def _cfg(case):
    kind = case["kind"]
    prob = {"d1": "Deconvolution1D", "d1leg": "Deconvolution1D", "d1leg_refusal": "Deconvolution1D", "d2": "Deconvolution2D",
            "heat": "Heat1D", "poisson": "Poisson1D", "abel": "Abel1D", "wang": "WangCubic", "noise_stat": case.get("family")}[kind]
    cfg = {"problem": prob}
    if kind in ("d1", "d1leg", "d2"):
        cfg.update({"legacy": kind == "d1leg", "psf": case["psf"], "bc": case["bc"], "noise": case["noise"], "prior": case.get("prior") or "default"})
        n = case.get("psf_len") or case.get("psf_size") or (case["dim"] if kind != "d2" else 21)
        cfg["psf_parity"] = "even" if n % 2 == 0 else "odd"
    if kind in ("heat", "poisson", "abel"):
        cfg.update({"field": case["field"], "map": case.get("map") or "none", "obs": case.get("obs") or "none",
                    "endpoint_is_one": case["endpoint"] == 1.0, "exact": case.get("exact") or "default"})
    return cfg

# ----------------------------------------------------------------------------- small helpers

def _arr(v):
    return np.asarray(v, dtype=float).ravel()

def _relerr(a, b, floor=0.0):
    """max |a-b| relative to max(|b|, floor); floor = ||operator|| * ||input|| guards outputs that cancel to round-off"""
    a, b = _arr(a), _arr(b)
    if a.shape != b.shape:
        return float("inf")
    if not (np.all(np.isfinite(a)) and np.all(np.isfinite(b))):
        return float("inf")
    s = max(float(np.max(np.abs(b))) if b.size else 0.0, float(floor), 1e-300)
    return float(np.max(np.abs(a - b)) / s) if a.size else 0.0

def _custom_psf(rs, n, symmetric, two_d=False, negative=False):
    P = _custom_psf_pos(rs, n, symmetric, two_d)
    if negative:        # ringing: the sign alternates with the distance from the centre sample n//2 (keeps the symmetry)
        d = np.abs(np.arange(n) - n // 2)
        sign = np.where(d % 2 == 1, -0.6, 1.0)
        P = P * (np.outer(sign, sign) if two_d else sign)
        P = P / np.sum(np.abs(P))
    return P

def _custom_psf_pos(rs, n, symmetric, two_d=False):
    if two_d:
        P = rs.rand(n, n) + 0.05
        if symmetric:
            P = P + P[::-1, :]
            P = P + P[:, ::-1]
            if n % 2 == 0:       # symmetric about the centre sample n//2: first row/column has no partner
                P[0, :] = 0
                P[:, 0] = 0
        else:
            P[0, -1] += 2.0      # make it visibly lopsided
        return P / P.sum()
    P = rs.rand(n) + 0.05
    if symmetric:
        P = P + P[::-1]
        if n % 2 == 0:
            P = np.concatenate([[0.0], (P[1:] + P[1:][::-1]) / 2])
    else:
        P[-1] += 1.0
    return P / P.sum()

def _make_prior(cuqi, kind, rs, dim, geometry=None):
    """returns (prior or None, reference log-density)"""
    if kind is None:
        return None, (lambda x: R.gauss_logpdf_diag(x, 0.0, 1.0))
    kw = {} if geometry is None else {"geometry": geometry}
    if kind == "gauss":
        mean, var = rs.randn(dim), rs.uniform(0.3, 3.0, dim)
        if geometry is not None:
            var = float(var[0])
        return cuqi.distribution.Gaussian(mean, var, name="x", **kw), (lambda x: R.gauss_logpdf_diag(x, mean, np.sqrt(var)))
    if kind == "gmrf":       # first-order GMRF with zero boundary and a non-zero mean
        mean, prec = rs.randn(dim) + 0.5, float(rs.uniform(0.5, 5.0))
        pd = 1 if geometry is None else 2
        N = dim if pd == 1 else int(round(math.sqrt(dim)))
        D = S.diff_op(N, "zero", 1, pd)
        Pm = D.T @ D
        logdet = float(np.linalg.slogdet(Pm)[1])
        ref = lambda x: float(0.5 * (dim * math.log(prec) + logdet) - 0.5 * dim * R.LOG2PI - 0.5 * prec * (_arr(x) - mean) @ Pm @ (_arr(x) - mean))
        return cuqi.distribution.GMRF(mean, prec, bc_type="zero", name="x", **kw), ref
    if kind == "laplace":
        loc, scale = rs.randn(dim), float(rs.uniform(0.3, 2.0))
        return cuqi.distribution.Laplace(loc, scale, name="x", **kw), (lambda x: R.laplace_logpdf(x, loc, scale))
    raise ValueError(kind)

def _geom_same(a, b):
    """same kind of geometry over the same grid / shapes (Geometry.__eq__ also compares the variable-name annotation)"""
    if a is b:
        return True
    if a is None or b is None or type(a) is not type(b):
        return False
    try:
        if tuple(a.par_shape) != tuple(b.par_shape) or tuple(a.fun_shape) != tuple(b.fun_shape):
            return False
        ga, gb = getattr(a, "grid", None), getattr(b, "grid", None)
        if (ga is None) != (gb is None):
            return False
        if ga is not None and not isinstance(ga, tuple) and not np.array_equal(np.asarray(ga), np.asarray(gb)):
            return False
    except Exception:  # noqa
        return False
    return True

def _tiny_entries(y):
    """scaled noise: an exact datum that is zero up to round-off has (numerically) zero variance"""
    y = np.abs(_arr(y))
    return bool(y.size) and float(y.min()) <= 1e-9 * float(y.max())

def _scalar(v):
    return float(np.asarray(v, dtype=float).ravel()[0])

class _Problem:
    """what the generic monitors need to know about one constructed problem"""
    def __init__(self, tp, cfg, F_eff, sigma, range_dim, dom_dim, logprior_ref, points, info_expect=None, x_exact_ref=None,
                 x_exact_is_fun=False, fun_of_exact=None, degenerate_noise=False, exact_tol=1e-9, fwd_tol=1e-9, opnorm=0.0):
        self.__dict__.update(locals())

# ----------------------------------------------------------------------------- generic monitors

def _check_noise_and_consistency(ctx, P, rec):
    """exactData == F(exactSolution); data - exactData == sigma * recorded draw; infoString; identities; log-densities"""
    tp, cfg = P.tp, P.cfg
    y_exact = _arr(tp.exactData)
    data = _arr(tp.data)
    # --- exact data are the model applied to the exact solution
    if P.F_eff is not None and P.fun_of_exact is not None:
        ref = _arr(P.F_eff(P.fun_of_exact))
        ctx.count("exactdata_checked")
        e = _relerr(y_exact, ref, floor=P.opnorm * float(np.max(np.abs(P.fun_of_exact))))
        if e > P.exact_tol:
            ctx.violation("exactdata_mismatch", cfg, detail=f"exactData differs from reference model(exactSolution): rel err {e:.3g}")
        else:
            ctx.note("exactdata_relerr", e)
    # --- noise: the recorded standard-normal draw, scaled by the stated level, is exactly data - exactData
    sigma = P.sigma(y_exact) if callable(P.sigma) else P.sigma
    if data.shape != y_exact.shape:
        ctx.violation("data_shape_mismatch", cfg, detail=f"data {data.shape} exactData {y_exact.shape}")
    elif P.degenerate_noise:
        ctx.count("scaled_noise_degenerate")
    elif sigma is not None and not np.all(np.asarray(sigma, float) > 0):
        ctx.count("zero_noise_level_checked")      # e.g. SNR noise on an identically zero signal: data must be the exact data
        if not np.array_equal(data, y_exact):
            ctx.violation("noise_level_mismatch", cfg, detail="stated noise level is zero but data differ from exactData")
    elif sigma is not None:
        draws = [d for d in rec.normals() if int(np.prod(d[2])) == data.size] if rec is not None else []
        resid = data - y_exact
        sig = np.broadcast_to(np.asarray(sigma, float), resid.shape)
        if not draws:
            ctx.inconclusive("no standard normal draw of the data size was observed on numpy.random while the problem was built")
        else:
            ctx.count("noise_affine_checked")
            best = min(float(np.max(np.abs(resid - sig * _arr(d[3])) / (1e-8 * np.abs(sig * _arr(d[3])) + 1e-11 * max(1e-300, np.max(np.abs(y_exact))) + 1e-300))) for d in draws)
            if not (best <= 1.0):
                z = _arr(draws[-1][3])
                with np.errstate(divide="ignore", invalid="ignore"):
                    ratio = resid / (sig * z)
                ctx.violation("noise_level_mismatch", cfg,
                              detail=f"data - exactData is not (stated std) * (recorded N(0,1) draw): resid/(sigma z) ranges {np.nanmin(ratio):.6g}..{np.nanmax(ratio):.6g}; stated sigma[0]={sig[0]:.6g}")
            ctx.note("n_normal_draws", len(rec.normals()))
    # --- infoString names the noise type and level that were asked for
    if P.info_expect is not None:
        ctx.count("infostring_checked")
        info = getattr(tp, "infoString", None)
        kindword, number = P.info_expect
        ok = isinstance(info, str) and kindword.lower() in info.lower()
        if ok:
            nums = re.findall(r"[-+]?\d*\.?\d+(?:[eE][-+]?\d+)?", info.split(":")[-1])
            ok = bool(nums) and abs(float(nums[-1]) - float(number)) <= 1e-12 * abs(float(number))
        if not ok:
            ctx.violation("infostring_mismatch", cfg, detail=f"infoString {info!r} does not state {kindword} / {number}")
    # --- the pieces handed out refer to one another
    ctx.count("components_identity_checked")
    model, dat, info = tp.get_components()
    bad = []
    if model is not tp.model: bad.append("get_components()[0] is not problem.model")
    if dat is not tp.data: bad.append("get_components()[1] is not problem.data")
    if info.exactSolution is not tp.exactSolution: bad.append("ProblemInfo.exactSolution is not problem.exactSolution")
    if info.exactData is not tp.exactData: bad.append("ProblemInfo.exactData is not problem.exactData")
    if getattr(tp, "infoString", None) is not None and info.infoString != tp.infoString: bad.append("ProblemInfo.infoString differs")
    if tp.likelihood.model is not tp.model: bad.append("likelihood.model is not model")
    if tp.likelihood.data is not tp.data: bad.append("likelihood.data is not data")
    post = tp.posterior
    if post.likelihood is not tp.likelihood: bad.append("posterior.likelihood is not likelihood")
    if post.prior is not tp.prior: bad.append("posterior.prior is not prior")
    if post.model is not tp.model: bad.append("posterior.model is not model")
    if post.data is not tp.data: bad.append("posterior.data is not data")
    if bad:
        ctx.violation("components_identity", cfg, detail="; ".join(bad))
    ctx.count("geometry_consistency_checked")
    bad = []
    dg, rg = tp.model.domain_geometry, tp.model.range_geometry
    if tp.model.range_dim != P.range_dim or data.size != P.range_dim: bad.append(f"range dim {tp.model.range_dim}, data {data.size}, expected {P.range_dim}")
    if tp.model.domain_dim != P.dom_dim: bad.append(f"domain dim {tp.model.domain_dim}, expected {P.dom_dim}")
    if tp.prior.dim != tp.model.domain_dim: bad.append(f"prior dim {tp.prior.dim} vs domain dim {tp.model.domain_dim}")
    if post.dim != tp.model.domain_dim: bad.append(f"posterior dim {post.dim}")
    if tp.exactSolution is not None:
        if not _geom_same(getattr(tp.exactSolution, "geometry", None), dg): bad.append("exactSolution.geometry != model.domain_geometry")
        if not _geom_same(getattr(tp.exactData, "geometry", None), rg): bad.append("exactData.geometry != model.range_geometry")
    if not _geom_same(post.geometry, dg): bad.append("posterior.geometry != model.domain_geometry")
    for nm, g, want in (("prior", tp.prior.geometry, dg), ("data", getattr(tp.data, "geometry", None), rg),
                        ("data distribution", tp.likelihood.distribution.geometry, rg)):
        if g is None:
            continue
        if not _geom_same(g, want) and not (type(g).__name__.startswith("_DefaultGeometry") and g.par_dim == want.par_dim):
            bad.append(f"{nm}.geometry {g!r} is neither the model's {want!r} nor a default of the same size")
    if bad:
        ctx.violation("geometry_inconsistent", cfg, detail="; ".join(bad))
    # --- posterior log-density == Gaussian log-likelihood of the stated noise + log-prior
    if P.F_eff is None or sigma is None or P.degenerate_noise or data.shape != y_exact.shape or not np.all(np.asarray(sigma, float) > 0):
        return
    for x in P.points:
        Fx = _arr(P.F_eff(x))
        ll_ref = R.gauss_logpdf_diag(data, Fx, np.broadcast_to(np.asarray(sigma, float), data.shape))
        lp_ref = P.logprior_ref(x)
        tol = lambda ref: 1e-7 * (abs(ref) + abs(ll_ref) + 1.0)
        kind_, ll = core.outcome(tp.likelihood.logd, x)
        if kind_ != "value":
            ctx.violation("logd_refused", {**cfg, "which": "likelihood"}, detail=repr(ll)); continue
        ctx.count("likelihood_logd_checked")
        if not abs(_scalar(ll) - ll_ref) <= tol(ll_ref):
            ctx.violation("likelihood_logd_mismatch", cfg, detail=f"likelihood.logd={_scalar(ll):.12g}, Gaussian log-likelihood with the stated noise {ll_ref:.12g}")
        lp = _scalar(tp.prior.logd(x))
        ctx.count("prior_logd_checked")
        if not abs(lp - lp_ref) <= 1e-8 * (abs(lp_ref) + 1.0):
            ctx.violation("prior_logd_mismatch", cfg, detail=f"prior.logd={lp:.12g}, reference {lp_ref:.12g}")
        pd = _scalar(post.logd(x))
        ctx.count("posterior_logd_checked")
        if not abs(pd - (ll_ref + lp_ref)) <= tol(ll_ref + lp_ref):
            ctx.violation("posterior_logd_mismatch", cfg, detail=f"posterior.logd={pd:.12g}, log-likelihood + log-prior = {ll_ref + lp_ref:.12g}")

def _snapshot(tp, points):
    snap = {"arrays": {}, "objects": {}, "values": []}
    for nm in ("data", "exactData", "exactSolution"):
        v = getattr(tp, nm, None)
        snap["objects"][nm] = v
        snap["arrays"][nm] = None if v is None else np.array(v, copy=True)
    for nm, get in (("prior.mean", lambda: tp.prior.mean), ("prior.location", lambda: tp.prior.location),
                    ("noise.cov", lambda: tp.likelihood.distribution.cov)):
        try:
            v = get()
            if v is not None and not callable(v):
                snap["arrays"][nm] = np.array(v.toarray() if hasattr(v, "toarray") else v, copy=True)
        except Exception:  # noqa
            pass
    for x in points:
        row = []
        for f in (tp.likelihood.logd, tp.prior.logd, tp.posterior.logd):
            try:
                row.append(_scalar(f(x)))
            except Exception:  # noqa
                row.append(None)
        snap["values"].append(row)
    return snap

def _use_history(ctx, tp, cfg, ops, points, allow, is_fun_exact=False, budget_s=4.0):
    """Use the problem the way a user would, then the caller re-evaluates every monitor.  The operations themselves are
    not judged (C15/C16/C02 do that) except that a repeated MAP/ML must reproduce itself; what is judged is that none of
    them alters what the problem hands out (stored arrays bitwise, log-densities at fixed points)."""
    import time
    if not ops:
        return
    snap = _snapshot(tp, points)
    t0 = time.time()
    x0 = points[0]
    last = {}
    for op, reps in ops:
        if op not in allow or time.time() - t0 > budget_s:
            continue
        for k in range(reps):
            try:
                if op == "forward_exact":
                    if tp.exactSolution is None: break
                    out = tp.model.forward(tp.exactSolution, is_par=False) if is_fun_exact else tp.model.forward(tp.exactSolution)
                elif op == "logd":
                    out = tp.posterior.logd(x0)
                elif op == "gradient":
                    out = tp.posterior.gradient(x0)
                elif op == "MAP":
                    out = tp.MAP(disp=False)
                elif op == "ML":
                    out = tp.ML(disp=False)
                elif op == "sample":
                    out = tp.sample_posterior(5)
                elif op == "sample_exp":
                    out = tp.sample_posterior(5, experimental=True)
                ctx.count("use_op_done")
                ctx.count("use_" + op)
            except Exception as e:  # noqa - whether the operation is supported for this configuration is not C17's subject
                ctx.count("use_op_not_supported")
                ctx.refused("use " + op, e)
                break
            if op in ("MAP", "ML", "forward_exact", "logd", "gradient"):
                now = _arr(out)
                if op in last and now.shape == last[op].shape and np.all(np.isfinite(last[op])):
                    ctx.count("repeat_call_checked")
                    if _relerr(now, last[op], floor=1e-12) > 1e-6:
                        ctx.violation("repeated_call_differs", {**cfg, "op": op}, detail=f"{op}() called again on the same problem returned a different result: rel diff {_relerr(now, last[op], floor=1e-12):.3g}")
                last[op] = now
    # --- nothing the problem hands out may have changed
    for nm, before in snap["arrays"].items():
        ctx.count("stored_array_bitwise_checked")
        try:
            now = {"data": lambda: tp.data, "exactData": lambda: tp.exactData, "exactSolution": lambda: tp.exactSolution,
                   "prior.mean": lambda: tp.prior.mean, "prior.location": lambda: tp.prior.location,
                   "noise.cov": lambda: tp.likelihood.distribution.cov}[nm]()
        except Exception as e:  # noqa
            ctx.violation("stored_array_changed_by_use", {**cfg, "what": nm}, detail=f"{nm} is no longer available after use: {e!r}")
            continue
        if before is None:
            if now is not None:
                ctx.violation("stored_array_changed_by_use", {**cfg, "what": nm}, detail=f"{nm} was None and is now {now!r}")
            continue
        nowa = np.asarray(now.toarray() if hasattr(now, "toarray") else now)
        if nowa.shape != before.shape or not np.array_equal(nowa, before, equal_nan=True):
            d = float(np.max(np.abs(nowa - before))) if nowa.shape == before.shape else float("nan")
            ctx.violation("stored_array_changed_by_use", {**cfg, "what": nm},
                          detail=f"{nm} changed after {[o for o, _ in ops if o in allow]}: max abs change {d:.3g}")
        if nm in snap["objects"] and now is not snap["objects"][nm]:
            ctx.violation("stored_object_replaced_by_use", {**cfg, "what": nm}, detail=f"problem.{nm} is a different object after use")
    for x, row in zip(points, snap["values"]):
        for nm, f, before in zip(("likelihood", "prior", "posterior"), (tp.likelihood.logd, tp.prior.logd, tp.posterior.logd), row):
            if before is None or not np.isfinite(before):
                continue
            ctx.count("logd_unchanged_checked")
            try:
                now = _scalar(f(x))
            except Exception as e:  # noqa
                ctx.violation("logd_changed_by_use", {**cfg, "which": nm}, detail=f"{nm}.logd raises after use: {e!r}"); continue
            if not abs(now - before) <= 1e-10 * (abs(before) + 1.0):
                ctx.violation("logd_changed_by_use", {**cfg, "which": nm}, detail=f"{nm}.logd at a fixed point was {before:.12g} and is {now:.12g} after use")

def _compare_forward(ctx, cfg, lib_forward, candidates, inputs, tol=1e-9, what="forward", opnorm=0.0):
    """candidates: [(mechanism or None, F)] - first entry is the documented operator. Returns the operator the
    library agrees with (None if it agrees with none); reports the corresponding violation."""
    outs = []
    for x in inputs:
        kind_, y = core.outcome(lib_forward, x)
        if kind_ != "value":
            ctx.violation("forward_refused", cfg, detail=f"{what} raised {y!r}")
            return None
        outs.append(_arr(y))
    worst = None
    for mech, F in candidates:
        errs = [_relerr(y, F(x), floor=opnorm * float(np.max(np.abs(x)))) for x, y in zip(inputs, outs)]
        ctx.count("forward_vs_reference_checked", len(inputs))
        if max(errs) <= tol:
            if mech is None:
                ctx.note("forward_relerr", max(errs))
            else:
                ctx.violation(mech, cfg, detail=f"{what} equals the '{mech}' variant, not the documented operator (rel err to documented {worst:.3g})")
            return F
        if worst is None:
            worst = max(errs)
    ctx.violation("forward_mismatch", cfg, detail=f"{what} differs from the documented operator: rel err {worst:.3g}")
    return None

# ----------------------------------------------------------------------------- Deconvolution1D

def _run_d1(case, ctx, cuqi, rs):
    legacy = case["kind"] == "d1leg"
    cfg = _cfg(case)
    dim, kind = case["dim"], case["psf"]
    mode = BC1[case["bc"]]
    kwargs = {"dim": dim}
    alternates = []
    if kind.startswith("custom"):
        n = dim if legacy else case["psf_len"]
        Pk = _custom_psf(rs, n, kind.startswith("custom_sym"), negative=kind.endswith("_neg"))
        kwargs["PSF"] = Pk
        A_doc = R.conv1d_matrix(dim, Pk, mode)
        if legacy and kind.startswith("custom_asym"):
            alternates.append(("legacy_custom_psf_correlation", R.corr1d_matrix(dim, Pk, mode)))
    elif legacy:
        kwargs["PSF"] = case["psf_spelled"]
        if case["psf_param"] is not None:
            kwargs["PSF_param"] = case["psf_param"]
        A_doc = R.legacy_matrix(dim, kind, case["psf_param"])
    else:
        size = case["psf_size"]
        kwargs["PSF"] = case["psf_spelled"]
        if size is not None:
            kwargs["PSF_size"] = size
        if case["psf_param"] is not None:
            kwargs["PSF_param"] = case["psf_param"]
        n = dim if size is None else size
        A_doc = R.conv1d_matrix(dim, R.psf_1d(kind, n, case["psf_param"]), mode)
        if kind == "defocus":
            alternates.append(("defocus_psf_off_centre", R.conv1d_matrix(dim, R.psf_1d(kind, n, case["psf_param"], shift=-1), mode)))
    if legacy:
        kwargs["use_legacy"] = True
    else:
        kwargs["BC"] = case["bc_spelled"]
    # phantom
    if case["phantom"] in ("ndarray", "nd_neg", "nd_zero"):
        x_ref = {"ndarray": rs.randn(dim) + 0.3, "nd_neg": -np.abs(rs.randn(dim)) - 0.1, "nd_zero": np.zeros(dim)}[case["phantom"]]
        kwargs["phantom"] = x_ref.copy()
    else:
        x_ref = R.phantom_1d(dim, case["phantom"], case["phantom_param"])
        kwargs["phantom"] = case["phantom_spelled"]
        if case["phantom_param"] is not None:
            kwargs["phantom_param"] = case["phantom_param"]
    kwargs["noise_type"], kwargs["noise_std"] = case["noise_spelled"], case["noise_std"]
    prior, logprior_ref = _make_prior(cuqi, case["prior"], rs, dim)
    if prior is not None:
        kwargs["prior"] = prior
    std = case["noise_std"]
    y_doc = A_doc @ x_ref
    scaled = case["noise"] == "scaledgaussian"
    degenerate = scaled and (_tiny_entries(y_doc) or any(_tiny_entries(A @ x_ref) for _, A in alternates))
    np.random.seed(case["np_seed"])
    with Scripted() as rec:
        kind_, tp = core.outcome(cuqi.testproblem.Deconvolution1D, **kwargs)
    if kind_ != "value":
        if degenerate and kind_ == "refused":
            ctx.refused("scaled noise with a zero exact datum", tp); ctx.count("refusal_observed"); ctx.nontrivial("refusal")
            return
        ctx.violation("constructor_failed", {**cfg, "exc": type(tp).__name__}, detail=f"documented option combination raised {tp!r}")
        return
    # --- forward model vs documented operator
    xs = [rs.randn(dim), rs.randn(dim) * 3 + 1, np.eye(dim)[rs.randint(dim)]]
    cands = [(None, (lambda x, A=A_doc: A @ _arr(x)))] + [(m, (lambda x, A=A: A @ _arr(x))) for m, A in alternates]
    opnorm = float(np.max(np.sum(np.abs(A_doc), axis=1)))
    F_eff = _compare_forward(ctx, cfg, tp.model.forward, cands, xs, opnorm=opnorm)
    # boundary-value classes actually exercised: a PSF sample exactly on the edge of the defocus disc / a sinc zero on a sample
    if not kind.startswith("custom"):
        par = case.get("psf_param")
        if kind == "defocus" and not legacy:
            off = np.array([k - n // 2 for k in range(n)], dtype=float)
            if np.any(off ** 2 == (10 if par is None else par) ** 2):
                ctx.count("psf_tie_cases_checked"); ctx.note("psf_tie", [kind, n, par])
        if legacy and kind in ("sinc", "prolate") and par is not None:
            if any(float(par * d / dim).is_integer() for d in range(1, dim // 2 + 1)):
                ctx.count("psf_tie_cases_checked"); ctx.note("psf_tie", [kind, dim, par])
    if case.get("tie"):
        ctx.count("boundary_value_cases")
    # the stored matrix, entry by entry
    kind_, M = core.outcome(lambda: tp.model.get_matrix())
    if kind_ == "value":
        M = M.toarray() if hasattr(M, "toarray") else np.asarray(M)
        ctx.count("matrix_entries_checked", dim * dim)
        A_eff = A_doc
        if F_eff is not None and alternates and _relerr(M, A_doc) > 1e-9:
            A_eff = alternates[0][1]
        if F_eff is not None and _relerr(M, A_eff) > 1e-9:
            ctx.violation("matrix_mismatch", cfg, detail=f"model.get_matrix() differs from the operator that model.forward applies: rel err {_relerr(M, A_eff):.3g}")
    # --- exact solution is the requested phantom
    ctx.count("exactsolution_checked")
    e = _relerr(tp.exactSolution, x_ref)
    if e > 1e-12:
        ctx.violation("exactsolution_mismatch", {**cfg, "phantom": case["phantom"]}, detail=f"exactSolution differs from the phantom '{case['phantom']}' (param {case['phantom_param']}): rel err {e:.3g}")
    sigma = (lambda y: np.abs(y) * std) if scaled else std
    P = _Problem(tp, cfg, F_eff, sigma, dim, dim, logprior_ref, [rs.randn(dim), _arr(tp.exactSolution) + 0.01 * rs.randn(dim)],
                 info_expect=(case["noise"], std), fun_of_exact=_arr(tp.exactSolution), degenerate_noise=degenerate, opnorm=opnorm)
    _check_noise_and_consistency(ctx, P, rec)
    if case.get("use"):
        _use_history(ctx, tp, cfg, case["use"], P.points, set(USE_OPS))
        P.cfg = {**cfg, "stage": "after_use"}
        _check_noise_and_consistency(ctx, P, rec)
        if F_eff is not None:       # and the operator is still the documented one
            _compare_forward(ctx, P.cfg, tp.model.forward, [(None, F_eff)], xs[:1], opnorm=opnorm)
    if F_eff is not None:
        ctx.nontrivial(f"{cfg['problem']}|{'legacy' if legacy else 'new'}|{kind}|{case['bc']}")

def _run_d1_refusal(case, ctx, cuqi, rs):
    probe, dim = case["probe"], case["dim"]
    kw = {"dim": dim, "use_legacy": True}
    if probe == "bc": kw["BC"] = "zero"
    if probe == "psf_size": kw["PSF_size"] = 5
    kind_, v = core.outcome(cuqi.testproblem.Deconvolution1D, **kw)
    ctx.count("refusal_probe")
    if kind_ == "refused":
        ctx.refused(f"legacy {probe}", v); ctx.count("refusal_observed"); ctx.nontrivial("legacy_refusal")
    elif kind_ == "crashed":
        ctx.violation("crash", {"problem": "Deconvolution1D", "legacy": True, "probe": probe, "exc": type(v).__name__}, detail=repr(v))
    else:
        # accepted: then it has to be the documented operator for the option that was asked for
        x = rs.randn(dim)
        want = "periodic legacy form with an unsupported option"
        ctx.violation("legacy_option_silently_ignored", {"problem": "Deconvolution1D", "legacy": True, "probe": probe},
                      detail=f"{want}: documented to be refused, but a problem was returned (|forward(x)|={np.linalg.norm(v.model.forward(x)):.3g})")

# ----------------------------------------------------------------------------- Deconvolution2D

def _run_d2(case, ctx, cuqi, rs):
    cfg = _cfg(case)
    dim, kind = case["dim"], case["psf"]
    mode = BC2[case["bc"]]
    kwargs = {"dim": dim, "BC": case["bc_spelled"]}
    alternates = []
    if kind.startswith("custom"):
        Pk = _custom_psf(rs, case["psf_len"], kind.startswith("custom_sym"), two_d=True, negative=kind.endswith("_neg"))
        kwargs["PSF"] = Pk
        P_doc = Pk
    else:
        kwargs["PSF"] = case["psf_spelled"]
        size = 21 if case["psf_size"] is None else case["psf_size"]
        param = 2.56 if case["psf_param"] is None else case["psf_param"]
        if case["psf_size"] is not None: kwargs["PSF_size"] = size
        if case["psf_param"] is not None: kwargs["PSF_param"] = param
        P_doc = R.psf_2d(kind, size, param)
        if kind == "defocus":
            alternates.append(("defocus_psf_off_centre", R.psf_2d(kind, size, param, shift=-1)))
    ph = case["phantom"]
    x_ref = None
    if ph == "nd_same":
        X = rs.rand(dim, dim) + 0.1; kwargs["phantom"] = X.copy(); x_ref = X.flatten()
    elif ph == "nd_vec":
        X = rs.rand(dim, dim) + 0.1; kwargs["phantom"] = X.flatten(); x_ref = X.flatten()
    elif ph in ("nd_neg", "nd_zero"):
        X = -np.abs(rs.randn(dim, dim)) - 0.1 if ph == "nd_neg" else np.zeros((dim, dim)); kwargs["phantom"] = X.copy(); x_ref = X.flatten()
    elif ph == "nd_other":
        kwargs["phantom"] = rs.rand(dim + 3, dim + 3) + 0.1
    else:
        kwargs["phantom"] = ph.replace("_", "-") if rs.rand() < 0.5 else ph
        x_ref = _arr(getattr(cuqi.data, ph)(size=dim))
    kwargs["noise_type"], kwargs["noise_std"] = case["noise_spelled"], case["noise_std"]
    prior, logprior_ref = _make_prior(cuqi, case["prior"], rs, dim * dim, geometry=cuqi.geometry.Image2D((dim, dim)))
    if prior is not None:
        kwargs["prior"] = prior
    std, scaled = case["noise_std"], case["noise"] == "scaledgaussian"
    np.random.seed(case["np_seed"])
    with Scripted() as rec:
        kind_, tp = core.outcome(cuqi.testproblem.Deconvolution2D, **kwargs)
    conv = lambda Pm: (lambda x: R.conv2d(_arr(x).reshape(dim, dim), Pm, mode).ravel())
    if kind_ != "value":
        # scaled noise with an exactly zero blurred pixel has zero variance: refusing it is fine
        if scaled and kind_ == "refused":
            y_try = [conv(Pm)(x_ref) for Pm in [P_doc] + [a[1] for a in alternates]] if x_ref is not None else []
            if x_ref is None or any(_tiny_entries(y) for y in y_try):
                ctx.refused("scaled noise with a zero exact datum", tp); ctx.count("refusal_observed"); ctx.nontrivial("refusal")
                return
        ctx.violation("constructor_failed", {**cfg, "exc": type(tp).__name__}, detail=f"documented option combination raised {tp!r}")
        return
    xs = [rs.randn(dim * dim), rs.rand(dim * dim) * 2 + 1, np.eye(dim * dim)[rs.randint(dim * dim)]]
    cands = [(None, conv(P_doc))] + [(m, conv(Pm)) for m, Pm in alternates]
    opnorm = float(np.sum(np.abs(P_doc)))
    F_eff = _compare_forward(ctx, cfg, tp.model.forward, cands, xs, tol=1e-9, opnorm=opnorm)
    if kind == "defocus":
        off = np.array([k - size // 2 for k in range(size)], dtype=float)
        on_edge = int(np.sum((off[:, None] ** 2 + off[None, :] ** 2) == param ** 2))
        if on_edge:
            ctx.count("psf_tie_cases_checked"); ctx.count("psf_tie_cases_2d_checked"); ctx.count("psf_tie_pixels_on_disc_edge", on_edge)
            ctx.note("psf_tie", [kind, size, param, on_edge])
    if case.get("tie"):
        ctx.count("boundary_value_cases")
    # the PSF the problem reports is the one it applies
    Pm = (tp.Miscellaneous or {}).get("PSF") if hasattr(tp, "Miscellaneous") else None
    if F_eff is not None and Pm is not None:
        ctx.count("reported_psf_checked")
        if _relerr(conv(np.asarray(Pm, float))(xs[0]), F_eff(xs[0])) > 1e-9:
            ctx.violation("reported_psf_mismatch", cfg, detail="Miscellaneous['PSF'] is not the PSF that model.forward applies")
    # adjoint where the flipped-PSF construction is exact (odd PSF, zero / periodic extension): transpose of the reference
    if F_eff is not None and cfg["psf_parity"] == "odd" and mode in ("constant", "wrap"):
        P_eff = P_doc if F_eff is cands[0][1] else alternates[0][1]
        yv = rs.randn(dim * dim)
        kind_, adj = core.outcome(tp.model.adjoint, yv)
        ctx.count("adjoint_vs_reference_checked")
        if kind_ != "value":
            ctx.violation("adjoint_refused", cfg, detail=repr(adj))
        elif _relerr(adj, R.corr2d(yv.reshape(dim, dim), P_eff, mode).ravel()) > 1e-9:
            ctx.violation("adjoint_mismatch", cfg, detail="model.adjoint differs from the transpose of the reference convolution (odd PSF, zero/periodic extension)")
    ctx.count("exactsolution_checked")
    if _arr(tp.exactSolution).size != dim * dim:
        ctx.violation("exactsolution_mismatch", {**cfg, "phantom": ph}, detail=f"exactSolution has {_arr(tp.exactSolution).size} entries, expected {dim*dim}")
    elif x_ref is not None and _relerr(tp.exactSolution, x_ref) > 1e-9:
        ctx.violation("exactsolution_mismatch", {**cfg, "phantom": ph}, detail=f"exactSolution differs from the phantom: rel err {_relerr(tp.exactSolution, x_ref):.3g}")
    y_exact = _arr(tp.exactData)
    degenerate = scaled and (_tiny_entries(y_exact) or (F_eff is not None and _tiny_entries(F_eff(_arr(tp.exactSolution)))))
    sigma = (lambda y: np.abs(y) * std) if scaled else std
    P = _Problem(tp, cfg, F_eff, sigma, dim * dim, dim * dim, logprior_ref, [rs.randn(dim * dim), _arr(tp.exactSolution) + 0.01 * rs.randn(dim * dim)],
                 info_expect=(case["noise"], std), fun_of_exact=_arr(tp.exactSolution), degenerate_noise=degenerate, opnorm=opnorm)
    _check_noise_and_consistency(ctx, P, rec)
    if case.get("use"):
        allow = {"forward_exact", "logd", "gradient"} | ({"MAP", "ML"} if dim <= 10 else set()) | ({"sample", "sample_exp"} if dim <= 6 else set())
        _use_history(ctx, tp, cfg, case["use"], P.points, allow)
        P.cfg = {**cfg, "stage": "after_use"}
        _check_noise_and_consistency(ctx, P, rec)
        if F_eff is not None:
            _compare_forward(ctx, P.cfg, tp.model.forward, [(None, F_eff)], xs[:1], tol=1e-9, opnorm=opnorm)
    if F_eff is not None:
        ctx.nontrivial(f"Deconvolution2D|{kind}|{case['bc']}|{cfg['psf_parity']}")

# ----------------------------------------------------------------------------- PDE / Abel problems

def _obs_positions(rule, n):
    """observation points as [(k, half)]: node k of the solution grid or the mid-point of nodes k, k+1 - in the order given (n >= 6)"""
    N = lambda ks: [(int(k), False) for k in ks]
    if rule is None or rule == "full": return N(range(n))
    if rule == "every2": return N(range(0, n, 2))
    if rule == "every3from1": return N(range(1, n, 3))
    if rule == "upper": return N(range(n // 2, n))
    if rule == "three": return N(sorted({1, n // 2, n - 2}))
    if rule == "perm": return N([n - 2, 1, n // 2, 0])                      # nodes in an order that is not increasing
    if rule == "reversed": return N(range(n - 1, n - 1 - max(3, n // 2), -1))
    if rule == "full_reversed": return N(range(n - 1, -1, -1))
    if rule == "repeat": return N([1, 1, n // 2, n - 2, n - 2])             # repeated nodes, non-decreasing
    if rule == "repeat_perm": return N([n // 2, 1, n // 2])
    if rule == "mid": return [(k, True) for k in range(0, n - 1, 2)]        # off-node points
    if rule == "mixed": return [(1, False), (2, True), (n - 2, False), (n - 2, True)]
    if rule == "mixed_perm": return [(n - 2, False), (2, True), (1, False)]
    if rule == "lead1": return N(range(1))                                 # leading segments g[:k] / g[g<c]
    if rule == "lead2": return N(range(2))
    if rule in ("lead_half", "lead_lt"): return N(range(n // 2))
    if rule == "lead_nm1": return N(range(n - 1))
    if rule == "trail2": return N(range(n - 2, n))                          # trailing counterparts g[-k:]
    if rule == "trail_half": return N(range(n - n // 2, n))
    if rule == "single": return [(n // 2, False)]
    if rule == "single_mid": return [(n // 2, True)]
    raise ValueError(rule)

def _obs_lambda(rule):
    if rule is None: return None
    if rule == "full": return lambda g: g.copy()
    if rule == "lead_lt": return lambda g: g[g < (g[len(g) // 2 - 1] + g[len(g) // 2]) / 2]      # threshold in the middle of a cell
    if rule == "lead1": return lambda g: g[:1]
    if rule == "lead2": return lambda g: g[:2]
    if rule == "lead_half": return lambda g: g[:len(g) // 2]
    if rule == "lead_nm1": return lambda g: g[:-1]
    if rule == "trail2": return lambda g: g[-2:]
    if rule == "trail_half": return lambda g: g[-(len(g) // 2):]
    return lambda g: R.obs_points(g, _obs_positions(rule, len(g)))

def _geomobj(cuqi, grid, npar, bseed):
    B = np.random.RandomState(bseed).rand(len(grid), npar) + 0.1
    class HarnessField(cuqi.geometry.Continuous1D):
        def __init__(self, grid):
            super().__init__(grid)
            self.calls = 0
        @property
        def par_shape(self):
            return (npar,)
        def par2fun(self, p):
            self.calls += 1
            return B @ np.asarray(p, float)
    return HarnessField(grid), B

def _field(cuqi, case, grid_len, grid_for_obj):
    """returns (field_type argument, field_params argument, par_dim, reference par2fun or None (=ask the library geometry))"""
    f, fp = case["field"], dict(case["field_params"])
    if f == "none":
        return None, None, grid_len, (lambda p: _arr(p))
    if f in ("KL", "KL_modes"):
        pdim = min(fp.get("num_modes", grid_len), grid_len)
        return "KL", fp, pdim, (lambda p: R.kl_par2fun(_arr(p), grid_len, fp.get("decay_rate", 2.5), fp.get("normalizer", 12.0), fp.get("num_modes")))
    if f == "KL_Full":
        std, cor, nu = fp.get("std", 1.0), fp.get("cor_len", 0.2), fp.get("nu", 3.0)
        def ref(p):
            tau, gam = 1.0 / cor ** 2, nu + 1.0
            coef = np.array([tau ** gam / (tau + i ** 2) ** gam for i in range(grid_len)]) * _arr(p)
            out = np.zeros(grid_len)
            for K in range(grid_len):
                s = sum(coef[i] * math.sin(math.pi / grid_len * (i + 1) * (K + 0.5)) for i in range(grid_len - 1))
                out[K] = std ** 2 / math.pi * (s + (-1) ** K / 2 * coef[grid_len - 1])
            return out
        return "KL_Full", fp, grid_len, ref
    if f == "Step":
        k = fp["n_steps"]
        return "Step", fp, k, (lambda p: R.step_par2fun(_arr(p), grid_len, k))
    if f == "CustomKL":
        cor = fp.pop("cor")
        fp["cov_func"] = lambda x, y: math.exp(-abs(x - y) / cor)
        return "CustomKL", fp, fp["trunc_term"], None
    if f == "geomobj":
        g, B = _geomobj(cuqi, grid_for_obj, fp["npar"], fp["bseed"])
        return g, None, fp["npar"], (lambda p: B @ _arr(p))
    raise ValueError(f)

def _inner_geometry(g):
    return g.geometry if type(g).__name__ == "MappedGeometry" else g

def _run_pde(case, ctx, cuqi, rs):
    cfg = _cfg(case)
    prob, dim, L, snr = case["kind"], case["dim"], case["endpoint"], case["snr"]
    mp = case.get("map")
    fmap, imap = R.MAPS[mp]
    kwargs = {"dim": dim, "endpoint": L, "SNR": snr}
    src_calls = []
    if prob == "heat":
        dx, _, grid_dom = R.heat_setup(dim, L, 1.0)
        max_time = (case["steps"] + 0.5) * 5 / 11 * dx ** 2
        kwargs["max_time"] = max_time
        n_dom, n_sol = dim, dim
        solve = lambda f: R.heat_forward(f, dim, L, max_time)
        grid_obj = np.linspace(dx, L, dim, endpoint=False)
        default_exact = lambda g: g * np.exp(-2 * g) * np.sin(L - g)
    elif prob == "poisson":
        dx, grid_dom, grid_sol, grid_src = R.poisson_grids(dim, L)
        n_dom, n_sol = dim, dim - 1
        srcs = {"default": R.default_source, "recorded_default": R.default_source,
                "poly": lambda xs: 1.0 + xs ** 2, "sin": lambda xs: 2.0 + np.sin(3 * xs)}
        sfun = srcs[case["source"]]
        if case["source"] != "default":
            def recorded(xs, f=sfun):
                src_calls.append(np.array(xs, dtype=float))
                return f(xs)
            kwargs["source"] = recorded
        rhs = sfun(grid_src)
        conds = []
        def solve(f):
            u, res, cond = R.poisson_forward(_arr(f), dim, L, rhs)
            conds.append(cond)
            return u
        grid_obj = grid_dom
        default_exact = lambda g: np.exp(5 * g * np.exp(-2 * g) * np.sin(L - g))
    else:
        A_ref = R.abel_matrix(dim, L)
        n_dom, n_sol = dim, dim
        solve = lambda f: A_ref @ _arr(f)
        grid_obj = np.linspace(0, L, dim)
    ftype, fparams, pdim, par2fun_ref = _field(cuqi, case, n_dom, grid_obj)
    if ftype is not None: kwargs["field_type"] = ftype
    if fparams: kwargs["field_params"] = fparams
    if fmap is not None:
        if prob == "abel":
            kwargs["KL_map"] = fmap
            if imap is not None: kwargs["KL_imap"] = imap
        else:
            kwargs["map"] = fmap
            if imap is not None: kwargs["imap"] = imap
    obs = case.get("obs")
    if obs is not None:
        kwargs["observation_grid_map"] = _obs_lambda(obs)
    opos = _obs_positions(obs, n_sol)
    all_nodes = not any(h for _, h in opos)
    obs_kind = "steady" if prob == "poisson" else "heat"
    obs_grid_ref = None     # set below per problem (reference solution grid)
    exact_given = None
    if case.get("exact") is not None:
        exact_given = {"ndarray": np.exp(0.3 * rs.randn(n_dom)) if prob == "poisson" else rs.randn(n_dom), "zeros": np.zeros(n_dom),
                       "ones": np.ones(n_dom), "neg": -np.exp(0.3 * rs.randn(n_dom))}[case["exact"]]
        kwargs["exactSolution"] = exact_given.copy()
    cls = {"heat": cuqi.testproblem.Heat1D, "poisson": cuqi.testproblem.Poisson1D, "abel": cuqi.testproblem.Abel1D}[prob]
    np.random.seed(case["np_seed"])
    with Scripted() as rec:
        kind_, tp = core.outcome(cls, **kwargs)
    if kind_ == "refused" and prob == "heat" and obs in OBS_NONMONOTONE and isinstance(tp, ValueError):
        # the time-dependent observation refuses observation points that are not in increasing order
        ctx.refused("heat observation grid not increasing", tp); ctx.count("refusal_observed"); ctx.nontrivial("heat_obs_refusal")
        return
    if kind_ != "value":
        ctx.violation("constructor_failed", {**cfg, "exc": type(tp).__name__}, detail=f"documented option combination raised {tp!r}")
        return
    if par2fun_ref is None:       # CustomKL: the library's own (unmapped) field
        inner = _inner_geometry(tp.model.domain_geometry)
        par2fun_ref = lambda p: _arr(inner.par2fun(_arr(p)))
        ctx.count("field_taken_from_library")
    field_ref = lambda p: R.apply_map(mp, par2fun_ref(p))
    obs_grid_ref = grid_dom if prob == "heat" else (grid_sol if prob == "poisson" else np.arange(n_sol, dtype=float))
    F_fun = lambda f: R.observe(obs_grid_ref, solve(f), opos, obs_kind)
    F_par = lambda p: F_fun(field_ref(p))
    # parameter points (Poisson needs a positive conductivity)
    def point():
        if prob == "poisson" and case["field"] in ("none", "Step"):
            return np.exp(0.4 * rs.randn(pdim))
        if case["field"] == "geomobj":
            return 0.5 * rs.randn(pdim) if mp == "exp" else rs.rand(pdim) + 0.2
        return rs.randn(pdim)
    pts = [point(), point()]
    fvals = [np.exp(0.3 * rs.randn(n_dom)) if prob == "poisson" else rs.randn(n_dom)]
    tol = 1e-8
    if prob == "poisson":       # well-posedness of the reference system at the probe points
        for p_ in pts:
            F_par(p_)
        F_fun(_arr(tp.exactSolution))
        if max(conds) > 1e8 or not np.all(np.isfinite(conds)):
            ctx.inconclusive(f"reference Poisson system ill-conditioned ({max(conds):.3g})")
            return
    F_eff = _compare_forward(ctx, cfg, tp.model.forward, [(None, F_par)], pts, tol=tol)
    # function values as input
    ok_fun = _compare_forward(ctx, {**cfg, "input": "funvals"}, lambda f: tp.model.forward(f, is_par=False), [(None, F_fun)], fvals, tol=tol,
                              what="forward(funvals, is_par=False)")
    if obs is not None:         # which observation-map classes the forward comparison actually covered
        ctx.count("observation_map_cases_checked")
        ctx.count("observation_points_checked", len(opos) * (len(pts) + len(fvals)))
        if obs in OBS_NONMONOTONE: ctx.count("observation_nonmonotone_checked")
        if not all_nodes: ctx.count("observation_offnode_checked")
        if len(opos) != len({p_ for p_ in opos}): ctx.count("observation_repeated_point_checked")
        if len(opos) == 1: ctx.count("observation_single_point_checked")
        if obs in OBS_LEADING or obs == "reversed": ctx.count("observation_leading_segment_checked")
    # lengths: forward output, exactData and data all have the size of the range geometry (= number of observation points)
    ctx.count("observation_length_checked")
    vec = lambda a: int(np.shape(a)[0]) if np.ndim(a) == 1 else -1 - int(np.ndim(a))      # a vector of that length, nothing else
    lens = {"range_geometry.par_dim": int(tp.model.range_geometry.par_dim), "model.range_dim": int(tp.model.range_dim),
            "exactData": vec(tp.exactData), "data": vec(tp.data)}
    for nm_, x_, kw_ in (("forward(par)", pts[0], {}), ("forward(funvals)", fvals[0], {"is_par": False})):
        k2, y2 = core.outcome(tp.model.forward, x_, refusal=core.REFUSAL_TYPES_BROAD, **kw_)
        lens[nm_] = vec(y2) if k2 == "value" else -1
    if any(v != len(opos) for v in lens.values()):
        ctx.violation("observation_length_mismatch", cfg, detail=f"{len(opos)} observation points, but the vector lengths are {lens} (negative: not a vector, -1-ndim)")
    if prob == "abel" and case["field"] == "none" and mp is None:
        M = np.asarray(tp.model.get_matrix())
        ctx.count("matrix_entries_checked", dim * dim)
        if M.shape != A_ref.shape or _relerr(M, A_ref) > 1e-12:
            ctx.violation("matrix_mismatch", cfg, detail=f"stored Abel matrix differs from the quadrature formula: rel err {_relerr(M, A_ref):.3g}")
    # Poisson: the source term is sampled where the solution is reported
    if prob == "poisson":
        rgrid = _arr(tp.model.range_geometry.grid)
        ctx.count("range_grid_checked")
        if _relerr(rgrid, R.obs_points(grid_sol, opos)) > 1e-12 and _relerr(rgrid, R.obs_points(grid_src, opos)) > 1e-12:
            ctx.violation("range_grid_mismatch", cfg, detail="range geometry grid is not the (observed part of the) solution grid")
        if src_calls:
            ctx.count("source_grid_checked")
            full = _arr(tp.model.pde.grid_sol)
            if src_calls[0].shape != full.shape or np.max(np.abs(src_calls[0] - full)) > 1e-12 * max(1.0, L):
                ctx.violation("poisson_source_grid_mismatch", cfg,
                              detail=f"source evaluated at nodes {src_calls[0][:3]}..., solution reported on nodes {full[:3]}... (endpoint {L})")
    if prob == "heat":
        rgrid = _arr(tp.model.range_geometry.grid)
        ctx.count("range_grid_checked")
        if _relerr(rgrid, R.obs_points(grid_dom, opos)) > 1e-12:
            ctx.violation("range_grid_mismatch", cfg, detail="range geometry grid is not the (observed part of the) solution grid")
    # exact solution
    ctx.count("exactsolution_checked")
    xs_lib = _arr(tp.exactSolution)
    if exact_given is not None:
        want = exact_given
    elif prob == "abel":
        want = R.abel_exact_solution(dim, L)
    elif prob == "heat" and case["field"] == "Step":
        want = R.apply_map(mp, par2fun_ref(np.arange(pdim, dtype=float)))
    else:
        want = default_exact(grid_dom)
    if _relerr(xs_lib, want) > 1e-10:
        ctx.violation("exactsolution_mismatch", cfg, detail=f"exactSolution differs from the documented one: rel err {_relerr(xs_lib, want):.3g}")
    if getattr(tp.exactSolution, "is_par", None) is not False:
        ctx.violation("exactsolution_mismatch", {**cfg, "what": "is_par"}, detail="exactSolution (function values) is flagged as parameters")
    sigma = lambda y: float(np.linalg.norm(y)) / snr
    P = _Problem(tp, cfg, (F_par if F_eff is not None else None), sigma, len(opos), pdim, (lambda x: R.gauss_logpdf_diag(x, 0.0, 1.0)), pts,
                 info_expect=(("signal to noise ratio", snr) if prob == "heat" else None),
                 fun_of_exact=None, exact_tol=tol)
    # exact data = model applied to the exact solution (function values)
    if ok_fun is not None:
        ctx.count("exactdata_checked")
        e = _relerr(tp.exactData, F_fun(xs_lib))
        if e > tol:
            ctx.violation("exactdata_mismatch", cfg, detail=f"exactData differs from reference model(exactSolution): rel err {e:.3g}")
    _check_noise_and_consistency(ctx, P, rec)
    if case.get("use"):
        allow = {"forward_exact", "logd", "gradient"} | (set(USE_OPS) if (prob == "abel" or pdim <= 8) else set())
        exact_before = np.array(xs_lib, copy=True)
        _use_history(ctx, tp, cfg, case["use"], pts, allow, is_fun_exact=True)
        P.cfg = {**cfg, "stage": "after_use"}
        _check_noise_and_consistency(ctx, P, rec)
        if F_eff is not None:
            _compare_forward(ctx, P.cfg, tp.model.forward, [(None, F_par)], pts[:1], tol=tol)
        if ok_fun is not None:
            ctx.count("exactdata_checked")
            e = _relerr(tp.exactData, F_fun(exact_before))
            if e > tol:
                ctx.violation("exactdata_mismatch", P.cfg, detail=f"after use: exactData differs from reference model(exactSolution): rel err {e:.3g}")
    if F_eff is not None and ok_fun is not None:
        ctx.nontrivial(f"{cfg['problem']}|{case['field']}|{mp}|{obs}")

# ----------------------------------------------------------------------------- WangCubic

def _run_wang(case, ctx, cuqi, rs):
    cfg = {"problem": "WangCubic", "prior": case["prior"] or "default"}
    kwargs = {}
    std = 1 if case["noise_std"] is None else case["noise_std"]
    if case["noise_std"] is not None: kwargs["noise_std"] = case["noise_std"]
    if case["data"] is not None: kwargs["data"] = np.zeros(1) if case["data"] == "zeros1" else case["data"]
    data_ref = 1 if case["data"] is None else (0.0 if case["data"] == "zeros1" else case["data"])
    cfg["data"] = "default" if case["data"] is None else ("falsy" if not data_ref else "given")
    if case["prior"] == "gauss":
        prior, logprior_ref = _make_prior(cuqi, "gauss", rs, 2)
        kwargs["prior"] = prior
    else:
        logprior_ref = lambda x: R.gauss_logpdf_diag(x, np.array([1.0, 0.0]), 1.0)
    kind_, tp = core.outcome(cuqi.testproblem.WangCubic, **kwargs)
    if kind_ != "value":
        ctx.violation("constructor_failed", {**cfg, "exc": type(tp).__name__}, detail=repr(tp)); return
    pts = [rs.randn(2), rs.randn(2) * 2, np.array([0.7, 1.3])]
    F_eff = _compare_forward(ctx, cfg, tp.model.forward, [(None, lambda x: np.array([R.wang_forward(_arr(x))]))], pts)
    for x in pts:
        d = rs.randn(1)
        kind_, g = core.outcome(tp.model.gradient, d, x)
        ctx.count("jacobian_checked")
        if kind_ != "value" or _relerr(g, R.wang_jacobian(x).T @ d) > 1e-10:
            ctx.violation("jacobian_mismatch", cfg, detail=f"model.gradient(d, x) = {g!r}, J^T d = {R.wang_jacobian(x).T @ d}")
    def monitors(cfg):
        ctx.count("exactdata_checked")
        if _scalar(tp.data) != float(data_ref) or tp.exactSolution is not None or tp.exactData is not None:
            ctx.violation("data_mismatch", cfg, detail=f"data {tp.data!r} (asked {data_ref}), exactSolution {tp.exactSolution!r}, exactData {tp.exactData!r}")
        ctx.count("infostring_checked")
        nums = re.findall(r"[-+]?\d*\.?\d+(?:[eE][-+]?\d+)?", str(tp.infoString).split(":")[-1])
        if "gaussian" not in str(tp.infoString).lower() or not nums or abs(float(nums[-1]) - std) > 1e-12:
            ctx.violation("infostring_mismatch", cfg, detail=f"infoString {tp.infoString!r} vs std {std}")
        ctx.count("components_identity_checked")
        m, dte, info = tp.get_components()
        if m is not tp.model or dte is not tp.data or tp.posterior.likelihood is not tp.likelihood or tp.posterior.prior is not tp.prior \
                or tp.likelihood.model is not tp.model or tp.model.domain_dim != 2 or tp.model.range_dim != 1 or tp.posterior.dim != 2:
            ctx.violation("components_identity", cfg, detail="get_components / posterior / likelihood do not refer to the same objects")
        if F_eff is None:
            return
        for x in pts:
            ll_ref = R.gauss_logpdf_diag(np.array([float(data_ref)]), np.array([R.wang_forward(x)]), float(std))
            lp_ref = logprior_ref(x)
            ctx.count("likelihood_logd_checked"); ctx.count("prior_logd_checked"); ctx.count("posterior_logd_checked")
            got = (_scalar(tp.likelihood.logd(x)), _scalar(tp.prior.logd(x)), _scalar(tp.posterior.logd(x)))
            want = (ll_ref, lp_ref, ll_ref + lp_ref)
            for nm, g, w in zip(("likelihood", "prior", "posterior"), got, want):
                if not abs(g - w) <= 1e-9 * (abs(w) + abs(ll_ref) + 1):
                    ctx.violation(f"{nm}_logd_mismatch", cfg, detail=f"{nm}.logd({x.tolist()}) = {g:.12g}, reference {w:.12g}")
    monitors(cfg)
    if F_eff is not None and case.get("use"):
        _use_history(ctx, tp, cfg, case["use"], pts, set(USE_OPS))
        monitors({**cfg, "stage": "after_use"})
        _compare_forward(ctx, {**cfg, "stage": "after_use"}, tp.model.forward, [(None, lambda x: np.array([R.wang_forward(_arr(x))]))], pts[:1])
    if F_eff is None:
        return
    ctx.nontrivial(f"WangCubic|{case['prior']}|{case['noise_std'] is None}|{case['data'] is None}")

# ----------------------------------------------------------------------------- pooled noise statistics

def _noise_stat_once(cuqi, fam, dim, level, reps, rs):
    from scipy import stats
    T = cuqi.testproblem
    pooled = []
    for _ in range(reps):
        np.random.seed(int(rs.randint(2 ** 31)))
        ph = np.exp(0.5 * rs.randn(dim)) + 0.5
        if fam == "d1_gaussian":
            tp = T.Deconvolution1D(dim=dim, PSF_size=5, PSF_param=1.5, BC="reflect", phantom=ph, noise_std=level); s = level
        elif fam == "d1_scaled":
            tp = T.Deconvolution1D(dim=dim, PSF_size=5, PSF_param=1.5, BC="reflect", phantom=ph, noise_type="scaledGaussian", noise_std=level); s = None
        elif fam == "d1_legacy":
            tp = T.Deconvolution1D(dim=dim + dim % 2, phantom=np.resize(ph, dim + dim % 2), noise_std=level, use_legacy=True); s = level
        elif fam in ("d2_gaussian", "d2_scaled"):
            X = np.exp(0.5 * rs.randn(dim, dim)) + 0.5
            tp = T.Deconvolution2D(dim=dim, PSF_size=3, PSF_param=1.0, BC="Neumann", phantom=X,
                                   noise_type="gaussian" if fam == "d2_gaussian" else "scaledgaussian", noise_std=level)
            s = level if fam == "d2_gaussian" else None
        elif fam == "heat":
            tp = T.Heat1D(dim=dim, max_time=0.01, SNR=level, exactSolution=ph); s = "snr"
        elif fam == "poisson":
            tp = T.Poisson1D(dim=dim, SNR=level, exactSolution=np.exp(0.3 * rs.randn(dim))); s = "snr"
        else:
            tp = T.Abel1D(dim=dim, SNR=level); s = "snr"
        y = _arr(tp.exactData)
        sig = np.abs(y) * level if s is None else (np.linalg.norm(y) / level if s == "snr" else s)
        pooled.append((_arr(tp.data) - y) / sig)
    z = np.concatenate(pooled)
    n = z.size
    ss = float(np.sum(z ** 2))
    p_chi = 2 * min(stats.chi2.cdf(ss, n), stats.chi2.sf(ss, n))
    p_mean = 2 * stats.norm.sf(abs(float(np.mean(z))) * math.sqrt(n))
    p_ks = stats.kstest(z, "norm").pvalue
    return n, ss / n, float(np.mean(z)), p_chi, p_mean, p_ks

def _run_noise_stat(case, ctx, cuqi, rs):
    fam = case["family"]
    cfg = {"problem": fam}
    n, var, mean, p_chi, p_mean, p_ks = _noise_stat_once(cuqi, fam, case["dim"], case["level"], case["reps"], rs)
    ctx.count("noise_stat_pooled_samples", n)
    ctx.count("noise_stat_tests", 3)
    ctx.note("stage1", [n, var, mean, p_chi, p_mean, p_ks])
    if min(p_chi, p_mean, p_ks) < 1e-7:
        n2, var2, mean2, q_chi, q_mean, q_ks = _noise_stat_once(cuqi, fam, case["dim"], case["level"], 4 * case["reps"], rs)
        ctx.count("noise_stat_second_stage")
        ctx.count("noise_stat_pooled_samples", n2)
        same_dir = (p_chi < 1e-7 and q_chi < 1e-7 and (var - 1) * (var2 - 1) > 0) or (p_mean < 1e-7 and q_mean < 1e-7 and mean * mean2 > 0) \
            or (p_ks < 1e-7 and q_ks < 1e-7)
        if same_dir:
            ctx.violation("noise_law_mismatch", cfg, detail=f"standardised residual (data-exactData)/stated std: n={n2} mean={mean2:.4g} var={var2:.4g} "
                          f"p_chi2={q_chi:.3g} p_mean={q_mean:.3g} p_ks={q_ks:.3g} (first stage var={var:.4g}, mean={mean:.4g})")
    ctx.nontrivial(f"noise_stat|{fam}")

# ----------------------------------------------------------------------------- entry points

def run_case(case, ctx):
    import cuqi
    rs = core.np_rng(ctx.seed, PROPERTY, core.canon(case))
    kind = case["kind"]
    if kind in ("d1", "d1leg"):
        _run_d1(case, ctx, cuqi, rs)
    elif kind == "d1leg_refusal":
        _run_d1_refusal(case, ctx, cuqi, rs)
    elif kind == "d2":
        _run_d2(case, ctx, cuqi, rs)
    elif kind in ("heat", "poisson", "abel"):
        _run_pde(case, ctx, cuqi, rs)
    elif kind == "wang":
        _run_wang(case, ctx, cuqi, rs)
    elif kind == "noise_stat":
        _run_noise_stat(case, ctx, cuqi, rs)
    else:
        raise ValueError(kind)

def selftest(ctx):
    for msg in R.selftest():
        ctx.inconclusive("reference self-test: " + msg)
