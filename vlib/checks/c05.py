"""C05 - direct samples follow the distribution's own density and the given random stream.

Workload: every samplable family (Gaussian in all four matrix parameterisations x scalar / vector /
diagonal / full / lower / upper / symmetric / non-symmetric x dense / csr / dia x dimensions on both
sides of the dense/sparse switch, GMRF for every bc x order x 1D/2D, Lognormal, Normal, Gamma,
InverseGamma, Beta, Laplace, Uniform, Cauchy, ModifiedHalfNormal (public sampler and the three
rejection regimes of _MHN_sample), UserDefinedDistribution, the gallery Gaussian), N in {1,2,7,..},
rng=RandomState / scripted generator / global stream, conditional variants.

Monitors (all observe real executions of core.REPO):
 (a) scripted stream: the sampler's affine map  sample = m + B e  is read off with e = 0, e_i through
     `rng=` *and* through the global numpy API; B B^T is compared with the covariance implied by the
     Hessian of the same object's log-density (exact second differences of logd), on the range of
     that precision; m must be a stationary point of logd; a recorded real stream must reproduce
     sample == m + B e for N = 1, 2, 7.
 (b) same generator state twice => identical arrays; other state => other arrays; the generator is
     consumed; np.random.get_state() is unchanged by a call with rng=; the draws of one call differ.
 (c) N = 1 -> CUQIarray with the distribution's geometry and shape (dim,), N > 1 -> Samples with
     shape (dim, N); values equal to what _sample returned.
 (d) a distribution with an unspecified conditioning variable raises ValueError before _sample is
     entered; after conditioning it samples exactly like the directly built distribution.
 (e) statistical, two-stage (p < 1e-7, then 4x the draws with fresh randomness, same direction):
     per-coordinate KS against the CDF obtained by quadrature of the object's own log-density,
     mean / variance z-tests, rank correlation between coordinates and between consecutive draws,
     support membership.  ModifiedHalfNormal: the arguments handed to the rejection sampler are
     compared with the constructor's, and _MHN_sample is driven directly in every regime (observed
     by wrapping the three proposal routines) against the documented density.
 (f) history: after the public parameters of an object that has already been sampled from are
     re-assigned, monitor (a) is repeated on the same object (Gaussian types); the other families
     must draw exactly like a freshly built object under the same generator state (else (e)).
     The branch taken without rng= must give the same draws as rng=RandomState(s) after
     np.random.seed(s) (else (e) on that branch).
 (g) memory layout / views: dense matrices and vectors are handed over C-ordered, Fortran-ordered, as
     transposed views, as non-contiguous slices of larger arrays and read-only; starting from a
     never-sampled object: draw, then logd at fixed points, the object's parameter arrays, the
     caller's arrays (bitwise, also at the end of the case) and a second draw from the same
     generator state must be unchanged.
 (h) dimension known only after conditioning: a location / scale parameter is a callable of conditioning
     variables, all other parameters are scalars, no geometry; conditioned (one step / two steps, keyword /
     positional, vector first or last) on vectors of length 1, 2, 5, 80.  The conditioned object must report
     that dimension, draw exactly like the directly built distribution under the same generator state, have
     logd equal to the no-cuqi reference of the fully specified distribution, and pass (a) (covariance incl.
     off-diagonals, also against the direct object's affine map) or (e); forms whose dimension can never be
     inferred must refuse consistently.
"""
import math
import numpy as np
from vlib import core
from vlib.refs import c05_laws as L
from vlib.refs import c04_densities as C4
from vlib.rngscript import Scripted, ScriptedRNG
from vlib.contracts import ensure, ContractLog

PROPERTY = "C05"
RULE = ("enumeration of (family, parameterisation, matrix structure, storage, dimension class, bc, order, physical dim, "
        "rejection regime) with seeded parameter values; a case is non-trivial when the deciding monitor compared "
        "something: the read-off affine map against the Hessian of the object's own logd (Gaussian types), a KS / moment "
        "test on >= 2.5e4 draws against the quadrature CDF of the object's own logd (other families), or an observed "
        "refusal with _sample not entered (conditionals); distinct = distinct descriptors")
ASSUMPTIONS = ["coordinates of the univariate families (Normal, Gamma, InverseGamma, Beta, Laplace, Uniform, Cauchy, MHN) are "
               "documented as independent, so the marginal law of coordinate i is the normalised slice of the object's own "
               "joint logd through a fixed interior point (independence itself is monitored by a rank-correlation test)",
               "for Gaussian-type families logd is quadratic, so second differences of logd give its Hessian exactly",
               "directions in the null space of an improper (intrinsic GMRF) precision are not judged",
               "where the normalised logpdf is refused (sparse matrices without cholmod) the un-normalised _logupdf that "
               "logpdf itself is built from is used as the object's density"]
NS_STAT = {"quick": 25000, "thorough": 1000000}
N_KNOTS = {"quick": 300, "thorough": 600}
REQUIRED_COUNTERS = {
    "quick": {"affine_map_read": 250, "cov_vs_logd_hessian_checked": 170, "mode_checked": 170, "stream_replay_checked": 750,
              "rng_reproducible_checked": 100, "global_state_checked": 100, "draws_distinct_checked": 100, "wrapper_shape_checked": 300,
              "ks_tests": 20, "moment_tests": 35, "independence_tests": 30, "conditional_refusal_checked": 15, "mhn_regime_draws": 150000,
              "history_reassign_checked": 90, "global_branch_checked": 8, "first_draw_history_checked": 120,
              "density_after_draw_checked": 240, "parameters_after_draw_checked": 450, "caller_arrays_checked": 500,
              "latedim_conditioned_checked": 60, "latedim_logpdf_ref_checked": 180, "latedim_cov_offdiag_checked": 20, "latedim_refusals_checked": 3},
    "thorough": {"affine_map_read": 580, "cov_vs_logd_hessian_checked": 380, "mode_checked": 380, "stream_replay_checked": 1700,
                 "rng_reproducible_checked": 210, "global_state_checked": 200, "draws_distinct_checked": 200, "wrapper_shape_checked": 620,
                 "ks_tests": 45, "moment_tests": 75, "independence_tests": 60, "conditional_refusal_checked": 15, "mhn_regime_draws": 4000000,
                 "history_reassign_checked": 200, "global_branch_checked": 15, "first_draw_history_checked": 250,
                 "density_after_draw_checked": 500, "parameters_after_draw_checked": 900, "caller_arrays_checked": 1000,
                 "latedim_conditioned_checked": 150, "latedim_logpdf_ref_checked": 450, "latedim_cov_offdiag_checked": 50, "latedim_refusals_checked": 3}}
BUDGET_S = {"quick": 240.0, "thorough": 2400.0}

P_STAT = 1e-7

# =========================================================================== case generation

def _gauss_forms():
    out = []
    for form in ("cov", "prec"):
        out += [(form, s, "dense") for s in ("scalar", "vector", "diag", "full")]
        out += [(form, s, "sparse") for s in ("diag", "full")]
    for form in ("sqrtcov", "sqrtprec"):
        out += [(form, s, "dense") for s in ("scalar", "vector", "diag", "lower", "upper", "symmetric", "nonsymmetric")]
        out += [(form, s, "sparse") for s in ("diag", "lower", "upper", "symmetric", "nonsymmetric")]
    out.append(("sqrtprec", "diag", "dia"))
    # banded matrices stored in DIA format (the class docstring builds sqrtprec with scipy.sparse.diags)
    out += [("sqrtprec", s, "dia") for s in ("lower", "upper", "nonsymmetric", "symmetric")]
    out += [("sqrtcov", "lower", "dia"), ("cov", "full", "dia"), ("prec", "full", "dia")]
    return out

_SMALL = (2, 3, 4, 5, 6, 9, 12)
_SWITCH = (74, 75, 76, 77, 81)

def cases(tier, seed):
    rnd = core.rng_for(seed, PROPERTY, "cases")
    out = []
    reps = 2 if tier == "quick" else 4
    # ---- Gaussian, every parameterisation
    k = 0
    for form, shape, storage in _gauss_forms():
        for dimclass in ("small", "switch"):
            for rep in range(reps if (dimclass == "small" or tier == "thorough") else 1):
                if dimclass == "small":
                    n = rnd.choice(_SMALL)
                    if shape == "scalar" and rep % 2 == 1:
                        n = 1
                    if storage != "dense" and n < 4:
                        n = 4
                else:
                    n = _SWITCH[(k + rep) % len(_SWITCH)]
                out.append({"kind": "gauss", "form": form, "shape": shape, "storage": storage, "dimclass": dimclass,
                            "n": n, "mean": rnd.choice(("vector", "vector", "vector", "scalar", "scalar", "zeros")), "geom": ("default", "cont1d", "image2d", "discrete")[k % 4],
                            "rep": rep, "scale": "moderate"})
                k += 1
    for form in ("cov", "prec", "sqrtcov", "sqrtprec"):      # one-dimensional Gaussians (scalar extraction path of sample(1))
        out.append({"kind": "gauss", "form": form, "shape": "scalar", "storage": "dense", "dimclass": "small", "n": 1,
                    "mean": "scalar", "geom": "default", "rep": 0, "scale": "moderate"})
    # ---- memory layout of the caller's arrays: Fortran-ordered, transposed view, non-contiguous slice of a larger
    #      array, read-only - in all four parameterisations (scipy / LAPACK in-place flags act on Fortran-ordered input)
    for form, shapes in (("cov", ("full", "diag")), ("prec", ("full", "diag")), ("sqrtcov", ("nonsymmetric", "lower", "upper", "symmetric")),
                         ("sqrtprec", ("nonsymmetric", "lower", "upper", "symmetric"))):
        for shape in shapes:
            for layout in ("F", "T_view", "slice", "readonly"):
                dcs = ("small", "switch") if (shape in ("full", "nonsymmetric") and (layout in ("F", "T_view") or tier == "thorough")) else ("small",)
                for dimclass in dcs:
                    for rep in range(1 if tier == "quick" else 2):
                        n = rnd.choice(_SMALL) if dimclass == "small" else rnd.choice(_SWITCH)
                        out.append({"kind": "gauss", "form": form, "shape": shape, "storage": "dense", "dimclass": dimclass, "n": n,
                                    "mean": "vector", "geom": "default", "rep": rep, "scale": "moderate", "layout": layout})
        for layout in ("slice", "readonly"):
            out.append({"kind": "gauss", "form": form, "shape": "vector", "storage": "dense", "dimclass": "small", "n": rnd.choice(_SMALL),
                        "mean": "vector", "geom": "default", "rep": 0, "scale": "moderate", "layout": layout})
    # ---- Gaussian at extreme overall scales (standard deviations ~1e9 / ~1e-7): the structure detection of the
    #      sampler must not depend on the units
    for scale in ("huge_std", "tiny_std"):
        for form, shape, storage in (("cov", "full", "dense"), ("prec", "full", "dense"), ("sqrtcov", "symmetric", "dense"),
                                     ("sqrtprec", "upper", "dense"), ("sqrtprec", "lower", "dense"), ("sqrtprec", "nonsymmetric", "dense"),
                                     ("cov", "full", "sparse"), ("sqrtprec", "nonsymmetric", "sparse")):
            for dimclass in ("small", "switch") if (tier == "thorough" or scale == "huge_std") else ("small",):
                n = rnd.choice(_SMALL[2:]) if dimclass == "small" else rnd.choice(_SWITCH)
                out.append({"kind": "gauss", "form": form, "shape": shape, "storage": storage, "dimclass": dimclass, "n": n,
                            "mean": "vector", "geom": "default", "rep": 0, "scale": scale})
    # ---- GMRF
    sizes1 = {"quick": (5, 16, 30), "thorough": (3, 8, 21, 40, 78)}[tier]
    sizes2 = {"quick": (3, 6), "thorough": (3, 5, 8, 9)}[tier]
    for bc in ("zero", "periodic", "neumann"):
        for order in (0, 1, 2):
            for pd, sizes in ((1, sizes1), (2, sizes2)):
                for i, N in enumerate(sizes):
                    if order == 2 and N < 4:
                        N = 4
                    out.append({"kind": "gmrf", "bc": bc, "order": order, "pd": pd, "N": N, "mean": ("zeros", "vector")[(i + order) % 2]})
    # ---- Lognormal / Normal / gallery (Gaussian type, read-off applies)
    for rep in range(2 if tier == "quick" else 4):
        for shape in ("scalar", "vector", "full"):
            out.append({"kind": "lognormal", "shape": shape, "n": rnd.choice((1, 2, 3, 5)) if shape == "scalar" else rnd.choice((2, 3, 5)), "rep": rep})
        for params in ("scalar", "vector", "mixed"):
            out.append({"kind": "normal", "params": params, "n": rnd.choice((1, 2, 4, 7)) if params == "scalar" else rnd.choice((2, 4, 7)), "rep": rep})
    out.append({"kind": "gallery", "name": "BivariateGaussian"})
    # ---- statistical families
    stat = [("Normal", "vector"), ("Gamma", "shape_lt1"), ("Gamma", "vector"), ("Gamma", "scalar_dim3"),
            ("InverseGamma", "vector"), ("InverseGamma", "heavy"), ("Beta", "vector"), ("Beta", "lt1"), ("Beta", "scalar_dim2"),
            ("Laplace", "vector_loc"), ("Laplace", "scalar"), ("Uniform", "vector"), ("Uniform", "scalar_dim3"),
            ("Cauchy", "vector"), ("Cauchy", "scalar"),
            ("ModifiedHalfNormal", "alpha_le1"), ("ModifiedHalfNormal", "alpha_gt1"), ("ModifiedHalfNormal", "alpha_large"),
            ("ModifiedHalfNormal", "dim3")]
    for fam, variant in stat:
        for rep in range(1 if tier == "quick" else 2):
            out.append({"kind": "stat", "family": fam, "variant": variant, "rep": rep})
    for regime in ("neg_gamma_alpha_le1", "neg_gamma_alpha_gt1", "zero_gamma", "pos_gamma_alpha_le1", "pos_gamma_normal_prop_mu_gt1",
                   "pos_gamma_normal_prop_mu_lt1", "pos_gamma_gamma_prop"):
        for rep in range(1 if tier == "quick" else 3):
            out.append({"kind": "mhn_direct", "regime": regime, "rep": rep})
    # ---- conditionals
    for fam in ("Gaussian_mean_none", "Gaussian_cov_callable", "Gaussian_two_vars", "Gaussian_model_mean", "Gaussian_sqrtprec_callable", "Normal_mean_none",
                "Normal_std_callable", "Gamma_rate_none", "Gamma_shape_callable", "InverseGamma_scale_none", "Beta_alpha_none",
                "Laplace_scale_callable", "Uniform_low_none", "Cauchy_scale_none", "GMRF_prec_callable", "GMRF_mean_none",
                "Lognormal_mean_callable"):
        out.append({"kind": "cond", "which": fam})
    # ---- dimension known only after conditioning: a location / scale parameter is a callable of conditioning variables,
    #      every other parameter a scalar, NO geometry; conditioned on vectors of length 1, 2, 5 and beyond the sparse switch
    j = 0
    for fam, param, form in _LATE:
        for n in _LATE_LENGTHS:
            modes = _LATE_MODES if tier == "thorough" else (_LATE_MODES[j % len(_LATE_MODES)], _LATE_MODES[(j + 2) % len(_LATE_MODES)])
            if fam in ("GMRF",) or param == "mean+matrix":
                modes = modes[:1]
            for mode in modes:
                c = {"kind": "latedim", "family": fam, "param": param, "len": n, "mode": mode}
                if form:
                    c["form"] = form
                out.append(c)
            j += 1
    # ---- user defined
    for n in (1, 3):
        out.append({"kind": "userdef", "n": n})
    return out

_LATE = [("Gaussian", "mean", "cov"), ("Gaussian", "mean", "prec"), ("Gaussian", "mean", "sqrtcov"), ("Gaussian", "mean", "sqrtprec"),
         ("Gaussian", "mean+matrix", "cov"), ("Lognormal", "mean", None), ("Normal", "mean", None), ("Normal", "std", None),
         ("Gamma", "shape", None), ("Gamma", "rate", None), ("InverseGamma", "location", None), ("InverseGamma", "scale", None),
         ("InverseGamma", "shape", None), ("Beta", "alpha", None), ("Beta", "beta", None), ("Laplace", "location", None),
         ("Uniform", "low", None), ("Uniform", "high", None), ("Cauchy", "location", None), ("Cauchy", "scale", None), ("GMRF", "mean", None)]
_LATE_LENGTHS = (1, 2, 5, 80)
_LATE_MODES = ("kw1", "pos1", "kw2", "mixed2", "kw_both")

def crash_config(case):
    return {k: case[k] for k in ("kind", "form", "shape", "storage", "dimclass", "scale", "layout", "bc", "order", "pd", "family", "variant", "regime", "which", "param", "mode", "len") if k in case}

_cfg = crash_config

# =========================================================================== small helpers

def _geometry(cuqi, kind, n):
    if kind == "cont1d":
        return cuqi.geometry.Continuous1D(n)
    if kind == "image2d":
        r = int(round(math.sqrt(n)))
        if r * r == n and r > 1:
            return cuqi.geometry.Image2D((r, r))
        return cuqi.geometry.Continuous1D(np.linspace(0.0, 2.0, n))
    if kind == "discrete":
        return cuqi.geometry.Discrete(["v%d" % i for i in range(n)])
    return None

def _f(x):
    return float(np.ravel(np.asarray(x, dtype=float))[0])

def _same_state(a, b):
    return a[0] == b[0] and np.array_equal(a[1], b[1]) and a[2:] == b[2:]

def _values(out, N, dim):
    """ndarray (dim, N) of what sample() returned, or None when the container has another size."""
    if hasattr(out, "samples"):
        A = np.asarray(out.samples, dtype=float)
    else:
        A = np.asarray(out, dtype=float)
    if A.size != dim * N:
        return None
    if A.ndim == 2 and A.shape == (dim, N):
        return A
    if N == 1:
        return A.reshape(dim, 1)
    if dim == 1:
        return A.reshape(1, N)
    return None

# =========================================================================== caller arrays, memory layouts

_CALLER = []      # [label, array handed to the library, bitwise snapshot] of the running case

def _register(label, A):
    _CALLER.append((label, A, np.array(A, copy=True)))

def _lay(A, layout, label="param"):
    """Return the values of A in the requested memory layout and register the array (and, for slices, the
    array it is a view of) so that 'inputs unchanged' is checked at the end of the case."""
    if not isinstance(A, np.ndarray):
        return A
    A = np.asarray(A, dtype=float)
    if layout in (None, "C"):
        out = np.ascontiguousarray(A)
    elif layout == "F":
        out = np.asfortranarray(A)
    elif layout == "T_view":
        out = np.ascontiguousarray(A.T).T if A.ndim == 2 else A[::-1].copy()[::-1]
    elif layout in ("slice", "ro_slice"):
        big = np.full(tuple(2 * k + 1 for k in A.shape), 7.25)
        sl = tuple(slice(1, 2 * k + 1, 2) for k in A.shape)
        big[sl] = A
        _register(label + ":base", big)
        out = big[sl]
        if layout == "ro_slice":
            out.setflags(write=False)
    elif layout == "readonly":
        out = np.array(A, order="C", copy=True)
        out.setflags(write=False)
    else:
        raise ValueError(layout)
    _register(label + ":" + str(layout or "C"), out)
    return out

def _caller_arrays_monitor(ctx, cfg):
    for label, A, snap in _CALLER:
        ctx.count("caller_arrays_checked")
        if A.shape != snap.shape or A.tobytes() != snap.tobytes():
            ctx.violation("caller_array_modified", {**cfg, "array": label.split(":")[0]},
                          detail=f"the array '{label}' handed to the library was changed (max abs change {np.max(np.abs(np.asarray(A) - snap)) if A.shape == snap.shape else 'shape'})")

def _param_snapshot(d):
    import scipy.sparse as sp
    snap = {}
    for nm in list(d.get_mutable_variables()) + ["sqrtprec", "_sqrtprec", "_prec", "_cov"]:
        try:
            v = getattr(d, nm)
        except Exception:  # noqa
            continue
        if sp.issparse(v):
            snap[nm] = v.toarray() if v.shape[0] <= 120 else np.array(v.tocsr().data, copy=True)
        elif isinstance(v, np.ndarray) or np.isscalar(v):
            snap[nm] = np.array(v, copy=True)
    return snap

def _first_draw_monitor(ctx, d, cfg, probes):
    """History starting from a never-sampled object: draw, then logd, the object's parameter arrays and a second
    draw from the same generator state must be what they were."""
    raw = lambda out: np.array(getattr(out, "samples", out), dtype=float, copy=True)
    def dens():
        vals = []
        for x in probes:
            with np.errstate(all="ignore"):
                k, v = core.outcome(d.logd, x)
            if k != "value" and hasattr(d, "_logupdf"):
                k, v = core.outcome(d._logupdf, x)
            vals.append(np.ravel(np.asarray(v, dtype=float)) if k == "value" else np.array([np.nan]))
        return vals
    p0, l0 = _param_snapshot(d), dens()
    k1, a = core.outcome(lambda: raw(d.sample(3, rng=np.random.RandomState(91))))
    if k1 != "value":
        return      # reported by the other monitors
    core.outcome(d.sample, 1, rng=np.random.RandomState(92))
    k2, b = core.outcome(lambda: raw(d.sample(3, rng=np.random.RandomState(91))))
    p1, l1 = _param_snapshot(d), dens()
    hc = {**cfg, "history": "after_first_draw"}
    ctx.count("first_draw_history_checked")
    if k2 != "value" or a.shape != b.shape or not np.array_equal(a, b):
        ctx.violation("rng_not_reproducible", hc, detail="sample(3, rng=RandomState(91)) repeated after other draws from the same object "
                      f"gives other values (max diff {np.max(np.abs(a - b)) if k2 == 'value' and a.shape == b.shape else b!r})")
    for x, u, v in zip(probes, l0, l1):
        ctx.count("density_after_draw_checked")
        # (not bitwise: scipy's sparse solvers sort the indices of the stored factor in place, which changes the
        #  summation order of later products in the last bit)
        if u.shape != v.shape or not ctx.close(u, v, rtol=1e-10, atol=0.0):
            ctx.violation("sampling_changes_density", hc, detail=f"logd at a fixed point was {u.tolist()} before the first draw and is {v.tolist()} after it")
            break
    for nm in p0:
        ctx.count("parameters_after_draw_checked")
        if nm not in p1 or p0[nm].shape != p1[nm].shape or p0[nm].tobytes() != p1[nm].tobytes():
            ctx.violation("sampling_writes_parameters", {**hc, "parameter": nm.lstrip("_")},
                          detail=f"attribute '{nm}' of the distribution changed while sampling")
    _caller_arrays_monitor(ctx, hc)

# =========================================================================== monitor (c): containers

def _wrapper_monitor(ctx, cuqi, d, cfg, Ns=(1, 2, 7), rng_ok=True, seed=11):
    """N=1 -> CUQIarray carrying the geometry, N>1 -> Samples with one column per draw; values equal
    to what _sample produced."""
    dim = int(d.dim)
    geom = d.geometry
    for N in Ns:
        raw = {}
        def post(self, args, kwargs, res, snap, raw=raw):
            raw["r"] = np.array(res, dtype=float, copy=True)
            return None
        log = ContractLog()
        kw = {"rng": np.random.RandomState(seed + N)} if rng_ok else {}
        with ensure(type(d), "_sample", post, log):
            kind, out = core.outcome(d.sample, N, **kw)
        if kind != "value":
            ctx.violation("crash", {**cfg, "exc": type(out).__name__, "at": "sample"}, detail=f"sample({N}) raised {out!r}")
            continue
        ctx.count("wrapper_shape_checked")
        if N == 1:
            ok_type = isinstance(out, cuqi.array.CUQIarray)
            shape = tuple(np.shape(out))
            ok_shape = shape == (dim,) or (dim == 1 and shape in ((), (1,)))
            if not ok_type or not ok_shape:
                ctx.violation("draw_shape", {**cfg, "dim_gt1": dim > 1},
                              detail=f"sample(1) of a dim-{dim} distribution returned {type(out).__name__} of shape {shape}")
            elif getattr(out, "is_par", True) is not True:
                ctx.violation("draw_shape", {**cfg, "dim_gt1": dim > 1}, detail="sample(1) is not flagged as parameter values")
        else:
            ok_type = isinstance(out, cuqi.samples.Samples)
            shape = tuple(np.shape(out.samples)) if ok_type else tuple(np.shape(out))
            if not ok_type or shape != (dim, N) or (ok_type and out.Ns != N):
                ctx.violation("samples_shape", {**cfg, "dim_gt1": dim > 1},
                              detail=f"sample({N}) of a dim-{dim} distribution returned {type(out).__name__} of shape {shape}, expected Samples ({dim},{N})")
        g = getattr(out, "geometry", None)
        ctx.count("geometry_carried_checked")
        if g is None or not (g is geom or g == geom):
            ctx.violation("geometry_not_carried", cfg, detail=f"sample({N}) carries geometry {g!r}, distribution has {geom!r}")
        A = _values(out, N, dim)
        if A is not None and "r" in raw and raw["r"].size == A.size:
            ctx.count("wrapper_values_checked")
            R = raw["r"].reshape(A.shape) if raw["r"].shape != A.shape else raw["r"]
            if not np.array_equal(R, A):
                ctx.violation("wrapper_alters_values", cfg, detail=f"sample({N}) differs from what _sample returned (max diff {np.max(np.abs(R - A))})")

# =========================================================================== monitor (b): generator discipline

def _rng_monitor(ctx, d, cfg, N=3, seed=5):
    dim = int(d.dim)
    np.random.seed(987654321 % (2 ** 31))
    g0 = np.random.get_state()
    r1, r2, r3 = np.random.RandomState(seed), np.random.RandomState(seed), np.random.RandomState(seed + 1)
    s0 = r1.get_state()
    a = _values(d.sample(N, rng=r1), N, dim)
    g1 = np.random.get_state()
    b = _values(d.sample(N, rng=r2), N, dim)
    c = _values(d.sample(N, rng=r3), N, dim)
    ctx.count("global_state_checked")
    if not _same_state(g0, g1):
        ctx.violation("global_state_touched", cfg, detail=f"np.random.get_state() changed during sample({N}, rng=RandomState)")
    if a is None or b is None or c is None:
        return
    ctx.count("rng_reproducible_checked")
    if not np.array_equal(a, b):
        ctx.violation("rng_not_reproducible", cfg, detail=f"two calls with equal generator state differ (max {np.max(np.abs(a - b))})")
    if np.array_equal(a, c):
        ctx.violation("rng_ignored", cfg, detail="generators in different states produced identical draws")
    if _same_state(s0, r1.get_state()):
        ctx.violation("rng_ignored", cfg, detail="the given generator was not consumed")
    ctx.count("draws_distinct_checked")
    if any(np.array_equal(a[:, i], a[:, j]) for i in range(N) for j in range(i + 1, N)):
        ctx.violation("draws_identical", cfg, detail=f"sample({N}) returned identical columns: {a.tolist() if a.size <= 12 else a[:3].tolist()}")

# =========================================================================== monitor (a): affine read-off

class _StreamShape(Exception):
    pass

def _run(d, N, via, provider, seed=3):
    """Call sample(N) with a scripted/recording stream. Returns (container, [(shape, values)...])."""
    if via == "rng":
        r = ScriptedRNG(normal=provider, seed=seed)
        out = d.sample(N, rng=r)
        return out, [(x[2], x[3]) for x in r.draws]
    with Scripted(normal=provider) as rec:
        np.random.seed(seed)
        out = d.sample(N)
    others = [x for x in rec.draws if x[1] not in ("randn", "standard_normal", "normal")]
    if others:
        raise _StreamShape(f"non-normal global draws {sorted(set(x[1] for x in others))}")
    return out, [(x[2], x[3]) for x in rec.normals()]

def _stream_layout(d, via):
    """[(rows, draw_axis)] of the normal draws of one sample() call, learnt from N=5 and N=7."""
    _, d5 = _run(d, 5, via, None)
    _, d7 = _run(d, 7, via, None)
    if len(d5) != len(d7) or not d5:
        raise _StreamShape(f"{len(d5)} / {len(d7)} normal draws for N=5 / N=7")
    lay = []
    for (s5, _), (s7, _) in zip(d5, d7):
        if len(s5) != 2 or len(s7) != 2:
            raise _StreamShape(f"draw of shape {s5}")
        ax = [i for i in (0, 1) if s5[i] == 5 and s7[i] == 7 and s5[1 - i] == s7[1 - i]]
        if len(ax) != 1:
            raise _StreamShape(f"cannot locate the draw axis in shapes {s5}, {s7}")
        lay.append((s5[1 - ax[0]], ax[0]))
    return lay

def _stack(draws, lay, N):
    """(R, N) matrix of the recorded standard normals, one column per draw."""
    cols = []
    for (shape, val), (rows, ax) in zip(draws, lay):
        V = np.asarray(val, dtype=float).reshape(shape)
        cols.append(V if ax == 1 else V.T)
    E = np.vstack(cols)
    assert E.shape[1] == N
    return E

def _read_affine(d, via, T, dim):
    lay = _stream_layout(d, via)
    R = sum(r for r, _ in lay)
    offs = np.cumsum([0] + [r for r, _ in lay])
    st = {"c": 0}
    def prov(shape, api, seq):
        c = st["c"]; st["c"] += 1
        rows, ax = lay[c]
        M = np.zeros((rows, R + 1))
        M[np.arange(rows), 1 + offs[c] + np.arange(rows)] = 1.0
        M = M if ax == 1 else M.T
        if tuple(shape) != M.shape:
            raise _StreamShape(f"draw {c} has shape {shape}, expected {M.shape}")
        return M
    out, _ = _run(d, R + 1, via, prov)
    A = _values(out, R + 1, dim)
    if A is None:
        raise _StreamShape("container of unexpected size")
    A = T(A)
    m = A[:, 0].copy()
    return m, A[:, 1:] - m[:, None], lay

def _density_hessian(ctx, d, m, h, T_inv, log_jac):
    """Precision and gradient at m of  y -> logd(T_inv(y)) + log_jac(y)  by exact differences."""
    n = m.size
    def via_logd(fn):
        f = lambda y: _f(fn(T_inv(y))) + log_jac(y)
        f0 = f(m)
        I = np.eye(n) * h
        fp = np.array([f(m + I[i]) for i in range(n)])
        fm = np.array([f(m - I[i]) for i in range(n)])
        P = np.zeros((n, n))
        for i in range(n):
            P[i, i] = -(fp[i] - 2 * f0 + fm[i]) / h ** 2
            for j in range(i + 1, n):
                P[i, j] = P[j, i] = -(f(m + I[i] + I[j]) - fp[i] - fp[j] + f0) / h ** 2
        g = (fp - fm) / (2 * h)
        return P, g, abs(f0) + float(np.max(np.abs(fp))) if n else abs(f0)
    kind, val = core.outcome(via_logd, d.logd)
    if kind == "value" and np.all(np.isfinite(val[0])) and np.all(np.isfinite(val[1])):
        ctx.count("density_via_logd")
        return val
    if log_jac(m) == 0.0:
        def via_grad():
            g0 = np.ravel(np.asarray(d.gradient(m), dtype=float))
            P = -np.array([np.ravel(np.asarray(d.gradient(m + h * np.eye(n)[i]), dtype=float)) - g0 for i in range(n)]).T / h
            return P, g0, float(np.max(np.abs(P))) * h
        kind2, val2 = core.outcome(via_grad)
        if kind2 == "value" and np.all(np.isfinite(val2[0])) and val2[0].shape == (n, n):
            ctx.count("density_via_gradient")
            return val2
    if hasattr(d, "_logupdf"):
        kind3, val3 = core.outcome(via_logd, d._logupdf)
        if kind3 == "value" and np.all(np.isfinite(val3[0])):
            ctx.count("density_via_logupdf")
            return val3
    return None

def _affine_monitor(ctx, d, cfg, T=None, T_inv=None, log_jac=None, reg_eps=0.0, vias=("rng", "global")):
    """Deciding monitor for Gaussian-type samplers."""
    T = T or (lambda A: A)
    T_inv = T_inv or (lambda y: y)
    log_jac = log_jac or (lambda y: 0.0)
    dim = int(d.dim)
    maps = {}
    for via in vias:
        try:
            maps[via] = _read_affine(d, via, T, dim)
        except _StreamShape as e:
            ctx.inconclusive(f"{cfg}: stream structure not understood via {via}: {e}")
            return False
        ctx.count("affine_map_read")
    m, B, lay = maps[vias[0]]
    if len(vias) > 1:
        m2, B2, _ = maps[vias[1]]
        ctx.count("rng_vs_global_map_checked")
        sc = 1e-300 + np.max(np.abs(B))
        t = 1e-4 if reg_eps else 1e-7
        if B.shape != B2.shape or np.max(np.abs(B - B2)) > t * sc or np.max(np.abs(m - m2)) > t * (1 + np.max(np.abs(m))):
            ctx.violation("rng_vs_global_law_differs", cfg, detail="the affine map read off through rng= differs from the one read off through the global stream")
    if not (np.all(np.isfinite(m)) and np.all(np.isfinite(B))):
        ctx.violation("sampler_cov_mismatch", cfg, detail="non-finite draws under a finite scripted stream")
        return True
    C = B @ B.T
    sd = np.sqrt(np.maximum(np.diag(C), 0))
    h = float(np.median(sd[sd > 0])) if np.any(sd > 0) else 1.0
    dens = _density_hessian(ctx, d, m, h, T_inv, log_jac)
    if dens is None:
        ctx.inconclusive(f"{cfg}: the object reports no finite log-density / gradient")
        return False
    P, g, fscale = dens
    P = 0.5 * (P + P.T)
    w, V = np.linalg.eigh(P)
    wmax = float(np.max(np.abs(w)))
    keep = w > 1e-7 * wmax
    r = int(np.sum(keep))
    if r == 0 or np.min(w) < -1e-6 * wmax:
        ctx.violation("density_not_gaussian", cfg, detail=f"Hessian of logd at the zero-noise draw has eigenvalues in [{w.min():.3g},{w.max():.3g}]")
        return True
    W = V[:, keep] * np.sqrt(w[keep])
    G = W.T @ C @ W
    err = float(np.max(np.abs(G - np.eye(r))))
    cond = wmax / float(np.min(w[keep]))
    # (last term: the differences of logd are taken at m +- h e_i; when h is tiny compared with |m| the step itself is
    #  only represented to eps*|m|/h)
    tol = 1e-6 + 1e-9 * cond + (200.0 * reg_eps / float(np.min(w[keep])) if reg_eps else 0.0) \
        + 1e4 * np.finfo(float).eps * max(1.0, float(np.max(np.abs(m))) / h)
    ctx.count("cov_vs_logd_hessian_checked")
    ctx.note("whitened_cov_err_rank_cond", [err, r, cond])
    if err > tol:
        ev = np.linalg.eigvalsh(0.5 * (G + G.T))
        ctx.violation("sampler_cov_mismatch", cfg,
                      detail=f"dim {dim}: covariance B B^T of the sampler's affine map, whitened by the Hessian of the object's own logd on its "
                             f"range (rank {r}), deviates from the identity by {err:.3g} (tolerance {tol:.2g}); eigenvalues in [{ev.min():.4g},{ev.max():.4g}]")
    # the zero-noise draw must be a stationary point of logd
    ctx.count("mode_checked")
    gs = float(np.max(np.abs(g))) * h
    if gs > 1e-7 * (wmax * h * h) + 1e-9 * fscale:
        ctx.violation("sampler_mean_mismatch", cfg,
                      detail=f"dim {dim}: logd has gradient {np.max(np.abs(g)):.3g} at the zero-noise draw (not its mode); implied shift "
                             f"{np.max(np.abs(np.linalg.lstsq(P, g, rcond=None)[0])):.3g}")
    # a recorded real stream must reproduce sample == m + B e, for N = 1, 2, 7 and both entry points
    worst = {"replay": 0.0}
    for via in vias:
        for N in (1, 2, 7):
            try:
                out, draws = _run(d, N, via, None, seed=100 + N)
            except _StreamShape as e:
                ctx.inconclusive(f"{cfg}: {e}"); continue
            A = _values(out, N, dim)
            ctx.count("stream_replay_checked")
            if len(draws) != len(lay):
                ctx.violation("rng_ignored" if not draws else "not_affine_in_stream", {**cfg, "via": via},
                              detail=f"sample({N}) made {len(draws)} normal draws on the given stream, expected {len(lay)}")
                continue
            if A is None:
                continue       # container defect, reported by the wrapper monitor
            E = _stack(draws, lay, N)
            want = m[:, None] + B @ E
            got = T(A)
            sc = 1.0 + np.max(np.abs(want))
            worst["replay"] = max(worst["replay"], float(np.max(np.abs(got - want)) / sc) if np.all(np.isfinite(got)) else np.inf)
            # (the sqrt(eps)-regularised solves of the intrinsic GMRFs amplify round-off in the null directions by 1/sqrt(eps))
            if not np.all(np.isfinite(got)) or np.max(np.abs(got - want)) > (1e-4 if reg_eps else 1e-7) * sc:
                ctx.violation("not_affine_in_stream", {**cfg, "via": via, "N1": N == 1},
                              detail=f"sample({N}) != m + B e for the stream it consumed (max diff {np.max(np.abs(got - want)):.3g})")
    ctx.note("replay_max_rel_diff_and_tol", [worst["replay"], 1e-4 if reg_eps else 1e-7])
    ctx.note("mode_gradient_rel", [gs, 1e-7 * (wmax * h * h) + 1e-9 * fscale])
    ctx.note("cov_tol", tol)
    return True

# =========================================================================== builders

def _gauss_matrix(case, rs):
    import scipy.sparse as sp
    n, form, shape, storage = case["n"], case["form"], case["shape"], case["storage"]
    scale = float(10 ** rs.uniform(-1.2, 1.2))
    if case.get("scale", "moderate") != "moderate":
        std = 1e9 if case["scale"] == "huge_std" else 1e-7
        scale *= {"cov": std ** 2, "prec": std ** -2, "sqrtcov": std, "sqrtprec": 1.0 / std}[form]
    banded = 2 if (storage != "dense" or n > 40) else None
    if shape == "scalar":
        M = float(scale * rs.uniform(0.5, 2.0))
    elif shape == "vector":
        M = scale * np.exp(rs.uniform(0, math.log(30.0), n))
    elif form in ("cov", "prec"):
        M = np.diag(scale * np.exp(rs.uniform(0, math.log(30.0), n))) if shape == "diag" else L.spd(rs, n, cond=50.0, scale=scale, banded=banded)
    else:
        M = L.sqrt_factor(rs, n, shape, cond=30.0, scale=scale, banded=banded)
    if storage == "sparse":
        M = sp.csr_matrix(M)
    elif storage == "dia":
        M = sp.dia_matrix(M)
    else:
        M = _lay(M, case.get("layout", "C"), label=form)
    return M

def _gauss_mean(case, rs):
    n, mk = case["n"], case["mean"]
    mean = np.zeros(n) if mk == "zeros" else (rs.uniform(-3, 3, n) if mk == "vector" else float(rs.uniform(-3, 3)))
    if case.get("scale") == "huge_std":
        mean = mean * 1e9
    return _lay(mean, "ro_slice" if case.get("layout") in ("slice", "readonly") else "C", label="mean")

def _build_gauss(cuqi, case, rs):
    n, form, shape = case["n"], case["form"], case["shape"]
    M = _gauss_matrix(case, rs)
    mean = _gauss_mean(case, rs)
    kw = {form: M, "name": "x"}
    g = _geometry(cuqi, case["geom"], n)
    if g is not None:
        kw["geometry"] = g
    elif np.isscalar(mean) and shape == "scalar":
        kw["geometry"] = n
    return cuqi.distribution.Gaussian(mean, **kw)

def _run_gauss(case, ctx, cuqi, rs):
    cfg = _cfg(case)
    kind, d = core.outcome(_build_gauss, cuqi, case, rs)
    if kind != "value":
        ctx.violation("crash", {**cfg, "exc": type(d).__name__, "at": "constructor"}, detail=f"well-posed Gaussian refused: {d!r}")
        return
    ctx.note("n", case["n"])
    n = case["n"]
    unit = {"huge_std": 1e9, "tiny_std": 1e-7}.get(case.get("scale"), 1.0)
    m0 = np.ones(n) * np.asarray(d.mean, dtype=float)
    _first_draw_monitor(ctx, d, cfg, [m0 + unit * rs.standard_normal(n), m0 - 0.5 * unit * rs.standard_normal(n)])
    if _affine_monitor(ctx, d, cfg):
        ctx.nontrivial()
    _rng_monitor(ctx, d, cfg)
    _wrapper_monitor(ctx, cuqi, d, cfg)
    # history: the same object after its public parameters were re-assigned (it has already been sampled from)
    if case["dimclass"] == "small" or ctx.tier == "thorough" or case.get("rep", 0) == 0:
        def reassign():
            setattr(d, case["form"], _gauss_matrix(case, rs))
            if case["mean"] != "zeros":
                d.mean = _gauss_mean(case, rs)
        kind, val = core.outcome(reassign)
        ctx.count("history_reassign_checked")
        if kind != "value":
            ctx.refused("parameter re-assignment", val)
        else:
            _affine_monitor(ctx, d, {**cfg, "history": "reassigned"}, vias=("rng",))

def _run_gmrf(case, ctx, cuqi, rs):
    cfg = _cfg(case)
    N, pd, bc, order = case["N"], case["pd"], case["bc"], case["order"]
    n = N ** pd
    geom = cuqi.geometry.Continuous1D(N) if pd == 1 else cuqi.geometry.Image2D((N, N))
    mean = _lay(np.zeros(n) if case["mean"] == "zeros" else rs.uniform(-2, 2, n), ("ro_slice", "readonly", "C")[(N + order) % 3], label="mean")
    delta = float(10 ** rs.uniform(-1, 1.5))
    d = cuqi.distribution.GMRF(mean, delta, bc_type=bc, order=order, geometry=geom, name="x")
    if not (bc == "periodic" and pd == 2):
        _first_draw_monitor(ctx, d, cfg, [np.asarray(mean) + rs.standard_normal(n), np.asarray(mean) - rs.standard_normal(n)])
    if bc == "periodic" and pd == 2:
        kind, val = core.outcome(d.sample, 2, rng=np.random.RandomState(0))
        ctx.count("refusal_observed")
        if kind == "refused":
            ctx.refused("GMRF periodic 2D sample", val); ctx.nontrivial()
        elif kind == "value":
            # accepted: then it has to be right
            if _affine_monitor(ctx, d, cfg, reg_eps=delta * math.sqrt(np.finfo(float).eps)):
                ctx.nontrivial()
        else:
            ctx.violation("crash", {**cfg, "exc": type(val).__name__}, detail=repr(val))
        return
    reg = 0.0 if bc == "zero" else delta * math.sqrt(np.finfo(float).eps)
    if _affine_monitor(ctx, d, cfg, reg_eps=reg):
        ctx.nontrivial()
    _rng_monitor(ctx, d, cfg)
    _wrapper_monitor(ctx, cuqi, d, cfg)
    # history: re-assign prec (and the mean) of the object that has already been sampled from
    delta2 = float(delta * 10 ** rs.uniform(0.7, 1.5) if rs.uniform() < 0.5 else delta / 10 ** rs.uniform(0.7, 1.5))
    d.prec = delta2
    if case["mean"] == "vector":
        d.mean = rs.uniform(-2, 2, n)
    ctx.count("history_reassign_checked")
    _affine_monitor(ctx, d, {**cfg, "history": "reassigned"}, reg_eps=0.0 if bc == "zero" else delta2 * math.sqrt(np.finfo(float).eps), vias=("rng",))

def _run_lognormal(case, ctx, cuqi, rs):
    cfg = _cfg(case)
    n, shape = case["n"], case["shape"]
    mean = rs.uniform(-1, 1, n)
    if shape == "scalar":
        cov = float(rs.uniform(0.05, 0.6))
    elif shape == "vector":
        cov = rs.uniform(0.05, 0.6, n)
    else:
        cov = _lay(L.spd(rs, n, cond=10.0, scale=0.05), ("F", "T_view", "slice", "readonly")[case.get("rep", 0) % 4], label="cov")
    mean = _lay(mean, "ro_slice", label="mean")
    if shape == "vector":
        cov = _lay(cov, "ro_slice", label="cov")
    d = cuqi.distribution.Lognormal(mean, cov, name="x")
    _first_draw_monitor(ctx, d, cfg, [np.exp(np.asarray(mean) + 0.3 * rs.standard_normal(n)), np.exp(np.asarray(mean) - 0.3 * rs.standard_normal(n))])
    ok = _affine_monitor(ctx, d, cfg, T=np.log, T_inv=np.exp, log_jac=lambda y: float(np.sum(y)))
    if ok:
        ctx.nontrivial()
    _rng_monitor(ctx, d, cfg)
    _wrapper_monitor(ctx, cuqi, d, cfg)
    # history: re-assigned mean / cov of the same object (Lognormal keeps an inner Gaussian in sync)
    d.mean = rs.uniform(-1, 1, n)
    d.cov = float(rs.uniform(0.05, 0.6)) if shape == "scalar" else (rs.uniform(0.05, 0.6, n) if shape == "vector" else L.spd(rs, n, cond=10.0, scale=0.05))
    ctx.count("history_reassign_checked")
    _affine_monitor(ctx, d, {**cfg, "history": "reassigned"}, T=np.log, T_inv=np.exp, log_jac=lambda y: float(np.sum(y)), vias=("rng",))

def _run_normal(case, ctx, cuqi, rs):
    cfg = _cfg(case)
    n, params = case["n"], case["params"]
    if params == "scalar":
        mean, std = float(rs.uniform(-3, 3)), float(10 ** rs.uniform(-1, 1))
        d = cuqi.distribution.Normal(mean, std, geometry=n, name="x")
    elif params == "vector":
        d = cuqi.distribution.Normal(_lay(rs.uniform(-3, 3, n), "ro_slice", "mean"), _lay(10 ** rs.uniform(-1, 1, n), "ro_slice", "std"), geometry=_geometry(cuqi, "discrete", n), name="x")
    else:
        d = cuqi.distribution.Normal(_lay(rs.uniform(-3, 3, n), "readonly", "mean"), float(10 ** rs.uniform(-1, 1)), geometry=_geometry(cuqi, "image2d", n), name="x")
    _first_draw_monitor(ctx, d, cfg, [rs.uniform(-3, 3, n), rs.uniform(-3, 3, n)])
    if _affine_monitor(ctx, d, cfg):
        ctx.nontrivial()
    _rng_monitor(ctx, d, cfg)
    _wrapper_monitor(ctx, cuqi, d, cfg)
    d.mean = float(rs.uniform(-3, 3)) if params == "scalar" else rs.uniform(-3, 3, n)
    d.std = 10 ** rs.uniform(-1, 1, n) if params == "vector" else float(10 ** rs.uniform(-1, 1))
    ctx.count("history_reassign_checked")
    _affine_monitor(ctx, d, {**cfg, "history": "reassigned"}, vias=("rng",))

def _run_gallery(case, ctx, cuqi, rs):
    cfg = _cfg(case)
    d = cuqi.distribution.DistributionGallery(case["name"], name="x")
    _first_draw_monitor(ctx, d, cfg, [rs.standard_normal(2), rs.standard_normal(2)])
    if _affine_monitor(ctx, d, cfg):
        ctx.nontrivial()
    _rng_monitor(ctx, d, cfg)
    _wrapper_monitor(ctx, cuqi, d, cfg)

# =========================================================================== statistical families

class _LayoutD:
    """cuqi.distribution with every vector argument handed over as a read-only, non-contiguous view (registered)."""
    def __init__(self, D):
        self._D = D
    def __getattr__(self, name):
        cls = getattr(self._D, name)
        def make(*a, **k):
            a = [_lay(x, "ro_slice", label="arg%d" % i) if isinstance(x, np.ndarray) and x.ndim == 1 and x.size > 1 else x for i, x in enumerate(a)]
            return cls(*a, **k)
        return make

def _build_stat(cuqi, case, rs):
    """-> (distribution, per-coordinate support (lo, hi) arrays, moments_ok, constructor parameters)"""
    D = _LayoutD(cuqi.distribution)
    fam, v = case["family"], case["variant"]
    inf = np.inf
    if fam == "Normal":
        n = 3; mean, std = rs.uniform(-3, 3, n), 10 ** rs.uniform(-1, 1, n)
        return D.Normal(mean, std, name="x"), np.full(n, -inf), np.full(n, inf), True, {}
    if fam == "Gamma":
        if v == "shape_lt1":
            shape, rate = np.array([0.45, 0.8, 1.0]) * rs.uniform(0.9, 1.1), 10 ** rs.uniform(-2, 2, 3)
            d = D.Gamma(shape, rate, name="x"); n = 3
        elif v == "vector":
            shape, rate = rs.uniform(1.2, 9.0, 3), 10 ** rs.uniform(-3, 3, 3)
            d = D.Gamma(shape, rate, name="x"); n = 3
        else:
            n = 3; d = D.Gamma(float(rs.uniform(1.5, 6.0)), float(10 ** rs.uniform(-1, 2)), geometry=n, name="x")
        return d, np.zeros(n), np.full(n, inf), True, {}
    if fam == "InverseGamma":
        n = 2
        if v == "vector":
            shape, loc, scale = rs.uniform(10.0, 16.0, n), rs.uniform(-2, 2, n), 10 ** rs.uniform(-1, 1, n)
            mom = True
        else:
            shape, loc, scale = rs.uniform(1.2, 3.0, n), float(rs.uniform(-1, 1)), float(10 ** rs.uniform(-1, 1))
            mom = False
        d = D.InverseGamma(shape, loc, scale, name="x")
        return d, np.ones(n) * loc, np.full(n, inf), mom, {}
    if fam == "Beta":
        if v == "vector":
            n = 3; d = D.Beta(rs.uniform(1.2, 6.0, n), rs.uniform(1.2, 6.0, n), name="x")
        elif v == "lt1":
            n = 2; d = D.Beta(rs.uniform(0.45, 0.9, n), np.array([0.6, 3.0]) * rs.uniform(0.9, 1.1), name="x")
        else:
            n = 2; d = D.Beta(float(rs.uniform(1.5, 5.0)), float(rs.uniform(1.5, 5.0)), geometry=n, name="x")
        return d, np.zeros(n), np.ones(n), True, {}
    if fam == "Laplace":
        if v == "vector_loc":
            n = 3; d = D.Laplace(rs.uniform(-3, 3, n), float(10 ** rs.uniform(-1, 1)), name="x")
        else:
            n = 2; d = D.Laplace(float(rs.uniform(-3, 3)), float(10 ** rs.uniform(-1, 1)), geometry=n, name="x")
        return d, np.full(n, -inf), np.full(n, inf), True, {}
    if fam == "Uniform":
        if v == "vector":
            n = 3; low = rs.uniform(-5, 5, n); high = low + 10 ** rs.uniform(-1, 1.5, n)
            d = D.Uniform(low, high, name="x")
        else:
            n = 3; low = float(rs.uniform(-5, 5)); high = low + float(10 ** rs.uniform(-1, 1.5))
            d = D.Uniform(low, high, geometry=n, name="x")
        return d, np.ones(n) * low, np.ones(n) * high, True, {}
    if fam == "Cauchy":
        if v == "vector":
            n = 3; d = D.Cauchy(rs.uniform(-3, 3, n), 10 ** rs.uniform(-1, 1, n), name="x")
        else:
            n = 2; d = D.Cauchy(float(rs.uniform(-3, 3)), float(10 ** rs.uniform(-1, 1)), geometry=n, name="x")
        return d, np.full(n, -inf), np.full(n, inf), False, {}
    if fam == "ModifiedHalfNormal":
        if v == "alpha_le1":
            a, b, g = float(rs.uniform(0.4, 1.0)), float(rs.uniform(0.5, 3.0)), float(rs.uniform(-2.0, 2.0))
        elif v == "alpha_gt1":
            a, b, g = float(rs.uniform(1.2, 6.0)), float(rs.uniform(0.5, 3.0)), float(rs.uniform(-3.0, 3.0))
        elif v == "alpha_large":
            a, b, g = float(rs.uniform(30.0, 130.0)), float(rs.uniform(1.0, 4.0)), float(rs.uniform(-5.0, 5.0))
        else:
            a, b, g = float(rs.uniform(1.2, 4.0)), float(rs.uniform(0.5, 3.0)), float(rs.uniform(-2.0, 2.0))
            return D.ModifiedHalfNormal(a, b, g, geometry=3, name="x"), np.zeros(3), np.full(3, inf), True, {"alpha": a, "beta": b, "gamma": g}
        return D.ModifiedHalfNormal(a, b, g, name="x"), np.zeros(1), np.full(1, inf), True, {"alpha": a, "beta": b, "gamma": g}
    raise ValueError(fam)

_STAT_ATTRS = {"Normal": ("mean", "std"), "Gamma": ("shape", "rate"), "InverseGamma": ("shape", "location", "scale"),
               "Beta": ("alpha", "beta"), "Laplace": ("location", "scale"), "Uniform": ("low", "high"), "Cauchy": ("location", "scale")}

def _law_tests(x, logf, lo, hi, want_moments, n_knots=300):
    """KS (+ moments) of the 1-D data x against the density exp(logf). Returns list of
    (test name, p-value, direction, detail) or None when the reference cannot be built."""
    knots = L.knots_from_sample(x, lo, hi, n_knots)
    if knots is None:
        return None
    ref0 = logf(float(np.median(x)))
    if not np.isfinite(ref0):
        return None
    def pdf(t):
        v = logf(t)
        if not np.isfinite(v):
            return 0.0
        return math.exp(min(v - ref0, 700.0))
    T = L.cdf_table(pdf, lo, hi, knots, want_moments=want_moments)
    if not (np.isfinite(T.total) and T.total > 0):
        return None
    n = x.size
    D, sgn, at = L.ks_stat(x, T)
    res = [("ks", L.ks_pvalue(D, n), sgn, f"KS D={D:.4g} at x={at:.5g} (n={n}), tail masses of the reference below/above the data {T.lo_mass:.2g}/{T.hi_mass:.2g}")]
    if want_moments and T.moments is not None:
        m1, m2, m3, m4 = T.moments
        var = m2 - m1 * m1
        mu4 = m4 - 4 * m3 * m1 + 6 * m2 * m1 * m1 - 3 * m1 ** 4
        if var > 0 and mu4 > var * var:
            z1 = (float(np.mean(x)) - m1) / math.sqrt(var / n)
            z2 = (float(np.mean((x - m1) ** 2)) - var) / math.sqrt((mu4 - var * var) / n)
            res.append(("mean", L.z_pvalue(z1), 1 if z1 > 0 else -1, f"sample mean {np.mean(x):.6g} vs {m1:.6g} implied by logd (z={z1:.2f})"))
            res.append(("variance", L.z_pvalue(z2), 1 if z2 > 0 else -1, f"sample variance {np.mean((x - m1) ** 2):.6g} vs {var:.6g} implied by logd (z={z2:.2f})"))
    return res

def _stat_stage(ctx, draw, slicer, lo, hi, mom, n, coords, seed):
    """One stage: draw n samples, run all tests. -> (dict (coord,test)->(p,dir,detail), S) or None"""
    S = draw(n, seed)
    if S is None:
        return None, None
    out = {}
    x0 = np.median(S, axis=1)
    for i in coords:
        xi = S[i]
        nout = int(np.sum(~((xi >= lo[i]) & (xi <= hi[i]))))
        ctx.count("support_membership_checked", xi.size)
        out[(i, "support")] = (0.0 if nout else 1.0, 1, f"{nout} of {xi.size} draws outside the documented support [{lo[i]},{hi[i]}]")
        res = _law_tests(xi, slicer(x0, i), lo[i], hi[i], mom, N_KNOTS[ctx.tier])
        if res is None:
            out[(i, "reference")] = (None, 0, "reference CDF could not be built (density not finite at the sample median)")
            continue
        for name, p, sgn, detail in res:
            ctx.count("ks_tests" if name == "ks" else "moment_tests")
            out[(i, name)] = (p, sgn, detail)
    for i in coords:
        z, rho = L.spearman_z(S[i][:-1], S[i][1:])
        ctx.count("independence_tests")
        out[(i, "serial")] = (L.z_pvalue(z), 1 if z > 0 else -1, f"lag-1 Spearman rho of coordinate {i} = {rho:.4g} (z={z:.2f})")
    for i, j in zip(coords[:-1], coords[1:]):
        z, rho = L.spearman_z(S[i], S[j])
        ctx.count("independence_tests")
        out[((i, j), "independence")] = (L.z_pvalue(z), 1 if z > 0 else -1, f"Spearman rho({i},{j})={rho:.4g} (z={z:.2f})")
    return out, S

def _two_stage(ctx, cfg, draw, slicer, lo, hi, mom, n, coords, seeds, mechanism_prefix="law"):
    r1, _ = _stat_stage(ctx, draw, slicer, lo, hi, mom, n, coords, seeds[0])
    if r1 is None:
        return False
    bad = {k: v for k, v in r1.items() if v[0] is not None and v[0] < P_STAT}
    unbuilt = [k for k, v in r1.items() if v[0] is None]
    for k in unbuilt:
        ctx.inconclusive(f"{cfg}: coordinate {k[0]}: {r1[k][2]}")
    if not bad:
        return not unbuilt
    ctx.count("stat_stage2_runs")
    r2, _ = _stat_stage(ctx, draw, slicer, lo, hi, mom, 4 * n, coords, seeds[1])
    for k, (p, sgn, detail) in bad.items():
        if r2 is None or k not in r2 or r2[k][0] is None:
            continue
        p2, sgn2, detail2 = r2[k]
        if p2 < P_STAT and sgn2 == sgn:
            mech = {"ks": "law_mismatch_ks", "mean": "law_mismatch_moment", "variance": "law_mismatch_moment",
                    "support": "sample_outside_support", "independence": "coords_dependent", "serial": "draws_dependent"}[k[1]]
            ctx.violation(mech, {**cfg, "test": k[1]},
                          detail=f"coordinate {k[0]}: stage 1 (n={n}) p={p:.3g}: {detail}; stage 2 (n={4 * n}, fresh stream) p={p2:.3g}: {detail2}")
    return True

def _run_stat(case, ctx, cuqi, rs):
    cfg = _cfg(case)
    d, lo, hi, mom, params = _build_stat(cuqi, case, rs)
    dim = int(d.dim)
    n = NS_STAT[ctx.tier]
    fam = case["family"]
    inside = lambda f: np.array([(l + f * (h - l)) if np.isfinite(l) and np.isfinite(h) else ((l + 2 * f) if np.isfinite(l) else 2 * f - 0.7)
                                 for l, h in zip(np.ones(dim) * lo[:1] if len(lo) != dim else lo, np.ones(dim) * hi[:1] if len(hi) != dim else hi)])
    _first_draw_monitor(ctx, d, cfg, [inside(0.3), inside(0.6)])
    seeds = [int(rs.randint(1, 2 ** 31 - 1)) for _ in range(2)]
    mhn_args = []
    def draw(nn, seed):
        r = np.random.RandomState(seed)
        if fam == "ModifiedHalfNormal":
            if nn > 100000:
                nn = 100000 + (nn - 100000) // 4       # python-level rejection loop: keep the cost bounded
            log = ContractLog()
            def post(self, args, kwargs, res, snap):
                if len(mhn_args) < 4:
                    mhn_args.append(tuple(float(a) for a in args[:3]))
                return None
            with ensure(type(d), "_MHN_sample", post, log):
                out = d.sample(nn, rng=r)
            ctx.count("mhn_regime_draws", nn)
        else:
            out = d.sample(nn, rng=r)
        A = np.asarray(out.samples, dtype=float)
        if A.ndim == 1 and fam == "ModifiedHalfNormal":
            A = A.reshape(1, -1)          # container defect reported by the wrapper monitor
        if A.ndim != 2:
            return None
        return A
    def slicer(x0, i):
        def logf(t):
            x = np.array(x0, dtype=float, copy=True)
            x[i] = t
            with np.errstate(all="ignore"):
                return _f(d.logd(x))
        return logf
    if fam == "ModifiedHalfNormal":
        # the sampler draws scalars; its law is judged against the scalar slice of the object's own logd
        coords = [0]
        def slicer(x0, i):        # noqa: F811
            def logf(t):
                with np.errstate(all="ignore"):
                    return _f(d.logd(np.array([t]))) if dim == 1 else _f(d.logd(np.full(dim, t))) / dim
            return logf
    else:
        coords = sorted(set([0, dim // 2, dim - 1]))
    if _two_stage(ctx, cfg, draw, slicer, lo, hi, mom, n, coords, seeds):
        ctx.nontrivial()
    # the branch taken without rng (global numpy stream): identical draws when the global generator is in the same
    # state as the given one, otherwise it has to pass the same law tests on its own
    np.random.seed(seeds[0] % (2 ** 31))
    ga = np.asarray(d.sample(50).samples, dtype=float)
    gb = np.asarray(d.sample(50, rng=np.random.RandomState(seeds[0] % (2 ** 31))).samples, dtype=float)
    ctx.count("global_branch_checked")
    if ga.shape != gb.shape or not np.array_equal(ga, gb):
        ctx.count("global_branch_law_tested")
        def draw_global(nn, seed):
            np.random.seed(seed % (2 ** 31))
            if fam == "ModifiedHalfNormal":
                nn = min(nn, 100000)
            A = np.asarray(d.sample(nn).samples, dtype=float)
            return A.reshape(1, -1) if A.ndim == 1 else A
        _two_stage(ctx, {**cfg, "branch": "global"}, draw_global, slicer, lo, hi, mom, n, coords, [s + 7 for s in seeds])
    # history: re-assign every public parameter of the object that has been sampled from; it must then draw exactly
    # like a freshly built distribution with these parameters under the same generator state (else: law tests)
    attrs = _STAT_ATTRS.get(fam)
    if attrs:
        d2, lo2, hi2, mom2, _ = _build_stat(cuqi, case, rs)
        for a in attrs:
            setattr(d, a, getattr(d2, a))
        ha = np.asarray(d.sample(50, rng=np.random.RandomState(77)).samples, dtype=float)
        hb = np.asarray(d2.sample(50, rng=np.random.RandomState(77)).samples, dtype=float)
        ctx.count("history_reassign_checked")
        if ha.shape != hb.shape or not np.array_equal(ha, hb):
            ctx.count("history_law_tested")
            _two_stage(ctx, {**cfg, "history": "reassigned"}, draw, slicer, lo2, hi2, mom2, n, coords, [s + 13 for s in seeds])
    if fam == "ModifiedHalfNormal" and mhn_args:
        ctx.count("mhn_sampler_params_checked")
        want = (params["alpha"], params["beta"], params["gamma"])
        if any(abs(a - w) > 1e-12 * (1 + abs(w)) for a, w in zip(mhn_args[0], want)):
            ctx.violation("sampler_params_misread", cfg,
                          detail=f"constructed with (alpha,beta,gamma)={want}, the rejection sampler was run with {mhn_args[0]}")
    _rng_monitor(ctx, d, cfg)
    _wrapper_monitor(ctx, cuqi, d, cfg)

_REGIME_METHOD = {"neg": "_MHN_sample_negative_gamma", "normal": "_MHN_sample_normal_proposal", "gamma": "_MHN_sample_gamma_proposal"}

def _mhn_plan(a, b, g):
    """Workload steering only (not an oracle): which proposal the documented algorithm of Sun et al. selects for
    gamma > 0, alpha > 1, and the mode mu of the target. The proposal actually used is observed at run time."""
    from scipy import special
    mu = (g + math.sqrt(g * g + 8 * b * (a - 1))) / (4 * b)
    lK1 = math.log(2 * math.sqrt(math.pi)) + (a - 1) * math.log(math.sqrt(b) * (a - 1) / (2 * b * mu - g)) - (a - 1) + b * mu * mu
    dl = b + (g * g - g * math.sqrt(g * g + 8 * b * a)) / (4 * a)
    lK2 = 0.5 * a * math.log(b / dl) + float(special.gammaln(a / 2.0)) + g * g / (4 * (b - dl))
    return ("normal" if lK2 > lK1 else "gamma"), mu

def _mhn_params(regime, rs):
    u = rs.uniform
    if regime == "neg_gamma_alpha_le1":
        return float(u(0.3, 1.0)), float(u(0.3, 4.0)), -float(u(0.1, 5.0))
    if regime == "neg_gamma_alpha_gt1":
        return float(u(1.2, 40.0)), float(u(0.3, 4.0)), -float(u(0.1, 5.0))
    if regime == "zero_gamma":
        return float(u(0.5, 5.0)), float(u(0.3, 4.0)), 0.0
    if regime == "pos_gamma_alpha_le1":
        return float(u(0.3, 1.0)), float(u(0.5, 4.0)), float(u(0.1, 3.0))
    cand = None
    for _ in range(4000):
        a, b, g = float(u(1.1, 30.0)), float(10 ** u(-0.5, 1.5)), float(10 ** u(-1.0, 1.2))
        prop, mu = _mhn_plan(a, b, g)
        cand = (a, b, g)
        if regime == "pos_gamma_gamma_prop" and prop == "gamma":
            break
        if regime == "pos_gamma_normal_prop_mu_gt1" and prop == "normal" and mu > 1.05 and a > 2.2:
            break
        if regime == "pos_gamma_normal_prop_mu_lt1" and prop == "normal" and mu < 0.95 and a > 2.2:
            break
    return cand

def _run_mhn_direct(case, ctx, cuqi, rs):
    cfg = _cfg(case)
    a, b, g = _mhn_params(case["regime"], rs)
    d = cuqi.distribution.ModifiedHalfNormal(a, b, g, name="x")
    cls = type(d)
    n = NS_STAT[ctx.tier]
    seeds = [int(rs.randint(1, 2 ** 31 - 1)) for _ in range(2)]
    used = {}
    def draw(nn, seed):
        if nn > 100000:
            nn = 100000 + (nn - 100000) // 4
        r = np.random.RandomState(seed)
        log = ContractLog()
        nop = lambda self, args, kwargs, res, snap: None
        g0 = np.random.get_state()
        with ensure(cls, _REGIME_METHOD["neg"], nop, log, name="neg"), ensure(cls, _REGIME_METHOD["normal"], nop, log, name="normal"), \
                ensure(cls, _REGIME_METHOD["gamma"], nop, log, name="gamma"):
            x = np.array([d._MHN_sample(a, b, g, rng=r) for _ in range(nn)], dtype=float)
        if not _same_state(g0, np.random.get_state()):
            ctx.violation("global_state_touched", cfg, detail="_MHN_sample(rng=RandomState) changed the global numpy state")
        for k, v in log.evaluations.items():
            used[k] = used.get(k, 0) + v
            ctx.count("mhn_regime_%s_draws" % k, v)
        ctx.count("mhn_regime_draws", nn)
        return x.reshape(1, -1)
    slicer = lambda x0, i: (lambda t: L.mhn_logpdf_doc(t, a, b, g))
    # discrete attributes of the configuration: which proposal the library used (observed on a pilot run) and on
    # which side of 1 the mode lies for alpha > 2 (decides the sign of (alpha-2) log mu)
    draw(50, seeds[1] ^ 12345)
    cfg["proposal"] = "+".join(sorted(used))
    if g > 0 and a > 1:
        mu = _mhn_plan(a, b, g)[1]
        cfg["alpha_minus_2_times_log_mode"] = "positive" if (a - 2) * math.log(mu) > 0 else "nonpositive"
    ok = _two_stage(ctx, cfg, draw, slicer, np.zeros(1), np.full(1, np.inf), True, n, [0], seeds)
    ctx.note("mhn_params_regimes", [a, b, g, used])
    if ok:
        ctx.nontrivial("mhn:" + "+".join(sorted(used)))
    # rejection samplers driven through the global stream when no rng is given: reproducible from np.random.seed
    np.random.seed(seeds[0] % (2 ** 31))
    x1 = [d._MHN_sample(a, b, g) for _ in range(5)]
    np.random.seed(seeds[0] % (2 ** 31))
    x2 = [d._MHN_sample(a, b, g) for _ in range(5)]
    ctx.count("rng_reproducible_checked")
    if x1 != x2:
        ctx.violation("rng_not_reproducible", cfg, detail="_MHN_sample without rng is not a function of the global stream")

# =========================================================================== conditionals

def _build_cond(cuqi, which, rs):
    """-> (conditional distribution, [partial conditioning kwargs ...] (still conditional), full kwargs, direct builder)"""
    D = cuqi.distribution
    n = 4
    v = rs.uniform(0.5, 2.0, n)
    m = rs.uniform(-1, 1, n)
    if which == "Gaussian_mean_none":
        return D.Gaussian(None, 1.7, geometry=n, name="x"), [], {"mean": m}, lambda: D.Gaussian(m, 1.7, geometry=n, name="x")
    if which == "Gaussian_cov_callable":
        return D.Gaussian(m, cov=lambda s: s * v, name="x"), [], {"s": 2.0}, lambda: D.Gaussian(m, cov=2.0 * v, name="x")
    if which == "Gaussian_two_vars":
        return (D.Gaussian(mean=lambda a, b: a + b * m, cov=lambda s: s * v, geometry=n, name="x"),
                [{"a": 1.0}, {"a": 1.0, "b": 2.0}, {"s": 3.0}], {"a": 1.0, "b": 2.0, "s": 3.0}, lambda: D.Gaussian(1.0 + 2.0 * m, cov=3.0 * v, name="x"))
    if which == "Gaussian_model_mean":       # the usual data distribution y | x ~ N(A x, C)
        Mx = rs.uniform(-1, 1, (n, 3)); x0 = rs.uniform(-2, 2, 3)
        A = cuqi.model.LinearModel(Mx)
        return D.Gaussian(A, v, name="y"), [], {"x": x0}, lambda: D.Gaussian(Mx @ x0, v, name="y")
    if which == "Gaussian_sqrtprec_callable":
        return D.Gaussian(m, sqrtprec=lambda s: s * np.diag(v), name="x"), [], {"s": 2.0}, lambda: D.Gaussian(m, sqrtprec=2.0 * np.diag(v), name="x")
    if which == "Normal_mean_none":
        return D.Normal(None, v, name="x"), [], {"mean": m}, lambda: D.Normal(m, v, name="x")
    if which == "Normal_std_callable":
        return D.Normal(m, lambda s: s * v, name="x"), [], {"s": 0.5}, lambda: D.Normal(m, 0.5 * v, name="x")
    if which == "Gamma_rate_none":
        return D.Gamma(v + 1, None, name="x"), [], {"rate": v}, lambda: D.Gamma(v + 1, v, name="x")
    if which == "Gamma_shape_callable":
        return D.Gamma(lambda a: a * v, 2.0, name="x"), [], {"a": 3.0}, lambda: D.Gamma(3.0 * v, 2.0, name="x")
    if which == "InverseGamma_scale_none":
        return D.InverseGamma(v + 2, 0.0, None, name="x"), [], {"scale": v}, lambda: D.InverseGamma(v + 2, 0.0, v, name="x")
    if which == "Beta_alpha_none":
        return D.Beta(None, v + 1, name="x"), [], {"alpha": v}, lambda: D.Beta(v, v + 1, name="x")
    if which == "Laplace_scale_callable":
        return D.Laplace(m, lambda s: 2 * s, name="x"), [], {"s": 0.7}, lambda: D.Laplace(m, 1.4, name="x")
    if which == "Uniform_low_none":
        return D.Uniform(None, m + 3, name="x"), [], {"low": m}, lambda: D.Uniform(m, m + 3, name="x")
    if which == "Cauchy_scale_none":
        return D.Cauchy(m, None, name="x"), [], {"scale": v}, lambda: D.Cauchy(m, v, name="x")
    if which == "GMRF_prec_callable":
        return D.GMRF(m, lambda d: 2 * d, geometry=n, name="x"), [], {"d": 1.5}, lambda: D.GMRF(m, 3.0, geometry=n, name="x")
    if which == "GMRF_mean_none":
        return D.GMRF(None, 3.0, geometry=n, name="x"), [], {"mean": m}, lambda: D.GMRF(m, 3.0, geometry=n, name="x")
    if which == "Lognormal_mean_callable":
        # (dimension must be inferable from the covariance: the inner Gaussian does not see `geometry`)
        return D.Lognormal(lambda a: a * m, np.diag(0.3 * v), name="x"), [], {"a": 2.0}, lambda: D.Lognormal(2.0 * m, np.diag(0.3 * v), name="x")
    raise ValueError(which)

def _refusal(ctx, cfg, d, what):
    """sample() on a conditional must raise the documented ValueError before _sample runs."""
    for N, kw in ((1, {}), (3, {"rng": np.random.RandomState(0)})):
        log = ContractLog()
        with ensure(type(d), "_sample", lambda *a: None, log):
            kind, val = core.outcome(d.sample, N, **kw)
        entered = sum(log.evaluations.values())
        ctx.count("conditional_refusal_checked")
        if kind == "value":
            ctx.violation("conditional_not_refused", {**cfg, "state": what}, detail=f"sample({N}) of a distribution with open conditioning variables returned {type(val).__name__}")
        elif not isinstance(val, ValueError) or entered:
            ctx.violation("conditional_not_refused", {**cfg, "state": what},
                          detail=f"sample({N}) did not refuse up front: {type(val).__name__}: {core.short(str(val), 200)} (_sample entered {entered}x)")
        else:
            ctx.refused("conditional sample", val)

def _run_cond(case, ctx, cuqi, rs):
    cfg = _cfg(case)
    kind, built = core.outcome(_build_cond, cuqi, case["which"], rs)
    if kind != "value":
        ctx.refused("conditional constructor", built)
        ctx.inconclusive(f"{cfg}: conditional form not constructible: {built!r}")
        return
    d, partials, full, direct = built
    _refusal(ctx, cfg, d, "unconditioned")
    for kw in partials:
        kind, dp = core.outcome(d, **kw)
        if kind != "value":
            ctx.refused("partial conditioning", dp); continue
        _refusal(ctx, cfg, dp, "partially_conditioned")
    kind, dc = core.outcome(d, **full)
    if kind != "value":
        ctx.violation("crash", {**cfg, "exc": type(dc).__name__, "at": "conditioning"}, detail=f"conditioning on {sorted(full)} raised {dc!r}")
        return
    ref = direct()
    for N in (1, 5):
        k1, a = core.outcome(dc.sample, N, rng=np.random.RandomState(42))
        b = ref.sample(N, rng=np.random.RandomState(42))
        ctx.count("conditioned_sampler_checked")
        if k1 != "value":
            ctx.violation("conditioned_sampler_differs", cfg, detail=f"fully conditioned distribution refuses to sample: {a!r}")
            continue
        A, B = _values(a, N, int(ref.dim)), _values(b, N, int(ref.dim))
        if A is None or B is None or not np.allclose(A, B, rtol=1e-12, atol=0):
            ctx.violation("conditioned_sampler_differs", cfg, detail=f"sample({N}) after conditioning differs from the directly constructed distribution under the same generator state")
    ctx.nontrivial()

# =========================================================================== dimension known only after conditioning

def _late_spec(fam, param, form, n, rs):
    """Scalar parameters, the final value of the callable parameter (a vector of length n), how it is split into two
    conditioning variables, the support, and the reference log-density (vlib.refs.c04_densities, no cuqi)."""
    u = rs.uniform
    loc = lambda: u(-2.0, 2.0, n)
    pos = lambda a=0.4, b=2.5: u(a, b, n)
    inf = np.inf
    if fam == "Gaussian":
        sv = float(u(0.5, 3.0))
        vec = loc()
        cov = C4.gaussian_cov_from(form, sv, n, convention="code")
        return {"fixed": {form: sv}, "vec": vec, "additive": True, "lo": np.full(n, -inf), "hi": np.full(n, inf), "mom": True,
                "ref": lambda x: C4.gaussian_logpdf(x, vec, cov=cov), "gauss": "id"}
    if fam == "Lognormal":
        sv = float(u(0.05, 0.5)); vec = u(-1.0, 1.0, n)
        return {"fixed": {"cov": sv}, "vec": vec, "additive": True, "lo": np.zeros(n), "hi": np.full(n, inf), "mom": False,
                "ref": lambda x: C4.lognormal_logpdf(x, vec, sv), "gauss": "log"}
    table = {
        ("Normal", "mean"): ({"std": float(u(0.3, 3.0))}, loc, True, (-inf, inf), True),
        ("Normal", "std"): ({"mean": float(u(-2, 2))}, pos, False, (-inf, inf), True),
        ("Gamma", "shape"): ({"rate": float(u(0.3, 3.0))}, lambda: pos(1.2, 6.0), False, (0.0, inf), True),
        ("Gamma", "rate"): ({"shape": float(u(1.5, 5.0))}, pos, False, (0.0, inf), True),
        ("InverseGamma", "location"): ({"shape": float(u(2.5, 5.0)), "scale": float(u(0.5, 2.0))}, loc, True, None, False),
        ("InverseGamma", "scale"): ({"shape": float(u(2.5, 5.0)), "location": float(u(-1, 1))}, pos, False, None, False),
        ("InverseGamma", "shape"): ({"location": float(u(-1, 1)), "scale": float(u(0.5, 2.0))}, lambda: pos(2.5, 6.0), False, None, False),
        ("Beta", "alpha"): ({"beta": float(u(1.5, 4.0))}, lambda: pos(1.2, 5.0), False, (0.0, 1.0), True),
        ("Beta", "beta"): ({"alpha": float(u(1.5, 4.0))}, lambda: pos(1.2, 5.0), False, (0.0, 1.0), True),
        ("Laplace", "location"): ({"scale": float(u(0.3, 3.0))}, loc, True, (-inf, inf), True),
        ("Uniform", "low"): ({"high": float(u(2.5, 5.0))}, loc, True, None, True),
        ("Uniform", "high"): ({"low": -float(u(2.5, 5.0))}, loc, True, None, True),
        ("Cauchy", "location"): ({"scale": float(u(0.3, 3.0))}, loc, True, (-inf, inf), False),
        ("Cauchy", "scale"): ({"location": float(u(-2, 2))}, pos, False, (-inf, inf), False),
    }
    fixed, gen, additive, supp, mom = table[(fam, param)]
    vec = gen()
    full = {**fixed, param: vec}
    if supp is None:
        if fam == "InverseGamma":
            lo, hi = np.ones(n) * full["location"], np.full(n, inf)
        else:
            lo, hi = np.ones(n) * full["low"], np.ones(n) * full["high"]
    else:
        lo, hi = np.full(n, supp[0]), np.full(n, supp[1])
    return {"fixed": fixed, "vec": vec, "additive": additive, "lo": lo, "hi": hi, "mom": mom,
            "ref": lambda x: C4.indep_logpdf(fam, x, full), "gauss": "id" if fam == "Normal" else None}

def _late_condition(ctx, cfg, d, mode, A, B):
    """Apply the conditioning history `mode`; returns the fully conditioned distribution (or raises)."""
    if mode == "kw1":
        return d(a=A)
    if mode == "pos1":
        return d(A)
    if mode == "kw_both":
        return d(a=A, b=B)
    if mode == "kw2":
        d1 = d(b=B)
        _refusal(ctx, cfg, d1, "partially_conditioned")
        return d1(a=A)
    if mode == "mixed2":
        d1 = d(a=A)                       # the vector first: the dimension is known while b is still open
        _refusal(ctx, cfg, d1, "partially_conditioned")
        return d1(B)
    raise ValueError(mode)

def _run_latedim(case, ctx, cuqi, rs):
    cfg = _cfg(case)
    D = cuqi.distribution
    fam, param, form, n, mode = case["family"], case["param"], case.get("form"), case["len"], case["mode"]
    # ---- forms for which the dimension can never be inferred: a consistent refusal is fine, a value has to be right
    if fam == "GMRF" or param == "mean+matrix":
        def build():
            if fam == "GMRF":
                return D.GMRF(lambda a: a, 2.0, name="x")(a=rs.uniform(-1, 1, max(n, 2)))
            return D.Gaussian(mean=lambda a: a, cov=lambda s: s, name="x")(s=2.0)(a=rs.uniform(-1, 1, n))
        kind, val = core.outcome(build)
        ctx.count("latedim_refusals_checked")
        if kind == "refused":
            ctx.refused("dimension not inferable", val); ctx.nontrivial()
        elif kind == "crashed":
            ctx.violation("crash", {**cfg, "exc": type(val).__name__}, detail=f"{val!r}")
        else:
            ctx.inconclusive(f"{cfg}: form is now accepted by the library; extend the check to judge it")
        return
    spec = _late_spec(fam, param, form, n, rs)
    vec, fixed = spec["vec"], spec["fixed"]
    two = mode in ("kw2", "mixed2", "kw_both")
    if two:
        B = float(rs.uniform(0.5, 1.5))
        A = (vec - B) if spec["additive"] else (vec / B)
        fn = (lambda a, b: a + b) if spec["additive"] else (lambda a, b: a * b)
    else:
        A, B, fn = vec, None, (lambda a: a)
    A = _lay(A, ("C", "ro_slice")[n % 2], label="a")
    cls = getattr(D, fam)
    kind, d = core.outcome(lambda: cls(**{**fixed, param: fn}, name="x"))
    if kind != "value":
        ctx.refused("conditional constructor without geometry", d); ctx.count("latedim_refusals_checked"); ctx.nontrivial()
        return
    _refusal(ctx, cfg, d, "unconditioned")
    kind, dc = core.outcome(_late_condition, ctx, cfg, d, mode, A, B)
    if kind != "value":
        # refusing to condition is acceptable when it is consistent: the same history must refuse again
        k2, _ = core.outcome(_late_condition, ctx, cfg, d, mode, A, B)
        ctx.count("latedim_refusals_checked")
        if kind == "crashed" or k2 == "value":
            ctx.violation("crash", {**cfg, "exc": type(dc).__name__, "at": "conditioning"}, detail=f"conditioning raised {dc!r}")
        else:
            ctx.refused("conditioning", dc)
        return
    full_value = np.array(A, dtype=float) + B if (two and spec["additive"]) else (np.array(A, dtype=float) * B if two else np.array(A, dtype=float))
    direct = cls(**{**fixed, param: full_value}, name="x")
    ctx.count("latedim_conditioned_checked")
    # (1) the dimension is the length of what it was conditioned on
    kd, dim = core.outcome(lambda: int(dc.dim))
    if kd != "value" or dim != n or int(direct.dim) != n:
        ctx.violation("conditioned_dim_mismatch", cfg, detail=f"conditioned on a vector of length {n}: dim = {dim!r}, directly built distribution has dim {direct.dim}")
        return
    # (2) same generator state => same draws as the directly constructed distribution
    sample_ok = True
    for N in (1, 4):
        k1, a = core.outcome(dc.sample, N, rng=np.random.RandomState(42))
        b = direct.sample(N, rng=np.random.RandomState(42))
        ctx.count("conditioned_sampler_checked")
        if k1 != "value":
            sample_ok = False
            ctx.refused("sample after conditioning", a) if k1 == "refused" else ctx.violation("crash", {**cfg, "exc": type(a).__name__, "at": "sample"}, detail=repr(a))
            continue
        Aa, Bb = _values(a, N, n), _values(b, N, n)
        if Aa is None or Bb is None or not np.allclose(Aa, Bb, rtol=1e-12, atol=0):
            ctx.violation("conditioned_sampler_differs", cfg,
                          detail=f"sample({N}) after conditioning (dim {n}) differs from the directly constructed distribution under the same generator state"
                                 + ("" if Aa is None or Bb is None else f"; max diff {np.max(np.abs(Aa - Bb)):.3g}"))
    # (3) log-density of the conditioned object vs the reference of the fully specified distribution
    X = np.asarray(direct.sample(3, rng=np.random.RandomState(7)).samples, dtype=float).reshape(n, 3)
    dens_ok = True
    for k in range(3):
        x = X[:, k].copy()
        want = float(spec["ref"](x))
        with np.errstate(all="ignore"):
            kl, got = core.outcome(dc.logd, x)
        ctx.count("latedim_logpdf_ref_checked")
        if kl != "value":
            dens_ok = False
            if sample_ok:
                ctx.violation("density_refused_but_sampled", cfg, detail=f"the conditioned distribution samples but logd raises {got!r}")
            else:
                ctx.refused("logd after conditioning", got)
            break
        if not ctx.close(_f(got), want, rtol=1e-8, atol=1e-9):
            dens_ok = False
            ctx.violation("conditioned_density_differs", cfg, detail=f"dim {n}: logd of the conditioned distribution = {_f(got)!r}, reference of the fully specified distribution = {want!r} "
                                                                      f"(directly built object: {_f(direct.logd(x))!r})")
            break
    if not sample_ok:
        if not dens_ok:
            ctx.nontrivial()      # refuses both: consistent
        return
    # (4) the law of the conditioned object itself
    T = {"id": (None, None, None), "log": (np.log, np.exp, lambda y: float(np.sum(y)))}
    if spec["gauss"]:
        t, ti, lj = T[spec["gauss"]]
        # covariance incl. off-diagonals read off the scripted stream, against the directly built object ...
        try:
            m1, B1, _ = _read_affine(dc, "rng", t or (lambda Z: Z), n)
            m2, B2, _ = _read_affine(direct, "rng", t or (lambda Z: Z), n)
            ctx.count("latedim_cov_offdiag_checked")
            C1, C2 = B1 @ B1.T, B2 @ B2.T
            if C1.shape != C2.shape or np.max(np.abs(C1 - C2)) > 1e-9 * np.max(np.abs(C2)) or np.max(np.abs(m1 - m2)) > 1e-9 * (1 + np.max(np.abs(m2))):
                off = C1 - np.diag(np.diag(C1))
                ctx.violation("sampler_cov_mismatch", {**cfg, "against": "direct"},
                              detail=f"dim {n}: covariance of the conditioned sampler's affine map differs from the directly built distribution's "
                                     f"(largest off-diagonal entry {np.max(np.abs(off)) if off.size else 0:.3g}, rank {np.linalg.matrix_rank(C1)} vs {np.linalg.matrix_rank(C2)})")
        except _StreamShape as e:
            ctx.inconclusive(f"{cfg}: {e}")
        # ... and against the object's own log-density
        if dens_ok and _affine_monitor(ctx, dc, cfg, T=t, T_inv=ti, log_jac=lj):
            ctx.nontrivial()
    else:
        if (n == 5 and mode in ("kw1", "mixed2", "kw_both")) if ctx.tier == "quick" else (n in (2, 5, 80)):
            nn = {"quick": 25000, "thorough": 100000}[ctx.tier] if n < 50 else 30000
            seeds = [int(rs.randint(1, 2 ** 31 - 1)) for _ in range(2)]
            def draw(k, seed):
                return np.asarray(dc.sample(k, rng=np.random.RandomState(seed)).samples, dtype=float)
            def slicer(x0, i):
                def logf(tt):
                    x = np.array(x0, dtype=float, copy=True); x[i] = tt
                    with np.errstate(all="ignore"):
                        return _f(dc.logd(x))
                return logf
            coords = sorted(set([0, n // 2, n - 1])) if n > 5 else list(range(n))
            if dens_ok and _two_stage(ctx, cfg, draw, slicer, spec["lo"], spec["hi"], spec["mom"], nn, coords, seeds):
                ctx.nontrivial()
        elif dens_ok:
            ctx.nontrivial()
    _rng_monitor(ctx, dc, cfg)
    _wrapper_monitor(ctx, cuqi, dc, cfg, Ns=(1, 3))

# =========================================================================== user defined

def _run_userdef(case, ctx, cuqi, rs):
    cfg = _cfg(case)
    n = case["n"]
    calls = []
    def sample_func():
        v = np.arange(n, dtype=float) + 10.0 * len(calls) + 0.5
        calls.append(v)
        return v
    d = cuqi.distribution.UserDefinedDistribution(dim=n, logpdf_func=lambda x: -0.5 * float(np.sum(np.asarray(x) ** 2)), sample_func=sample_func, name="x")
    for N in (1, 4):
        calls.clear()
        out = d.sample(N)
        ctx.count("wrapper_shape_checked")
        A = _values(out, N, n)
        ok_type = isinstance(out, cuqi.array.CUQIarray if N == 1 else cuqi.samples.Samples)
        if A is None or not ok_type or len(calls) != N or not np.array_equal(A, np.array(calls).T):
            ctx.violation("wrapper_alters_values", cfg, detail=f"sample({N}) of a user-defined sampler: {type(out).__name__}, {len(calls)} calls, values {None if A is None else A.tolist()}")
        ctx.count("wrapper_values_checked")
        g = getattr(out, "geometry", None)
        ctx.count("geometry_carried_checked")
        if g is None or not (g is d.geometry or g == d.geometry):
            ctx.violation("geometry_not_carried", cfg, detail=f"sample({N}) carries geometry {g!r}")
    d2 = cuqi.distribution.UserDefinedDistribution(dim=n, logpdf_func=lambda x: 0.0, name="x")
    kind, val = core.outcome(d2.sample, 2, refusal=(Exception,))
    ctx.count("refusal_observed")
    if kind == "value":
        ctx.violation("conditional_not_refused", {**cfg, "state": "no_sample_func"}, detail="sampling without a sample_func returned a value")
    else:
        ctx.refused("userdefined without sample_func", val)
    ctx.nontrivial()

# =========================================================================== dispatch

_RUN = {"gauss": _run_gauss, "gmrf": _run_gmrf, "lognormal": _run_lognormal, "normal": _run_normal, "gallery": _run_gallery,
        "stat": _run_stat, "latedim": _run_latedim, "mhn_direct": _run_mhn_direct, "cond": _run_cond, "userdef": _run_userdef}

def run_case(case, ctx):
    import cuqi
    import warnings
    warnings.filterwarnings("ignore")
    rs = core.np_rng(ctx.seed, PROPERTY, core.canon(case))
    st = np.random.get_state()
    del _CALLER[:]
    try:
        _RUN[case["kind"]](case, ctx, cuqi, rs)
        _caller_arrays_monitor(ctx, {**_cfg(case), "history": "end_of_case"})
    finally:
        np.random.set_state(st)
        del _CALLER[:]

def selftest(ctx):
    for msg in L.selftest():
        ctx.inconclusive(msg)
