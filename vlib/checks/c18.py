"""C18 - PDE models solve the discretised equations given and observe them consistently.

Workload (harness-written PDE forms, recording solvers, recording observation maps):
  steady    SteadyStateLinearPDE: A(p) u = b(p), dense / np.matrix / csr / csc, solvers default, scipy.linalg.solve,
            spsolve, cg (info tuple), own solvers returning 1-, 2- and 3-tuples and taking kwargs; histories
            fresh / re-assembled with another parameter / grids re-assigned after construction
  time      TimeDependentLinearPDE: operators, sources and initial conditions depending on p and on t, uniform /
            non-uniform / two-phase / short time grids with t0 != 0, both Euler methods, the same solver zoo
  observe   observe() fed directly with polynomial "solutions" (black box test of restriction/interpolation)
  model     PDEModel.forward / gradient around the above, several domain geometries and input representations
  shipped   the generic oracles applied to the PDE objects inside testproblem.Heat1D / Poisson1D
  history   one PDEModel object used repeatedly: parameter buffer updated in place between forwards/gradients, observation
            settings (grid_obs, grid_sol, observation_map, method) changed between two calls with equal input, returned
            array edited by the caller; inputs must stay untouched, arrays handed out earlier must not change
  dtype     (axis of steady/time) int / bool / float32 / python-list initial conditions, sources, right-hand sides,
            integer parameters, integer time grids and space grids - the oracles hold in float64
  order     (axis of the observation grids/times) all solution nodes permuted or reversed, permuted subsets, repeated nodes,
            permuted / repeated observation times: expected is the solution at the points in the order given; the ValueError
            of the bivariate spline for unsorted points is an accepted refusal, a returned value is judged
  layout    parameters / solutions handed over read-only, as non-contiguous views or Fortran-ordered; grids read-only; every
            array argument must be unchanged after assemble/solve/observe; a second PDE object of another configuration is
            built before or after the one under test and used in between (shared class-level state shows up in either)
  misc      spelling of `method`, grids that are too short to interpolate
Monitors: recording PDE_form (which (p, t) were assembled, in which order), recording linear solver (the system it
  was handed, the kwargs, what it returned), recording observation map (what it was handed).
Oracle: vlib/refs/c18_pde.py (Euler recurrences, not-a-knot interpolating splines from the Cox-de Boor recursion;
  pure numpy) - residual of the recorded steady system, per-level Euler defect with the operator of the documented
  time and the actual dt, the systems handed to the solver in backward Euler, restriction at coinciding nodes/times,
  reference interpolation elsewhere, exact reproduction of polynomials, forward == assemble-solve-observe by hand,
  gradient == central differences of the real forward map.
"""
import contextlib
import inspect
import numpy as np
from vlib import core
from vlib.refs import c18_pde as R

PROPERTY = "C18"
RULE = ("discrete axes (PDE form x matrix format x linear solver x time grid x Euler method x observation grid x "
        "observation times x observation map x history x geometry x input representation) are enumerated/cycled, sizes, "
        "grids and parameters are drawn from the case's private stream; a case is non-trivial when the library returned a "
        "solution/observation and a deciding monitor (system residual, Euler level defect with a time-dependent operator, "
        "solver-boundary comparison, restriction/interpolation comparison, forward/gradient comparison) compared values; "
        "distinct = distinct descriptors")
ASSUMPTIONS = [
    "steady observation off the nodes is the quadratic interpolating spline of scipy.interpolate.interp1d(kind='quadratic') "
    "(documented by construction); time-dependent observation off the nodes/times is the bicubic interpolating spline "
    "(RectBivariateSpline defaults); both are re-implemented from the Cox-de Boor recursion and cross-checked in the self test",
    "observation grids are sorted and inside the solution grid; observation times lie inside the time grid",
    "which solver call's extra return values `info` refers to in backward Euler is not documented and not judged "
    "(it must be the extras of one of the calls of that solve)",
]
REQUIRED_COUNTERS = {
    "quick": {"steady_residual_checked": 90, "euler_levels_checked": 1400, "be_solver_systems_checked": 900,
              "observation_compared": 220, "coinciding_points_checked": 4000, "polynomial_reproduction_checked": 250,
              "model_forward_compared": 280, "model_gradient_compared": 40, "info_passthrough_checked": 170,
              "assembly_schedule_checked": 130, "refusal_observed": 25, "history_forward_compared": 180,
              "input_unchanged_checked": 220, "nonfloat_variant_levels_checked": 900, "nonfloat_variant_steady_checked": 60,
              "same_length_offnode_discriminating": 90, "near_final_time_discriminating": 10, "second_object_interleaved": 100,
              "single_point_single_time_checked": 120, "single_point_on_node_checked": 25, "single_point_off_node_checked": 25,
              "single_point_final_time_checked": 20, "single_point_interior_time_checked": 25, "single_point_with_map_checked": 30,
              "single_point_without_map_checked": 18},
    "thorough": {"steady_residual_checked": 1700, "euler_levels_checked": 25000, "be_solver_systems_checked": 18000,
                 "observation_compared": 4000, "coinciding_points_checked": 80000, "polynomial_reproduction_checked": 2800,
                 "model_forward_compared": 4500, "model_gradient_compared": 600, "info_passthrough_checked": 3400,
                 "assembly_schedule_checked": 2500, "refusal_observed": 500, "history_forward_compared": 1400,
                 "input_unchanged_checked": 1800, "nonfloat_variant_levels_checked": 18000, "nonfloat_variant_steady_checked": 1200,
                 "same_length_offnode_discriminating": 1500, "near_final_time_discriminating": 200, "second_object_interleaved": 1800,
                 "single_point_single_time_checked": 700, "single_point_on_node_checked": 150, "single_point_off_node_checked": 150,
                 "single_point_final_time_checked": 120, "single_point_interior_time_checked": 150, "single_point_with_map_checked": 180,
                 "single_point_without_map_checked": 100},
}
BUDGET_S = {"quick": 240.0, "thorough": 1500.0}

# --------------------------------------------------------------------------- axes
STEADY_FORMS = ("src_lin", "src_nonlin", "op_diff", "advdiff")
SPD_FORMS = ("src_lin", "src_nonlin", "op_diff")
FMTS = ("dense", "npmatrix", "csr", "csc")
TIME_FORMS = ("ic_par", "src_par", "op_par")
TIME_FMTS = ("dense", "csr", "npmatrix")
METHODS = ("forward_euler", "backward_euler")
TGRIDS = ("uniform", "nonuniform", "two_phase", "short")
GRIDS = ("none", "sol_only", "equal_copy", "subset", "offnode", "offnode_samelen", "mixed", "near_far", "near_tiny",
         "perm_full", "reversed", "repeated", "subset_perm")
# perm_full / reversed : all solution nodes in another order (sensor numbering); repeated : same length, some nodes twice
# (sorted); subset_perm : some nodes in another order.  Expected: the solution at the observation nodes IN THE ORDER GIVEN.
UNSORTED_GRIDS = ("perm_full", "reversed", "subset_perm")
SINGLE_GRIDS = ("single_node", "single_off")          # one observation point, on a node / between nodes
SINGLE_TOBS = ("final", "explicit_final", "single_mid_node", "single_off_time", "near_final")
# near_far : same length as grid_sol, nodes shifted by 1e-3..0.4 of a spacing on a grid with coordinates ~1e3..1e4 and
#            spacing 1e-2..1e-1;  near_tiny : same length, unit-scale grid, shifts ~1e-6 of the coordinate (some nodes kept)
STEADY_GRIDS = GRIDS
TOBS = ("final", "Final", "all", "explicit_final", "on_nodes", "single_mid_node", "off_nodes", "mixed", "list_on_nodes", "ALL",
        "near_final", "near_nodes", "on_nodes_perm", "repeated_times")      # times a tiny relative amount away from stored times, on a time grid at t ~ 1e3..1e4
MAPS = ("none", "square", "matrix", "pick")
HIST = ("fresh", "reassemble", "regrid_obs", "regrid_sol")
# representation of what the user's PDE form / grids / parameter hand to the library (values are the same numbers)
TIME_DTYPES = ("float", "ic_int", "ic_bool", "float", "ic_f32", "ic_list", "par_int", "float", "ts_int", "grid_int", "src_int")
STEADY_DTYPES = ("float", "b_int", "b_list", "float", "p_int", "p_list", "A_int", "grid_int")
SCENARIOS = ("inplace_input", "inplace_input_grad", "settings_grid_obs", "settings_map", "settings_grid_sol", "settings_method",
             "output_mutated")


def _steady_solvers(form, fmt):
    s = ["own", "tuple3", "tuple1", "kw"]
    if fmt in ("dense", "npmatrix"):
        s += ["default", "scipy_solve"]
    else:
        s += ["spsolve"]
    if form in SPD_FORMS:
        s += ["cg_tuple"]
    return s


def _time_solvers(form, fmt, method):
    if method == "forward_euler":
        return ["own", "default"]
    s = ["own", "tuple3", "default", "scipy_solve", "kw"]
    if fmt == "csr":
        s += ["spsolve"]
    s += ["cg_tuple"]          # the form is made symmetric for cg
    return s


def cases(tier, seed):
    rg = core.rng_for(seed, PROPERTY, tier)
    out = []
    reps = {"quick": (2, 1, 2, 1), "thorough": (40, 20, 20, 16)}[tier]
    # ---- steady
    i = 0
    for rep in range(reps[0]):
        for form in STEADY_FORMS:
            for fmt in FMTS:
                for solver in _steady_solvers(form, fmt):
                    out.append({"kind": "steady", "form": form, "fmt": fmt, "solver": solver,
                                "grid": STEADY_GRIDS[i % len(STEADY_GRIDS)], "map": MAPS[(i // 3) % len(MAPS)] if rep else rg.choice(MAPS),
                                "hist": HIST[(i // 2) % len(HIST)] if rep == 0 else rg.choice(HIST), "rep": rep,
                                "dtype": STEADY_DTYPES[(i // 3) % len(STEADY_DTYPES)]})
                    i += 1
    # ---- time dependent
    i = 0
    for rep in range(reps[1]):
        for form in TIME_FORMS:
            for fmt in TIME_FMTS:
                for method in METHODS:
                    for solver in _time_solvers(form, fmt, method):
                        for tgrid in TGRIDS:
                            out.append({"kind": "time", "form": form, "fmt": fmt, "method": method, "solver": solver,
                                        "tgrid": tgrid, "grid": GRIDS[i % len(GRIDS)], "tobs": TOBS[(i // 2) % len(TOBS)] if rep == 0 else rg.choice(TOBS),
                                        "map": rg.choice(MAPS), "hist": ("fresh", "reassemble", "regrid_obs", "regrid_sol", "switch_method", "fresh")[(i // 5) % 6] if rep == 0 else
                                        rg.choice(("fresh", "fresh", "reassemble", "regrid_obs", "regrid_sol", "switch_method")), "rep": rep,
                                        "dtype": TIME_DTYPES[(i + i // len(TIME_DTYPES)) % len(TIME_DTYPES)]})
                            i += 1
    # ---- one observation point at one observation time (on / off node, final / interior time, with / without a map)
    j = 0
    for rep in range({"quick": 1, "thorough": 6}[tier]):
        for grid in SINGLE_GRIDS:
            for tobs in SINGLE_TOBS:
                for mp in MAPS:
                    for method in METHODS:
                        out.append({"kind": "time", "form": TIME_FORMS[j % 3], "fmt": TIME_FMTS[(j // 3) % 3], "method": method,
                                    "solver": "own" if method == "forward_euler" else ("own", "tuple3", "default")[j % 3], "tgrid": ("nonuniform", "uniform", "two_phase")[j % 3],
                                    "grid": grid, "tobs": tobs, "map": mp, "hist": "fresh", "dtype": "float", "rep": rep, "single": True})
                        j += 1
                    out.append({"kind": "observe", "pde": "time", "grid": grid, "tobs": tobs, "map": mp if mp != "pick" else "none",
                                "tgrid": ("uniform", "nonuniform", "two_phase")[j % 3], "rep": rep, "single": True})
                for inp in ("ndarray", "cuqiarray", "samples", "funvals"):
                    out.append({"kind": "model", "pde": "time", "form": TIME_FORMS[j % 3], "geom": ("int", "continuous1d", "harness_exp")[j % 3], "input": inp,
                                "jac": "jacobian", "grid": grid, "map": ("none", "square", "matrix")[j % 3], "method": METHODS[j % 2],
                                "tgrid": "nonuniform", "tobs": tobs, "rep": rep, "single": True})
                    j += 1
    # ---- black-box observation of polynomial solutions
    for rep in range(reps[2]):
        for grid in STEADY_GRIDS:
            for mp in ("none", "square"):
                out.append({"kind": "observe", "pde": "steady", "grid": grid, "map": mp, "rep": rep})
        for grid in GRIDS:
            for tobs in TOBS:
                out.append({"kind": "observe", "pde": "time", "grid": grid, "tobs": tobs, "map": rg.choice(("none", "square", "matrix")),
                            "tgrid": rg.choice(("uniform", "nonuniform", "two_phase")), "rep": rep})
    # ---- PDEModel forward / gradient
    for rep in range(reps[3]):
        for pde in ("steady", "time"):
            forms = STEADY_FORMS if pde == "steady" else TIME_FORMS
            for form in forms:
                for geom in ("int", "continuous1d", "mapped_exp", "harness_exp"):
                    for inp in ("ndarray", "cuqiarray", "funvals", "keyword", "samples"):
                        for jac in ("jacobian", "gradient", "both", "neither")[: 4 if inp == "ndarray" else 1]:
                            c = {"kind": "model", "pde": pde, "form": form, "geom": geom, "input": inp, "jac": jac,
                                 "grid": rg.choice(("none", "sol_only", "subset", "offnode", "mixed", "near_far", "near_far", "near_tiny", "repeated") +
                                                   (("perm_full", "reversed", "subset_perm") if pde == "steady" else ())), "map": rg.choice(MAPS[:3]), "rep": rep}
                            if pde == "time":
                                c.update({"method": rg.choice(METHODS), "tgrid": rg.choice(("uniform", "nonuniform", "two_phase")),
                                          "tobs": rg.choice(("final", "final", "all", "on_nodes", "off_nodes", "explicit_final", "near_final"))})
                            out.append(c)
    # ---- histories on one PDEModel object
    for rep in range({"quick": 1, "thorough": 8}[tier]):
        for pde in ("steady", "time"):
            for form in (STEADY_FORMS if pde == "steady" else TIME_FORMS):
                for geom in ("int", "continuous1d", "harness_exp"):
                    for scen in SCENARIOS:
                        if scen == "settings_method" and pde == "steady":
                            continue
                        c = {"kind": "history", "pde": pde, "form": form, "geom": geom, "scenario": scen, "input": "ndarray", "jac": "jacobian",
                             "grid": rg.choice(("sol_only", "subset", "offnode", "mixed", "equal_copy", "near_far") + (("perm_full", "reversed") if pde == "steady" else ())), "map": rg.choice(MAPS[:3]), "rep": rep}
                        if pde == "time":
                            c.update({"method": rg.choice(METHODS), "tgrid": rg.choice(("uniform", "nonuniform", "two_phase")),
                                      "tobs": rg.choice(("final", "final", "explicit_final", "single_mid_node", "all", "off_nodes"))})
                        out.append(c)
    # ---- shipped PDE objects
    for rep in range({"quick": 1, "thorough": 8}[tier]):
        for prob in ("Heat1D", "Poisson1D"):
            for field in ("none", "step", "mapped"):
                for og in ("none", "subset", "single"):
                    out.append({"kind": "shipped", "problem": prob, "field": field, "obsgrid": og, "rep": rep})
    # ---- misc
    for sp in ("Forward_Euler", "BACKWARD_EULER", "forward_Euler", "Backward_euler", "rk4", "euler"):
        out.append({"kind": "misc", "what": "method_spelling", "method": sp})
    for tobs in ("final", "all", "explicit_final", "on_nodes"):
        for grid in ("none", "sol_only"):
            out.append({"kind": "misc", "what": "solution_3d", "tobs": tobs, "grid": grid})
    for rep in range({"quick": 1, "thorough": 3}[tier]):
        for short_axis in ("time", "space"):
            for npts in (2, 3):
                for method in METHODS:
                    for tobs in ("all", "on_nodes", "final_offgrid"):
                        out.append({"kind": "misc", "what": "short_grid", "axis": short_axis, "npts": npts, "method": method, "tobs": tobs, "rep": rep})
    return out


def crash_config(case):
    return {k: case[k] for k in ("kind", "pde", "form", "fmt", "solver", "method", "grid", "tobs", "map", "geom", "problem", "what", "dtype", "scenario") if k in case}


_cfg = crash_config

# --------------------------------------------------------------------------- recording devices


class RecCallable:
    """Pass-through that records (args copies, result)."""

    def __init__(self, fn):
        self.fn = fn
        self.calls = []

    def __call__(self, *args, **kwargs):
        snap = tuple(_copy(a) for a in args)
        out = self.fn(*args, **kwargs)
        self.calls.append({"args": snap, "kwargs": dict(kwargs), "out": out})
        return out


def _copy(a):
    if hasattr(a, "toarray"):
        return a.copy()
    if isinstance(a, np.ndarray):
        return np.array(a, copy=True)
    try:
        return np.array(a, dtype=float, copy=True)
    except Exception:  # noqa
        return a


def _dense(A):
    return R.dense(A)


def _fmt(A, fmt):
    import scipy.sparse as sp
    if fmt == "dense":
        return np.array(A)
    if fmt == "npmatrix":
        return np.asmatrix(np.array(A))
    if fmt == "csr":
        return sp.csr_matrix(A)
    if fmt == "csc":
        return sp.csc_matrix(A)
    raise ValueError(fmt)


def _cg_kwargs():
    import scipy.sparse.linalg as spl
    return {"rtol": 1e-14, "atol": 0.0} if "rtol" in inspect.signature(spl.cg).parameters else {"tol": 1e-14, "atol": 0.0}


def _make_solver(name):
    """Returns (linalg_solve or None, kwargs or None, expected_extras_fn(result)->tuple|None)."""
    import scipy.linalg, scipy.sparse.linalg as spl
    if name == "default":
        return None, None
    if name == "own":
        return RecCallable(lambda A, b: np.linalg.solve(_dense(A), np.asarray(b, dtype=float).ravel())), None
    if name == "scipy_solve":
        return RecCallable(lambda A, b, **kw: scipy.linalg.solve(A, b, **kw)), {"check_finite": True}
    if name == "spsolve":
        return RecCallable(lambda A, b, **kw: spl.spsolve(A, b, **kw)), {"use_umfpack": False}
    if name == "cg_tuple":
        return RecCallable(lambda A, b, **kw: spl.cg(A, np.asarray(b, dtype=float).ravel(), **kw)), _cg_kwargs()
    if name == "tuple3":
        return RecCallable(lambda A, b: (np.linalg.solve(_dense(A), np.asarray(b, dtype=float).ravel()), "converged", np.arange(3.0))), None
    if name == "tuple1":
        return RecCallable(lambda A, b: (np.linalg.solve(_dense(A), np.asarray(b, dtype=float).ravel()),)), None
    if name == "kw":
        def s(A, b, shift=0.0, tag=None):
            if tag != "c18" or shift != 0.5:
                raise RuntimeError("harness solver: linalg_solve_kwargs were not handed over")
            return np.linalg.solve(_dense(A), np.asarray(b, dtype=float).ravel()), {"tag": tag}
        return RecCallable(s), {"shift": 0.5, "tag": "c18"}
    raise ValueError(name)


@contextlib.contextmanager
def _patched_default_solver(rec_holder):
    """The default solver is looked up as scipy.linalg.solve when the PDE object is constructed;
    replace that attribute by a recording pass-through for the duration of the construction."""
    import scipy.linalg
    orig = scipy.linalg.solve
    rec = RecCallable(lambda A, b, **kw: orig(A, b, **kw))
    rec_holder.append(rec)
    scipy.linalg.solve = rec
    try:
        yield rec
    finally:
        scipy.linalg.solve = orig


# --------------------------------------------------------------------------- generators
def _mk_grid(rs, n, uniform=None, far=False):
    if uniform is None:
        uniform = rs.rand() < 0.35
    if far:          # large coordinate offset, small spacing
        x0, h0 = float(10 ** rs.uniform(3, 4)), float(10 ** rs.uniform(-2, -1))
        h = np.full(n - 1, h0) if uniform else h0 * rs.uniform(0.5, 2.0, n - 1)
        return x0 + np.concatenate([[0.0], np.cumsum(h)])
    scale = float(rs.choice([0.05, 0.3, 1.0]))
    x0 = float(rs.choice([0.0, -1.3, 0.25]))
    if uniform:
        return np.linspace(x0, x0 + scale * (n - 1), n)
    h = rs.uniform(0.5, 2.0, n - 1) * scale
    return x0 + np.concatenate([[0.0], np.cumsum(h)])


def _mk_obs_grid(rs, x, kind):
    n = len(x)
    if kind in ("none", "sol_only"):
        return None
    if kind == "equal_copy":
        return x.copy()
    if kind == "single_node":
        return np.asarray(x, dtype=float)[[int(rs.randint(0, n))]].copy()
    if kind == "single_off":
        return np.array([float(rs.uniform(x[0], x[-1]))])
    if kind in ("perm_full", "reversed"):
        idx = np.arange(n)[::-1] if kind == "reversed" else rs.permutation(n)
        if np.array_equal(idx, np.arange(n)):
            idx = idx[::-1]
        return np.asarray(x)[idx].copy()
    if kind == "repeated":
        idx = np.sort(rs.choice(n, n, replace=True))
        if len(set(idx.tolist())) == n:
            idx[1] = idx[0]
        return np.asarray(x)[idx].copy()
    if kind in ("subset", "subset_perm"):
        k = int(rs.randint(1 if kind == "subset" else 2, n))
        idx = np.sort(rs.choice(n, k, replace=False))
        if kind == "subset_perm":
            idx = rs.permutation(idx)
            if np.all(np.diff(idx) > 0):
                idx = idx[::-1]
        return x[idx].copy()
    if kind == "offnode":
        k = int(rs.randint(1, n + 4))
        if k == n:
            k += 1
        return np.sort(rs.uniform(x[0], x[-1], k))
    if kind == "offnode_samelen":
        return np.sort(rs.uniform(x[0], x[-1], n))
    if kind in ("near_far", "near_tiny"):
        xf = np.asarray(x, dtype=float)
        h = np.diff(xf)
        hloc = np.concatenate([[h[0]], np.minimum(h[:-1], h[1:]), [h[-1]]])
        sign = rs.choice([-1.0, 1.0], n)
        sign[0], sign[-1] = 1.0, -1.0                       # stay inside the solution grid
        if kind == "near_far":
            mag = hloc * 10 ** rs.uniform(-3, np.log10(0.4), n) if rs.rand() < 0.5 else hloc * float(10 ** rs.uniform(-3, np.log10(0.4)))
        else:
            mag = np.minimum(1e-6 * np.maximum(np.abs(xf), 0.1) * rs.uniform(0.1, 1.0, n), 0.1 * hloc)
            mag[np.abs(xf) < 0.1] = 0.0                     # nodes near the origin stay on the node
            if not np.any(mag > 0):
                mag[n // 2] = min(1e-7, 0.1 * hloc[n // 2])
        g = xf + sign * mag
        return g
    if kind == "mixed":
        k = int(rs.randint(1, max(2, n - 2)))
        idx = rs.choice(np.arange(1, n - 1), min(k, n - 2), replace=False)
        pts = np.concatenate([x[[0, -1]], x[idx], rs.uniform(x[0], x[-1], int(rs.randint(1, 5)))])
        return np.sort(pts)
    raise ValueError(kind)


def _mk_time_grid(rs, kind, nt=None):
    t0 = float(rs.choice([0.0, 0.0, 0.3, -0.2]))
    if kind == "short":
        nt = int(rs.randint(2, 4))
        kind = "nonuniform" if rs.rand() < 0.5 else "uniform"
    if nt is None:
        nt = int(rs.randint(4, 26))
    if kind == "uniform":
        dt = float(rs.uniform(0.02, 0.4))
        return t0 + dt * np.arange(nt)
    if kind == "nonuniform":
        d = rs.uniform(0.03, 0.12, nt - 1) * rs.choice([1.0, 1.0, 2.5, 4.0], nt - 1)
        return t0 + np.concatenate([[0.0], np.cumsum(d)])
    if kind == "two_phase":
        n1 = (nt - 1) // 2
        dt1 = float(rs.uniform(0.03, 0.15))
        d = np.concatenate([np.full(n1, dt1), np.full(nt - 1 - n1, dt1 * float(rs.choice([0.4, 2.5])))])
        return t0 + np.concatenate([[0.0], np.cumsum(d)])
    raise ValueError(kind)


def _mk_time_obs(rs, ts, kind):
    """Returns (value handed to the library, reference array of times)."""
    nt = len(ts)
    if kind in ("final", "Final", "FINAL"):
        return kind, ts[-1:].copy()
    if kind in ("all", "ALL"):
        return kind, ts.copy()
    if kind == "explicit_final":
        return np.array([ts[-1]]), ts[-1:].copy()
    if kind == "single_off_time":
        v = np.array([float(rs.uniform(ts[0], ts[-1]))])
        return v, v.copy()
    if kind in ("on_nodes_perm", "repeated_times"):
        k = int(rs.randint(2, max(3, nt)))
        idx = np.sort(rs.choice(nt, min(k, nt), replace=False))
        if kind == "on_nodes_perm":
            idx = idx[::-1] if rs.rand() < 0.5 or len(idx) == 2 else np.roll(idx, 1)
        else:
            idx = np.sort(np.concatenate([idx, idx[:1]]))
        v = np.asarray(ts)[idx].copy()
        return v, v.copy()
    if kind == "near_final":       # just before the final time (relative distance 1e-9..1e-5 at large t, or a fraction of dt)
        tf = np.asarray(ts, dtype=float)
        dt = tf[-1] - tf[-2]
        delta = min(0.4 * dt, max(abs(tf[-1]) * 10 ** rs.uniform(-9, -5.3), dt * 1e-6))
        v = np.array([tf[-1] - delta])
        return v, v.copy()
    if kind == "near_nodes":
        tf = np.asarray(ts, dtype=float)
        k = int(rs.randint(2, max(3, nt)))
        idx = np.sort(rs.choice(nt, min(k, nt), replace=False))
        d = np.diff(tf)
        dl = np.concatenate([[d[0]], np.minimum(d[:-1], d[1:]), [d[-1]]])[idx]
        sg = rs.choice([-1.0, 1.0], len(idx)); sg[idx == 0] = 1.0; sg[idx == nt - 1] = -1.0
        v = tf[idx] + sg * np.minimum(0.3 * dl, np.maximum(np.abs(tf[idx]) * 10 ** rs.uniform(-9, -5.3, len(idx)), dl * 1e-6))
        return v, v.copy()
    if kind in ("on_nodes", "list_on_nodes"):
        k = int(rs.randint(2, max(3, nt)))
        idx = np.sort(rs.choice(nt, min(k, nt), replace=False))
        v = ts[idx].copy()
        return (v.tolist() if kind == "list_on_nodes" else v), v
    if kind == "single_mid_node":
        v = np.array([ts[int(rs.randint(0, nt - 1))]])
        return v, v.copy()
    if kind == "off_nodes":
        v = np.sort(rs.uniform(ts[0], ts[-1], int(rs.randint(1, 5))))
        return v, v.copy()
    if kind == "mixed":
        v = np.sort(np.concatenate([rs.uniform(ts[0], ts[-1], int(rs.randint(1, 4))), ts[[int(rs.randint(0, nt - 1)), -1]]]))
        v = np.unique(v)
        return v, v.copy()
    raise ValueError(kind)


def _mk_map(rs, kind, n_in):
    """Returns (recording map handed to the library or None, pure reference map)."""
    if kind == "none":
        return None, (lambda u: u)
    if kind == "square":
        f = lambda u: np.asarray(u) ** 2 + 0.5 * np.asarray(u)
    elif kind == "matrix":
        W = rs.standard_normal((int(rs.randint(1, 4)), n_in))
        f = lambda u, W=W: W @ np.asarray(u)
    elif kind == "pick":
        f = lambda u: np.asarray(u)[0]
    else:
        raise ValueError(kind)
    return RecCallable(f), f


def _first_diff(n):
    D = np.zeros((n + 1, n))
    for i in range(n):
        D[i, i] += 1.0
        D[i + 1, i] -= 1.0
    return D


def _steady_problem(rs, form, n):
    """Returns (pure dense form p -> (A, b), parameter sampler)."""
    x = np.linspace(0, 1, n)
    D = _first_diff(n)
    k0 = rs.uniform(0.5, 3.0, n + 1)
    c = float(rs.uniform(0.3, 1.0))
    if form == "src_lin":
        m = int(rs.randint(1, 5))
        A = D.T @ np.diag(k0) @ D + c * np.eye(n)
        B, b0 = rs.standard_normal((n, m)), rs.standard_normal(n)
        return (lambda p: (A.copy(), B @ np.asarray(p, dtype=float).ravel() + b0)), (lambda: rs.standard_normal(m)), m
    if form == "src_nonlin":
        A = D.T @ np.diag(k0) @ D + c * np.eye(n)
        def f(p):
            p = np.asarray(p, dtype=float).ravel()
            return A.copy(), p[0] * np.exp(-((x - p[1]) ** 2) / 0.05) + p[2]
        return f, (lambda: np.array([rs.uniform(0.5, 3), rs.uniform(0.2, 0.8), rs.uniform(-1, 1)])), 3
    if form == "op_diff":
        b = rs.standard_normal(n)
        def f(p):
            p = np.asarray(p, dtype=float).ravel()
            return D.T @ np.diag(0.2 + p ** 2) @ D + c * np.eye(n), b.copy()
        return f, (lambda: rs.uniform(0.5, 1.6, n + 1)), n + 1
    if form == "advdiff":
        Adv = np.eye(n) - np.eye(n, k=-1)
        b0 = rs.standard_normal(n)
        def f(p):
            p = np.asarray(p, dtype=float).ravel()
            return D.T @ np.diag(k0) @ D + p[0] * Adv + (c + p[1] ** 2) * np.eye(n), p[2] * b0
        return f, (lambda: np.array([rs.uniform(0.2, 1.5), rs.uniform(-1, 1), rs.uniform(0.5, 2)])), 3
    raise ValueError(form)


def _time_problem(rs, form, n, symmetric):
    """Returns (pure dense form (p, t) -> (A, f, ic), sampler, m). Spectrum of A inside (-2, 0.1]."""
    L = (-2 * np.eye(n) + np.eye(n, k=1) + np.eye(n, k=-1)) / 4.0
    Adv = (np.eye(n) - np.eye(n, k=-1)) / 4.0
    ph, om = float(rs.uniform(0, 6)), float(rs.uniform(2, 9))
    v0 = 0.0 if symmetric else float(rs.uniform(-0.6, 0.6))
    s0, s1, w = rs.standard_normal(n), rs.standard_normal(n), rs.standard_normal(n)
    a = lambda t: 1.0 + 0.5 * np.sin(om * t + ph)
    if form == "ic_par":
        def f(p, t):
            p = np.asarray(p, dtype=float).ravel()
            return a(t) * L + v0 * np.cos(om * t) * Adv, np.cos(3 * t + ph) * s0 + t * s1, p + (t * 7.0) * w
        return f, (lambda: rs.standard_normal(n)), n
    if form == "src_par":
        m = int(rs.randint(1, 5))
        B = rs.standard_normal((n, m))
        ic = rs.standard_normal(n)
        def f(p, t):
            p = np.asarray(p, dtype=float).ravel()
            return a(t) * L + v0 * Adv, (B @ p) * (1.0 + np.sin(om * t)) + t * s1, ic + (t * 7.0) * w
        return f, (lambda: rs.standard_normal(m)), m
    if form == "op_par":
        def f(p, t):
            p = np.asarray(p, dtype=float).ravel()
            return (a(t) * L - np.diag(0.3 * p[:n] ** 2 / (1 + p[:n] ** 2)) * (1 + 0.3 * np.sin(om * t)) + v0 * Adv,
                    np.cos(om * t) * s0, np.tanh(p[:n]) + p[n] * s1 + (t * 7.0) * w)
        return f, (lambda: rs.standard_normal(n + 1)), n + 1
    raise ValueError(form)


# --------------------------------------------------------------------------- hostile array layouts
def rs_of(ctx):
    """Private stream for layout choices (does not disturb the case's main stream)."""
    if not hasattr(ctx, "_c18_layout_rs"):
        ctx._c18_layout_rs = core.np_rng(ctx.seed, PROPERTY, "layout", core.canon(ctx.case))
    return ctx._c18_layout_rs


def _hostile(rs, a):
    """Same values, awkward representation: read-only, non-contiguous view of a larger buffer, Fortran order."""
    if not isinstance(a, np.ndarray) or a.ndim == 0:
        return a
    k = int(rs.randint(0, 4))
    if k == 0:
        out = a
    elif k == 1:
        out = np.array(a, copy=True)
    elif k == 2 and a.ndim == 1:
        buf = np.zeros(2 * a.size + 1, dtype=a.dtype)
        buf[1::2] = a
        out = buf[1::2]
    else:
        out = np.asfortranarray(np.array(a, copy=True)) if a.ndim > 1 else np.array(a[::-1], copy=True)[::-1]
    if k != 0:
        out.setflags(write=False)
    return out


def _unchanged(ctx, pairs, cfg, by):
    for name, (obj, snap) in pairs.items():
        if obj is None:
            continue
        ctx.count("input_unchanged_checked")
        if not np.array_equal(np.asarray(obj), snap):
            ctx.violation("input_mutated", {**cfg, "by": by, "what": name}, detail=f"{by} changed the caller's {name} in place")


# --------------------------------------------------------------------------- dtype / container variants
def _int_grid(rs, n):
    return int(rs.randint(-2, 3)) + np.concatenate([[0], np.cumsum(rs.randint(1, 4, n - 1))]).astype(int)


def _typed_time(form0, sampler0, dk, formname):
    """(pure float64 form, lib-facing caster, sampler): the numbers are identical, only dtype/container differ."""
    sA = 0.25 if dk == "ts_int" else 1.0
    def pure(p, t):
        A, f, ic = form0(np.asarray(p, dtype=float), float(t))
        A, f = A * sA, f * sA
        if dk in ("ic_int", "ic_list"):
            ic = np.round(2 * ic)
        elif dk == "ic_bool":
            ic = (ic > 0).astype(float)
        elif dk == "ic_f32":
            ic = ic.astype(np.float32).astype(float)
        elif dk == "par_int" and formname == "ic_par":
            ic = np.array(p, dtype=float).ravel()
        elif dk == "src_int":
            f = np.round(3 * f)
        return A, f, ic
    def cast(p, o):
        A, f, ic = o
        if dk == "ic_int":
            ic = ic.astype(int)
        elif dk == "ic_list":
            ic = [int(v) for v in ic]
        elif dk == "ic_bool":
            ic = ic.astype(bool)
        elif dk == "ic_f32":
            ic = ic.astype(np.float32)
        elif dk == "par_int" and formname == "ic_par":
            ic = p                      # the integer parameter itself is the initial condition
        elif dk == "src_int":
            f = f.astype(int)
        return A, f, ic
    sampler = (lambda: np.round(3 * np.asarray(sampler0())).astype(int)) if dk == "par_int" else sampler0
    return pure, cast, sampler


def _typed_steady(form0, sampler0, dk):
    def pure(p):
        A, b = form0(np.asarray(p, dtype=float))
        if dk in ("b_int", "b_list"):
            b = np.round(3 * b)
        elif dk == "A_int":
            A = np.round(4 * A) + 3 * np.eye(len(b))
        return A, b
    def cast(o):
        A, b = o
        if dk == "b_int":
            b = b.astype(int)
        elif dk == "b_list":
            b = [int(v) for v in b]
        elif dk == "A_int":
            A = A.astype(int)
        return A, b
    if dk == "p_int":
        sampler = lambda: np.round(2 * np.asarray(sampler0())).astype(int)
    elif dk == "p_list":
        sampler = lambda: [float(v) for v in np.asarray(sampler0()).ravel()]
    else:
        sampler = sampler0
    return pure, cast, sampler


# --------------------------------------------------------------------------- reference observation
def _restrict_or_interp_matrix(grid, obs, k):
    """Linear operator nodal values -> observed values: unit rows at coinciding nodes (exact restriction),
    degree-k interpolating spline rows elsewhere.  Returns (M, coinciding index list)."""
    idx = R.restriction_indices(grid, obs)
    n = len(grid)
    M = np.zeros((len(idx), n))
    off = [j for j, i in enumerate(idx) if i is None]
    if off:
        Mi, _ = R.interp_matrix(grid, np.asarray(obs, dtype=float)[off], k)
        M[off] = Mi
    for j, i in enumerate(idx):
        if i is not None:
            M[j, i] = 1.0
    return M, idx


def _ref_observe_steady(u, grid_sol, grid_obs, ref_map):
    """(pre-map reference, mapped reference, coinciding indices)."""
    if grid_sol is None or grid_obs is None or (len(grid_sol) == len(grid_obs) and np.array_equal(grid_sol, grid_obs)):
        pre, idx = np.array(u, dtype=float), None
    else:
        M, idx = _restrict_or_interp_matrix(grid_sol, grid_obs, 2)
        pre = M @ u
    return pre, ref_map(pre), idx


def _drop_time_axis(out):
    """Shape convention of a time-dependent observation: one entry per observation point, and per observation time when
    several times are observed; a single observation time drops the time axis.  One point at one time is therefore a
    vector of length one (as long as the range geometry's par_dim), never a 0-d array."""
    return np.atleast_1d(np.asarray(out).squeeze())


def _ref_observe_time(U, grid_sol, grid_obs, ts, tobs, ref_map):
    grids_equal = grid_sol is None or grid_obs is None or (len(grid_sol) == len(grid_obs) and np.array_equal(grid_sol, grid_obs))
    direct = grids_equal and len(tobs) == 1 and tobs[0] == ts[-1]
    if direct:
        pre = np.array(U[:, -1])
        out = ref_map(pre)
    else:
        # bicubic spline; on grids with fewer than 4 points the degree is reduced (documented in observe())
        Mx, _ = (np.eye(U.shape[0]), None) if grids_equal else _restrict_or_interp_matrix(grid_sol, grid_obs, min(3, len(grid_sol) - 1))
        Mt, _ = _restrict_or_interp_matrix(ts, tobs, min(3, len(ts) - 1))
        pre = Mx @ U @ Mt.T
        out = ref_map(pre)
    out = np.asarray(out)
    if len(tobs) == 1:
        out = _drop_time_axis(out)
    return pre, out, direct


def _cmp(ctx, got, exp, rtol, what, cfg, detail, scale=None):
    """Shape + value comparison; returns True when equal."""
    got, exp = np.asarray(got), np.asarray(exp)
    if got.shape != exp.shape:
        ctx.violation(what + "_shape", cfg, detail=f"{detail}: shape {got.shape}, expected {exp.shape}")
        return False
    sc = scale if scale is not None else max(1.0, float(np.max(np.abs(exp))) if exp.size else 1.0)
    if not ctx.close(got.astype(float), exp.astype(float), rtol=rtol, atol=rtol * sc, scale=sc):
        err = float(np.max(np.abs(got.astype(float) - exp.astype(float)))) if got.size else 0.0
        ctx.violation(what, cfg, detail=f"{detail}: max abs difference {err:.3e} on scale {sc:.3e}",
                      witness={"got": got.ravel()[:12], "expected": exp.ravel()[:12]})
        return False
    return True


# --------------------------------------------------------------------------- steady
def _check_info(ctx, info, solver_calls, cfg, which="last"):
    """info must be the tuple of the extra values the solver returned (None for a bare solution)."""
    ctx.count("info_passthrough_checked")
    cands = []
    for c in solver_calls:
        o = c["out"]
        cands.append(tuple(o[1:]) if isinstance(o, tuple) else None)
    if not cands:
        return
    pool = cands[-1:] if which == "last" else cands
    def same(a, b):
        if a is None or b is None:
            return a is None and b is None
        return isinstance(a, tuple) and len(a) == len(b) and all(x is y for x, y in zip(a, b))
    if not any(same(info, c) for c in pool):
        ctx.violation("info_not_passed_through", cfg, detail=f"solve() returned info={core.short(info, 120)}; the solver returned extras {core.short(cands[-1], 120)}")


def _build_steady_pde(ctx, rs, case, n=None):
    import cuqi
    n = n or int(rs.randint(5, 33))
    form0, sampler0, m = _steady_problem(rs, case["form"], n)
    dk = case.get("dtype", "float")
    form_pure, cast, sampler = _typed_steady(form0, sampler0, dk)
    fmt = case.get("fmt", "dense")
    rec_form = RecCallable(lambda p: (lambda Ab: (_fmt(Ab[0], fmt), Ab[1]))(cast(form_pure(p))))
    x = _int_grid(rs, n) if dk == "grid_int" else _mk_grid(rs, n, far=(case["grid"] == "near_far"))
    gk = case["grid"]
    grid_obs = _mk_obs_grid(rs, x, gk)
    n_obs = n if grid_obs is None else len(grid_obs)
    rec_map, ref_map = _mk_map(rs, case["map"], n_obs)
    solver, kwargs = _make_solver(case.get("solver", "own"))
    kw = dict(grid_sol=None if gk == "none" else x, grid_obs=grid_obs, observation_map=rec_map)
    holder = []
    if solver is None:
        with _patched_default_solver(holder):
            pde = cuqi.pde.SteadyStateLinearPDE(rec_form, **kw)
        solver = holder[0]
    else:
        pde = cuqi.pde.SteadyStateLinearPDE(rec_form, linalg_solve=solver, linalg_solve_kwargs=kwargs, **kw)
    return dict(pde=pde, form_pure=form_pure, rec_form=rec_form, sampler=sampler, m=m, n=n, x=None if gk == "none" else x,
                grid_obs=grid_obs, rec_map=rec_map, ref_map=ref_map, solver=solver, kwargs=kwargs or {})


def _judge_steady_solution(ctx, S, p, u, info, cfg):
    """Residual of the recorded assembly + reference solve + solver boundary."""
    rec_form, solver = S["rec_form"], S["solver"]
    A_ref, b_ref = S["form_pure"](p)
    # monitor: what was assembled (last form call) is the supplied parameter
    last = rec_form.calls[-1]
    ctx.count("assembly_parameter_checked")
    if not np.array_equal(np.asarray(last["args"][0], dtype=float).ravel(), np.asarray(p, dtype=float).ravel()):
        ctx.violation("assembled_wrong_parameter", cfg, detail=f"PDE_form was last called with {core.short(last['args'][0],100)}, supplied {core.short(p,100)}")
    u = np.asarray(u, dtype=float)
    if u.shape != (len(b_ref),):
        ctx.violation("solution_shape", cfg, detail=f"solution shape {u.shape}, system size {len(b_ref)}")
        return None
    res = float(np.max(np.abs(A_ref @ u - b_ref)))
    scale = float(np.abs(A_ref).sum(axis=1).max() * np.abs(u).max() + np.abs(b_ref).max()) + 1e-300
    ctx.count("steady_residual_checked")
    ctx.note("steady_rel_residual", res / scale)
    if not np.isfinite(res) or res > 1e-8 * scale:
        ctx.violation("steady_residual", cfg, detail=f"max |A(p)u - b(p)| = {res:.3e} on scale {scale:.3e} for the supplied parameter")
    # solver boundary: the system handed to the solver is the assembled one, once, with the kwargs
    if solver.calls:
        c = solver.calls[-1]
        ctx.count("solver_boundary_checked")
        A_seen, b_seen = _dense(c["args"][0]), np.asarray(c["args"][1], dtype=float).ravel()
        if A_seen.shape != A_ref.shape or not np.allclose(A_seen, A_ref, rtol=1e-13, atol=1e-13) or not np.allclose(b_seen, b_ref, rtol=1e-13, atol=1e-13):
            ctx.violation("solver_handed_wrong_system", cfg, detail="the linear solver did not receive the system assembled for the supplied parameter")
        if c["kwargs"] != S["kwargs"]:
            ctx.violation("solver_kwargs_not_passed", cfg, detail=f"solver kwargs {c['kwargs']} vs linalg_solve_kwargs {S['kwargs']}")
        o = c["out"]
        x_solver = o[0] if isinstance(o, tuple) else o
        if not np.array_equal(np.asarray(x_solver, dtype=float).ravel(), u.ravel()):
            ctx.violation("solution_not_solver_output", cfg, detail="solve() did not return the solver's first return value")
        _check_info(ctx, info, solver.calls, cfg)
    return u


def _judge_steady_observation(ctx, S, u, obs, cfg, x=None, grid_obs="_unset"):
    x = S["x"] if x is None else x
    grid_obs = S["grid_obs"] if isinstance(grid_obs, str) else grid_obs
    pre, exp, idx = _ref_observe_steady(u, x, grid_obs, S["ref_map"])
    ctx.count("observation_compared")
    sc = max(1.0, float(np.abs(u).max()))
    if idx is not None and np.shape(pre) == np.shape(u):
        ctx.count("same_length_offnode_observed")
        if float(np.max(np.abs(pre - np.asarray(u, dtype=float)))) > 1e-6 * sc:      # raw nodal values would be visibly wrong
            ctx.count("same_length_offnode_discriminating")
    rec_map = S["rec_map"]
    if rec_map is not None and rec_map.calls:
        seen = np.asarray(rec_map.calls[-1]["args"][0], dtype=float)
        ok = _cmp(ctx, seen, pre, 1e-9, "observation_mismatch", {**cfg, "stage": "before_map"}, "restricted/interpolated solution handed to the observation map", scale=sc)
    else:
        seen = np.asarray(obs, dtype=float) if rec_map is None else None
        ok = True
    _cmp(ctx, obs, exp, 1e-9, "observation_mismatch", {**cfg, "stage": "final"}, "observe() vs reference restriction/interpolation followed by the map",
         scale=max(1.0, float(np.max(np.abs(exp))) if np.size(exp) else 1.0, sc if S["rec_map"] is None else 1.0))
    if seen is not None and ok and seen.shape == pre.shape:
        if idx is None:
            ctx.count("coinciding_points_checked", int(seen.size))
            if not np.array_equal(seen, np.asarray(u, dtype=float)):
                ctx.violation("restriction_not_exact", {**cfg, "path": "equal_grids"}, detail="equal grids: observation before the map is not the solution itself")
        else:
            co = [(j, i) for j, i in enumerate(idx) if i is not None]
            ctx.count("coinciding_points_checked", len(co))
            for j, i in co:
                if abs(seen[j] - u[i]) > 1e-9 * sc:
                    ctx.violation("restriction_not_exact", {**cfg, "path": "interpolated"}, detail=f"node {i}: observed {seen[j]!r}, solution {u[i]!r}")
                    break
            if len(co) < len(idx):
                ctx.count("interpolated_points_checked", len(idx) - len(co))


def _run_steady(case, ctx, rs):
    cfg = _cfg(case)
    lrs = rs_of(ctx)
    # a second PDE object of another configuration, built before or after the one under test and used in between
    D, dcase = None, None
    if lrs.rand() < 0.5:
        dcase = {**case, "solver": "tuple3", "grid": "offnode", "map": "square", "dtype": "float", "fmt": "dense", "hist": "fresh",
                 "form": STEADY_FORMS[(STEADY_FORMS.index(case["form"]) + 1) % len(STEADY_FORMS)]}
        if lrs.rand() < 0.5:
            D = _build_steady_pde(ctx, lrs, dcase)
    S = _build_steady_pde(ctx, rs, case)
    if dcase is not None and D is None:
        D = _build_steady_pde(ctx, lrs, dcase)
    pde = S["pde"]
    hist = case["hist"]
    p = S["sampler"]()
    p_lib = _hostile(lrs, p)
    for g in (S["x"], S["grid_obs"]):
        if isinstance(g, np.ndarray):
            g.setflags(write=False)
    watch = {"parameter": (p_lib, np.array(p, copy=True)),
             "grid_sol": (S["x"], None if S["x"] is None else np.array(S["x"], copy=True)),
             "grid_obs": (S["grid_obs"], None if S["grid_obs"] is None else np.array(S["grid_obs"], copy=True))}
    if hist == "reassemble":
        p_old = S["sampler"]()
        pde.assemble(p_old)
        pde.solve()
        if rs.rand() < 0.5:
            pde.observe(pde.solve()[0])
    if D is not None:
        pd = D["sampler"]()
        D["pde"].assemble(pd)
    pde.assemble(p_lib)
    if D is not None:
        ud, infod = D["pde"].solve()
        ctx.count("second_object_interleaved")
        ud = _judge_steady_solution(ctx, D, pd, ud, infod, {**_cfg(dcase), "object": "second"})
        if ud is not None:
            _judge_steady_observation(ctx, D, ud, D["pde"].observe(ud), {**_cfg(dcase), "object": "second"})
    n_before = len(S["solver"].calls)
    u, info = pde.solve()
    _unchanged(ctx, watch, cfg, "assemble/solve")
    if len(S["solver"].calls) - n_before != 1:
        ctx.violation("solver_call_count", cfg, detail=f"one solve() made {len(S['solver'].calls) - n_before} solver calls")
    if case.get("dtype", "float") != "float":
        ctx.count("nonfloat_variant_steady_checked")
    u = _judge_steady_solution(ctx, S, p, u, info, {**cfg, "hist": hist})
    if u is None:
        return
    x, grid_obs = S["x"], S["grid_obs"]
    if hist == "regrid_obs" and x is not None:
        # observe once with the constructed grids, then re-assign the observation grid
        core.outcome(pde.observe, u)
        newkind = "offnode" if case["grid"] in ("sol_only", "equal_copy", "subset") else "equal_copy"
        grid_obs = _mk_obs_grid(rs, x, newkind)
        if S["rec_map"] is not None and case["map"] == "matrix":
            S["rec_map"], S["ref_map"] = _mk_map(rs, "matrix", len(grid_obs))
            pde.observation_map = S["rec_map"]
        pde.grid_obs = grid_obs
        S["grid_obs"] = grid_obs
        cfg = {**cfg, "regrid": newkind}
    elif hist == "regrid_sol" and x is not None:
        core.outcome(pde.observe, u)
        x2 = x.astype(float)
        x2[1:-1] += 0.3 * np.minimum(np.diff(x)[:-1], np.diff(x)[1:]) * rs.uniform(-1, 1, len(x) - 2)
        if grid_obs is None:
            S["grid_obs"] = grid_obs = x      # the library stored the old solution grid as observation grid
        pde.grid_sol = x2
        x = S["x"] = x2
        cfg = {**cfg, "regrid": "sol"}
    uh = _hostile(lrs, u)
    watch = {"solution": (uh, np.array(u, copy=True)), "parameter": watch["parameter"],
             "grid_sol": (S["x"], None if S["x"] is None else np.array(S["x"], copy=True)),
             "grid_obs": (S["grid_obs"], None if S["grid_obs"] is None else np.array(S["grid_obs"], copy=True))}
    kind, obs = core.outcome(pde.observe, uh)
    _unchanged(ctx, watch, cfg, "observe")
    if kind != "value":
        if kind == "refused":
            ctx.refused("steady_observe", obs); ctx.count("refusal_observed")
        else:
            ctx.violation("observe_crash", {**cfg, "exc": type(obs).__name__}, detail=repr(obs))
        return
    _judge_steady_observation(ctx, S, u, obs, {**cfg, "hist": hist})
    ctx.nontrivial()


# --------------------------------------------------------------------------- time dependent
def _build_time_pde(ctx, rs, case, n=None, ts=None, x=None):
    import cuqi
    n = n or int(rs.randint(4, 21))
    solver_name = case.get("solver", "own")
    form0, sampler0, m = _time_problem(rs, case["form"], n, symmetric=(solver_name == "cg_tuple"))
    dk = case.get("dtype", "float")
    form_pure, cast, sampler = _typed_time(form0, sampler0, dk, case["form"])
    fmt = case.get("fmt", "dense")
    rec_form = RecCallable(lambda p, t: (lambda o: (_fmt(o[0], fmt), o[1], o[2]))(cast(p, form_pure(p, t))))
    ts = _mk_time_grid(rs, case["tgrid"]) if ts is None else ts
    if dk == "ts_int":
        ts = int(rs.randint(-1, 3)) + np.concatenate([[0], np.cumsum(rs.randint(1, 4, len(ts) - 1))]).astype(int)
    x = (_int_grid(rs, n) if dk == "grid_int" else _mk_grid(rs, n, far=(case["grid"] == "near_far"))) if x is None else x
    if case["tobs"] in ("near_final", "near_nodes") and dk != "ts_int":
        ts = ts - ts[0] + float(10 ** rs.uniform(3, 4))
    gk = case["grid"]
    grid_obs = _mk_obs_grid(rs, x, gk)
    n_obs = n if grid_obs is None else len(grid_obs)
    tobs_lib, tobs = _mk_time_obs(rs, ts, case["tobs"])
    rec_map, ref_map = _mk_map(rs, case["map"], n_obs)
    solver, kwargs = _make_solver(solver_name)
    other = {"forward_euler": "backward_euler", "backward_euler": "forward_euler"}[case["method"]]
    kw = dict(grid_sol=None if gk == "none" else x, grid_obs=grid_obs, observation_map=rec_map,
              time_obs=tobs_lib, method=other if case.get("hist") == "switch_method" else case["method"])
    holder = []
    if solver is None:
        with _patched_default_solver(holder):
            pde = cuqi.pde.TimeDependentLinearPDE(rec_form, ts.copy(), **kw)
        solver = holder[0]
    else:
        pde = cuqi.pde.TimeDependentLinearPDE(rec_form, ts.copy(), linalg_solve=solver, linalg_solve_kwargs=kwargs, **kw)
    return dict(pde=pde, form_pure=form_pure, rec_form=rec_form, sampler=sampler, m=m, n=n, x=None if gk == "none" else x, ts=ts,
                grid_obs=grid_obs, tobs=tobs, rec_map=rec_map, ref_map=ref_map, solver=solver, kwargs=kwargs or {}, method=case["method"])


def _subsequence(needles, hay):
    it = iter(hay)
    return all(any(h == nd for h in it) for nd in needles)


def _judge_time_solution(ctx, S, p, U, info, cfg, form_calls, solver_calls, op=None, src=None, ic=None):
    """Per-level Euler defect with the operator of the documented time and the actual dt;
    systems handed to the solver; assembly record; whole trajectory vs the reference."""
    ts, method = S["ts"], S["method"]
    nt = len(ts)
    if op is None:
        op = lambda t: S["form_pure"](p, t)[0]
        src = lambda t: S["form_pure"](p, t)[1]
        ic = S["form_pure"](p, ts[0])[2]
    ic = np.asarray(ic, dtype=float).ravel()
    U = np.asarray(U)
    if U.shape != (len(ic), nt):
        ctx.violation("solution_shape", cfg, detail=f"solution shape {U.shape}, expected {(len(ic), nt)}")
        return None
    U = U.astype(float)
    # assembly record
    ctx.count("assembly_parameter_checked", len(form_calls))
    for c in form_calls:
        if not np.array_equal(np.asarray(c["args"][0], dtype=float).ravel(), np.asarray(p, dtype=float).ravel()):
            ctx.violation("assembled_wrong_parameter", cfg, detail="PDE_form was called with a parameter different from the supplied one")
            break
    seen_t = [float(c["args"][1]) for c in form_calls]
    want_t = [float(ts[0])] + [float(t) for t in (ts[:-1] if method == "forward_euler" else ts[1:])]
    ctx.count("assembly_schedule_checked")
    if not _subsequence(want_t, seen_t):
        ctx.violation("assembly_schedule", {**cfg, "method": method}, detail=f"documented assembly times {core.short(want_t,200)} are not a subsequence of the recorded ones {core.short(seen_t,200)}")
    # initial level
    ctx.count("initial_level_checked")
    if not np.array_equal(U[:, 0], ic):
        ctx.violation("initial_condition", cfg, detail=f"level 0 differs from the initial condition assembled at t0 by {np.abs(U[:,0]-ic).max():.3e}")
    if not np.all(np.isfinite(U)):
        ctx.violation("euler_recurrence", {**cfg, "method": method, "level": "nonfinite"}, detail="stored solution contains non-finite values")
        return None
    # levels
    worst = 0.0
    for k in range(nt - 1):
        d, sc = R.euler_level_defect(op, src, U, ts, k, method)
        ctx.count("euler_levels_checked")
        worst = max(worst, d / sc)
        if d > 1e-9 * sc:
            ctx.violation("euler_recurrence", {**cfg, "method": method}, detail=f"level {k+1} (t={ts[k+1]:.6g}, dt={ts[k+1]-ts[k]:.6g}): defect {d:.3e} on scale {sc:.3e} w.r.t. the {method} step from the stored level {k}")
            break
    ctx.note("worst_rel_level_defect", worst)
    Uref = R.euler_reference(op, src, ic, ts, method)
    ctx.count("trajectory_compared")
    _cmp(ctx, U, Uref, 1e-8, "euler_trajectory", {**cfg, "method": method}, "stored levels vs reference trajectory", scale=max(1.0, float(np.abs(Uref).max())))
    # solver boundary (backward Euler)
    if method == "backward_euler" and solver_calls is not None:
        if len(solver_calls) != nt - 1:
            ctx.violation("solver_call_count", cfg, detail=f"{len(solver_calls)} solver calls for {nt-1} backward Euler steps")
        else:
            for k, c in enumerate(solver_calls):
                dt = ts[k + 1] - ts[k]
                A_exp = np.eye(len(ic)) - dt * _dense(op(ts[k + 1]))
                b_exp = U[:, k] + dt * np.asarray(src(ts[k + 1]), dtype=float).ravel()
                A_seen, b_seen = _dense(c["args"][0]), np.asarray(c["args"][1], dtype=float).ravel()
                ctx.count("be_solver_systems_checked")
                if A_seen.shape != A_exp.shape or not np.allclose(A_seen, A_exp, rtol=1e-12, atol=1e-12) or \
                        not np.allclose(b_seen, b_exp, rtol=1e-12, atol=1e-12 * max(1.0, np.abs(b_exp).max())):
                    ctx.violation("solver_handed_wrong_system", {**cfg, "method": method}, detail=f"step {k}: the solver did not receive (I - dt_k A(t_k+1), u_k + dt_k f(t_k+1)) with dt_k={dt:.6g}")
                    break
                o = c["out"]
                xs = np.asarray(o[0] if isinstance(o, tuple) else o, dtype=float).ravel()
                if not np.array_equal(xs, U[:, k + 1]):
                    ctx.violation("solution_not_solver_output", cfg, detail=f"level {k+1} is not what the solver returned")
                    break
                if c["kwargs"] != S["kwargs"]:
                    ctx.violation("solver_kwargs_not_passed", cfg, detail=f"solver kwargs {c['kwargs']} vs {S['kwargs']}")
                    break
            if solver_calls:
                _check_info(ctx, info, solver_calls, cfg, which="any")
    return U


def _judge_time_observation(ctx, S, U, obs, cfg):
    pre, exp, direct = _ref_observe_time(U, S["x"], S["grid_obs"], S["ts"], S["tobs"], S["ref_map"])
    ctx.count("observation_compared")
    sc = max(1.0, float(np.abs(U).max()))
    if S["x"] is not None and S["grid_obs"] is not None and len(S["x"]) == len(S["grid_obs"]) and not np.array_equal(S["x"], S["grid_obs"]):
        ctx.count("same_length_offnode_observed")
        Mx_, _ = _restrict_or_interp_matrix(S["x"], S["grid_obs"], min(3, len(S["x"]) - 1))
        if float(np.max(np.abs(Mx_ @ U - U))) > 1e-6 * sc:
            ctx.count("same_length_offnode_discriminating")
    if not direct and len(S["tobs"]) == 1 and S["tobs"][0] != S["ts"][-1] and abs(S["tobs"][0] - S["ts"][-1]) < 0.5 * abs(S["ts"][-1] - S["ts"][-2]):
        ctx.count("near_final_time_observed")
        Mx_ = np.eye(U.shape[0]) if (S["grid_obs"] is None or S["x"] is None) else _restrict_or_interp_matrix(S["x"], S["grid_obs"], min(3, len(S["x"]) - 1))[0]
        if np.ndim(pre) == 2 and float(np.max(np.abs(pre[:, 0] - Mx_ @ U[:, -1]))) > 1e-6 * sc:      # the last level itself would be visibly wrong
            ctx.count("near_final_time_discriminating")
    rec_map = S["rec_map"]
    seen = None
    if rec_map is not None and rec_map.calls:
        seen = np.asarray(rec_map.calls[-1]["args"][0], dtype=float)
        _cmp(ctx, seen, pre, 1e-9, "observation_mismatch", {**cfg, "stage": "before_map"}, "restricted/interpolated solution handed to the observation map", scale=sc)
    elif rec_map is None:
        seen = np.asarray(obs, dtype=float)
        if len(S["tobs"]) == 1 and not direct:
            seen = seen.reshape(pre.shape) if seen.size == pre.size else seen
    _cmp(ctx, obs, exp, 1e-9, "observation_mismatch", {**cfg, "stage": "final"}, "observe() vs reference restriction/interpolation followed by the map",
         scale=max(1.0, float(np.max(np.abs(exp))) if np.size(exp) else 1.0, sc if rec_map is None else 1.0))
    if len(S["tobs"]) == 1 and S["grid_obs"] is not None and len(S["grid_obs"]) == 1:
        ctx.count("single_point_single_time_checked")
        ctx.count("single_point_with_map_checked" if rec_map is not None else "single_point_without_map_checked")
        ctx.count("single_point_on_node_checked" if R.restriction_indices(S["x"], S["grid_obs"])[0] is not None else "single_point_off_node_checked")
        ctx.count("single_point_final_time_checked" if S["tobs"][0] == S["ts"][-1] else "single_point_interior_time_checked")
    if seen is not None and seen.shape == pre.shape:
        if direct:
            ctx.count("coinciding_points_checked", int(seen.size))
            if not np.array_equal(seen, U[:, -1]):
                ctx.violation("restriction_not_exact", {**cfg, "path": "final_equal_grids"}, detail="final time on the solution grid: observation is not the last stored level")
        else:
            ix = list(range(U.shape[0])) if (S["x"] is None or S["grid_obs"] is None) else R.restriction_indices(S["x"], S["grid_obs"])
            it = R.restriction_indices(S["ts"], S["tobs"])
            nco = 0
            for a, i in enumerate(ix):
                for b, j in enumerate(it):
                    if i is not None and j is not None:
                        nco += 1
                        if abs(seen[a, b] - U[i, j]) > 1e-9 * sc:
                            ctx.violation("restriction_not_exact", {**cfg, "path": "interpolated"}, detail=f"node {i}, time index {j}: observed {seen[a,b]!r}, stored {U[i,j]!r}")
                            return
            ctx.count("coinciding_points_checked", nco)
            ctx.count("interpolated_points_checked", seen.size - nco)


def _observe_time_classified(ctx, S, U, cfg):
    """observe() with the expected refusals classified. Returns the value or None."""
    pde = S["pde"]
    needs_interp = not (len(S["tobs"]) == 1 and S["tobs"][0] == S["ts"][-1] and
                        (S["x"] is None or S["grid_obs"] is None or np.array_equal(S["x"], S["grid_obs"])))
    unsorted = (S["grid_obs"] is not None and np.any(np.diff(np.asarray(S["grid_obs"], dtype=float)) < 0)) or \
        np.any(np.diff(np.asarray(S["tobs"], dtype=float)) < 0)
    Uh = _hostile(rs_of(ctx), U)
    snap = np.array(Uh, copy=True)
    kind, obs = core.outcome(pde.observe, Uh)
    ctx.count("input_unchanged_checked")
    if not np.array_equal(Uh, snap):
        ctx.violation("input_mutated", {**cfg, "by": "observe"}, detail="observe() changed the solution array it was given")
    if kind == "refused" and unsorted and needs_interp and isinstance(obs, ValueError):
        ctx.refused("observe_unsorted_points", obs); ctx.count("refusal_observed")
        return None
    if kind == "value":
        if unsorted:
            ctx.count("unsorted_observation_value_judged")
        if S["x"] is None and needs_interp:
            ctx.count("unjudged_value_without_grid")
            return None
        return obs
    too_short = len(S["ts"]) < 4 or U.shape[0] < 4
    if S["x"] is None and needs_interp and kind == "refused":
        ctx.refused("observe_without_grid", obs); ctx.count("refusal_observed")
        return None
    if needs_interp and too_short:
        if kind == "refused":
            ctx.refused("observe_short_grid", obs); ctx.count("refusal_observed")
        else:
            ctx.violation("observe_crash", {"pde": "time", "short_grid": True, "exc": type(obs).__name__},
                          detail=f"nt={len(S['ts'])}, n={U.shape[0]}: observe() raised {type(obs).__name__}: {core.short(str(obs),200)}")
        return None
    ctx.violation("observe_crash", {**cfg, "exc": type(obs).__name__}, detail=repr(obs))
    return None


def _run_time(case, ctx, rs):
    cfg = _cfg(case)
    lrs = rs_of(ctx)
    D, dcase = None, None
    if lrs.rand() < 0.5:
        dcase = {**case, "solver": "tuple3", "grid": "offnode", "map": "square", "dtype": "float", "fmt": "dense", "hist": "fresh",
                 "tobs": "all", "tgrid": "nonuniform", "form": TIME_FORMS[(TIME_FORMS.index(case["form"]) + 1) % len(TIME_FORMS)],
                 "method": {"forward_euler": "backward_euler", "backward_euler": "forward_euler"}[case["method"]]}
        if lrs.rand() < 0.5:
            D = _build_time_pde(ctx, lrs, dcase)
    S = _build_time_pde(ctx, rs, case)
    if dcase is not None and D is None:
        D = _build_time_pde(ctx, lrs, dcase)
    pde, hist = S["pde"], case["hist"]
    p = S["sampler"]()
    p_lib = _hostile(lrs, p)
    for g in (S["x"], S["grid_obs"]):
        if isinstance(g, np.ndarray):
            g.setflags(write=False)
    watch = {"parameter": (p_lib, np.array(p, copy=True)),
             "grid_sol": (S["x"], None if S["x"] is None else np.array(S["x"], copy=True)),
             "grid_obs": (S["grid_obs"], None if S["grid_obs"] is None else np.array(S["grid_obs"], copy=True)),
             "time_steps": (pde.time_steps, np.array(S["ts"], copy=True))}
    if hist in ("reassemble", "switch_method"):
        pde.assemble(S["sampler"]())
        pde.solve()
    if hist == "switch_method":
        pde.method = case["method"]      # constructed with the other method, one solve done with it
    if D is not None:
        pd = D["sampler"]()
        D["pde"].assemble(pd)
    pde.assemble(p_lib)
    if D is not None:
        df0, ds0 = len(D["rec_form"].calls), len(D["solver"].calls)
        Ud, infod = D["pde"].solve()
        ctx.count("second_object_interleaved")
        Ud = _judge_time_solution(ctx, D, pd, Ud, infod, {**_cfg(dcase), "object": "second"}, D["rec_form"].calls[df0:], D["solver"].calls[ds0:])
        if Ud is not None:
            od = _observe_time_classified(ctx, D, Ud, {**_cfg(dcase), "object": "second"})
            if od is not None:
                _judge_time_observation(ctx, D, Ud, od, {**_cfg(dcase), "object": "second"})
    f0, s0 = len(S["rec_form"].calls), len(S["solver"].calls)
    U, info = pde.solve()
    _unchanged(ctx, watch, cfg, "assemble/solve")
    fc, sc_ = S["rec_form"].calls[f0:], S["solver"].calls[s0:]
    if S["method"] == "forward_euler":
        ctx.count("fe_info_observed")
        if sc_:
            ctx.note("fe_solver_calls", len(sc_))
    if case.get("dtype", "float") != "float":
        ctx.count("nonfloat_variant_levels_checked", len(S["ts"]) - 1)
    if not (isinstance(U, np.ndarray) and U.dtype == np.float64):
        ctx.note("solution_dtype", str(getattr(U, "dtype", type(U))))
    U = _judge_time_solution(ctx, S, p, U, info, {**cfg, "hist": hist}, fc, sc_)
    if U is None:
        return
    if hist == "regrid_obs" and S["x"] is not None:
        core.outcome(pde.observe, U)
        newkind = "offnode" if case["grid"] in ("sol_only", "equal_copy", "subset") else "equal_copy"
        g = _mk_obs_grid(rs, S["x"], newkind)
        if S["rec_map"] is not None and case["map"] == "matrix":
            S["rec_map"], S["ref_map"] = _mk_map(rs, "matrix", len(g))
            pde.observation_map = S["rec_map"]
        pde.grid_obs = g
        S["grid_obs"] = g
        cfg = {**cfg, "regrid": newkind}
    elif hist == "regrid_sol" and S["x"] is not None:
        core.outcome(pde.observe, U)
        x = S["x"]
        x2 = x.astype(float)
        x2[1:-1] += 0.3 * np.minimum(np.diff(x)[:-1], np.diff(x)[1:]) * rs.uniform(-1, 1, len(x) - 2)
        if S["grid_obs"] is None:
            S["grid_obs"] = x            # the library stored the old solution grid as observation grid
        pde.grid_sol = x2
        S["x"] = x2
        cfg = {**cfg, "regrid": "sol"}
    obs = _observe_time_classified(ctx, S, U, cfg)
    if obs is not None:
        _judge_time_observation(ctx, S, U, obs, {**cfg, "hist": hist})
    if len(S["ts"]) > 2:
        ctx.nontrivial()


# --------------------------------------------------------------------------- black-box observation
def _run_observe(case, ctx, rs):
    import cuqi
    cfg = _cfg(case)
    n = int(rs.randint(5, 22))
    x = _mk_grid(rs, n, far=(case["grid"] == "near_far"))
    gk = case["grid"]
    grid_obs = _mk_obs_grid(rs, x, gk)
    n_obs = n if grid_obs is None else len(grid_obs)
    rec_map, ref_map = _mk_map(rs, case["map"], n_obs)
    xo = x if grid_obs is None else grid_obs
    xs = (x - x[0]) / (x[-1] - x[0])          # polynomials in scaled coordinates (well conditioned)
    xos = (xo - x[0]) / (x[-1] - x[0])
    dummy = lambda *a: None
    if case["pde"] == "steady":
        pde = cuqi.pde.SteadyStateLinearPDE(dummy, grid_sol=None if gk == "none" else x, grid_obs=grid_obs, observation_map=rec_map)
        for deg in (0, 1, 2):
            c = rs.standard_normal(deg + 1)
            u = np.polyval(c, xs)
            kind, obs = core.outcome(pde.observe, u)
            if kind != "value":
                ctx.violation("observe_crash", {**cfg, "exc": type(obs).__name__}, detail=repr(obs)); return
            exp = ref_map(np.polyval(c, xos))
            ctx.count("polynomial_reproduction_checked")
            _cmp(ctx, obs, exp, 1e-9, "polynomial_not_reproduced", {**cfg, "degree": deg}, f"degree-{deg} polynomial solution observed on the observation grid",
                 scale=max(1.0, float(np.max(np.abs(exp))), float(np.abs(u).max())))
        # a non-polynomial solution against the reference spline
        u = np.sin(3 * xs + rs.uniform(0, 3)) + rs.standard_normal(n) * 0.3
        S = dict(x=None if gk == "none" else x, grid_obs=grid_obs, rec_map=rec_map, ref_map=ref_map)
        obs = pde.observe(u)
        _judge_steady_observation(ctx, S, u, obs, cfg)
        ctx.nontrivial()
        return
    ts = _mk_time_grid(rs, case["tgrid"])
    if case["tobs"] in ("near_final", "near_nodes"):
        ts = ts - ts[0] + float(10 ** rs.uniform(3, 4))
    tobs_lib, tobs = _mk_time_obs(rs, ts, case["tobs"])
    pde = cuqi.pde.TimeDependentLinearPDE(dummy, ts.copy(), time_obs=tobs_lib, grid_sol=None if gk == "none" else x, grid_obs=grid_obs, observation_map=rec_map)
    S = dict(pde=pde, x=None if gk == "none" else x, grid_obs=grid_obs, ts=ts, tobs=tobs, rec_map=rec_map, ref_map=ref_map)
    tss, tos = (ts - ts[0]) / (ts[-1] - ts[0]), (tobs - ts[0]) / (ts[-1] - ts[0])
    judged = False
    for dx, dtt in ((0, 0), (1, 1), (3, 1), (2, 3), (3, 3)):
        C = rs.standard_normal((dx + 1, dtt + 1))
        P = lambda a, b: np.polynomial.polynomial.polygrid2d(a, b, C)
        U = P(xs, tss)
        obs = _observe_time_classified(ctx, S, U, cfg)
        if obs is None:
            return
        pre = P(xos, tos)
        direct = (gk in ("none", "sol_only", "equal_copy")) and len(tobs) == 1 and tobs[0] == ts[-1]
        exp = np.asarray(ref_map(pre[:, -1] if direct else pre))
        if len(tobs) == 1:
            exp = _drop_time_axis(exp)
        ctx.count("polynomial_reproduction_checked")
        if exp.shape == (1,) and len(xo) == 1:
            ctx.count("single_point_single_time_checked")
            ctx.count("single_point_polynomial_checked")
        _cmp(ctx, obs, exp, 1e-9, "polynomial_not_reproduced", {**cfg, "degree": f"{dx},{dtt}"}, f"bi-degree ({dx},{dtt}) polynomial solution observed at the observation grid/times",
             scale=max(1.0, float(np.max(np.abs(exp))) if exp.size else 1.0, float(np.abs(U).max())))
        judged = True
    U = np.sin(3 * xs[:, None] + 2 * tss[None, :]) + 0.3 * rs.standard_normal((n, len(ts)))
    obs = _observe_time_classified(ctx, S, U, cfg)
    if obs is not None:
        _judge_time_observation(ctx, S, U, obs, cfg)
    if judged:
        ctx.nontrivial()


# --------------------------------------------------------------------------- PDEModel
def _fd_jac(F, z, h=1e-6):
    z = np.asarray(z, dtype=float).ravel()
    f0 = np.asarray(F(z), dtype=float).ravel()
    J = np.zeros((f0.size, z.size))
    for j in range(z.size):
        e = np.zeros(z.size); e[j] = h * max(1.0, abs(z[j]))
        J[:, j] = (np.asarray(F(z + e), dtype=float).ravel() - np.asarray(F(z - e), dtype=float).ravel()) / (2 * e[j])
    return J


def _setup_model(case, ctx, rs, glog, plain_range=False):
    """A PDEModel around a harness PDE (with the user-side Jacobian hooks), its reference pipeline and geometry maps."""
    import cuqi
    cfg = _cfg(case)
    jac_mode = case["jac"]
    sub = dict(case)
    sub.update({"fmt": rs.choice(["dense", "csr"]), "solver": "own", "hist": "fresh"})
    # --- the PDE, as a harness subclass carrying the user-side Jacobian hooks
    if case["pde"] == "steady":
        S = _build_steady_pde(ctx, rs, sub, n=int(rs.randint(5, 13)))
        base = cuqi.pde.SteadyStateLinearPDE
        def ref_pipeline(fun):
            A, b = S["form_pure"](fun)
            u = np.linalg.solve(A, b)
            return np.asarray(_ref_observe_steady(u, S["x"], S["grid_obs"], S["ref_map"])[1])
    else:
        if sub["tobs"] != "final" and sub["grid"] == "none":
            sub["grid"] = "sol_only"
        S = _build_time_pde(ctx, rs, sub, n=int(rs.randint(4, 10)), ts=_mk_time_grid(rs, sub["tgrid"], nt=int(rs.randint(4, 12))))
        base = cuqi.pde.TimeDependentLinearPDE
        def ref_pipeline(fun):
            ts = S["ts"]
            U = R.euler_reference(lambda t: S["form_pure"](fun, t)[0], lambda t: S["form_pure"](fun, t)[1], S["form_pure"](fun, ts[0])[2], ts, S["method"])
            return np.asarray(_ref_observe_time(U, S["x"], S["grid_obs"], ts, S["tobs"], S["ref_map"])[1])
    old = S["pde"]
    ns = {}
    if jac_mode in ("jacobian", "both"):
        def jacobian_wrt_parameter(self, wrt):
            glog.append(("jacobian", np.array(wrt, dtype=float, copy=True)))
            return _fd_jac(ref_pipeline, wrt)
        ns["jacobian_wrt_parameter"] = jacobian_wrt_parameter
    if jac_mode in ("gradient", "both"):
        def gradient_wrt_parameter(self, direction, wrt):
            glog.append(("gradient", np.array(wrt, dtype=float, copy=True), np.array(direction, dtype=float, copy=True)))
            return np.asarray(direction, dtype=float).ravel() @ _fd_jac(ref_pipeline, wrt)
        ns["gradient_wrt_parameter"] = gradient_wrt_parameter
    Sub = type("HarnessPDE", (base,), ns)
    old.__class__ = Sub            # same object (grids, solver, recorders), now with the hooks
    pde = old
    m = S["m"]
    # --- geometries
    gk = case["geom"]
    positive = gk in ("mapped_exp", "harness_exp")
    if gk == "int":
        dom = m
        par2fun = lambda p: p
    elif gk == "continuous1d":
        dom = cuqi.geometry.Continuous1D(_mk_grid(rs, m) if m > 1 else 1)
        par2fun = lambda p: p
    elif gk == "mapped_exp":
        dom = cuqi.geometry.MappedGeometry(cuqi.geometry.Continuous1D(m), map=lambda v: np.exp(0.3 * v), imap=lambda f: np.log(f) / 0.3)
        par2fun = lambda p: np.exp(0.3 * np.asarray(p))
    else:
        class ExpGeom(cuqi.geometry.Continuous1D):
            def par2fun(self, p):
                return np.exp(0.3 * np.asarray(p))
            def fun2par(self, f):
                return np.log(np.asarray(f)) / 0.3
            def gradient(self, direction, wrt):
                return np.asarray(direction) * 0.3 * np.exp(0.3 * np.asarray(wrt))
        dom = ExpGeom(m)
        par2fun = lambda p: np.exp(0.3 * np.asarray(p))
    y0 = ref_pipeline(par2fun(np.zeros(m) + 0.1))
    out_is_1d = (y0.ndim == 1)
    if plain_range:
        rng_geom, flat = int(max(1, y0.size)), False
    elif y0.ndim == 2 and (case["input"] == "cuqiarray" or rs.rand() < 0.5):
        rng_geom = cuqi.geometry.Continuous2D(tuple(int(s) for s in y0.shape))      # fun2par = C-order flattening
        flat = True
    else:
        rng_geom = cuqi.geometry.Continuous1D(y0.size) if (out_is_1d and rs.rand() < 0.5) else int(max(1, y0.size))
        flat = False
    model = cuqi.model.PDEModel(pde, rng_geom, dom)
    return dict(S=S, pde=pde, m=m, gk=gk, positive=positive, par2fun=par2fun, ref_pipeline=ref_pipeline, y0=y0,
                out_is_1d=out_is_1d, flat=flat, model=model, jac_mode=jac_mode, cfg=cfg)


def _run_model(case, ctx, rs):
    import cuqi
    glog = []
    M = _setup_model(case, ctx, rs, glog)
    S, pde, m, gk, positive, par2fun, ref_pipeline = M["S"], M["pde"], M["m"], M["gk"], M["positive"], M["par2fun"], M["ref_pipeline"]
    y0, out_is_1d, flat, model, jac_mode, cfg = M["y0"], M["out_is_1d"], M["flat"], M["model"], M["jac_mode"], M["cfg"]
    # --- forward, several parameters in a row on the same model (history)
    for rep in range(3):
        p = rs.uniform(-1, 1, m) if positive else np.asarray(S["sampler"](), dtype=float).ravel()
        fun = fun_last = par2fun(p)
        inp = case["input"]
        if inp == "ndarray":
            y = model.forward(p)
        elif inp == "cuqiarray":
            y = model.forward(cuqi.array.CUQIarray(p, is_par=True, geometry=model.domain_geometry))
        elif inp == "funvals":
            y = model.forward(fun, is_par=False)
        elif inp == "samples" and out_is_1d:
            P = np.column_stack([p] + [rs.uniform(-1, 1, m) if positive else np.asarray(S["sampler"](), dtype=float).ravel() for _ in range(2)])
            Y = model.forward(cuqi.samples.Samples(P, geometry=model.domain_geometry))
            Ys = np.asarray(Y.samples, dtype=float)
            ctx.count("model_forward_samples_compared")
            for jcol in (1, 2):
                _cmp(ctx, Ys[:, jcol], ref_pipeline(par2fun(P[:, jcol])).ravel(), 1e-8, "model_forward_mismatch", {**cfg, "column": "later"},
                     "PDEModel.forward on Samples, column after the first")
            y = Ys[:, 0]
            fun_last = par2fun(P[:, 2])
        else:
            y = model(x=p)
        exp = ref_pipeline(fun)
        if flat:
            exp = exp.ravel()
        ctx.count("model_forward_compared")
        last = S["rec_form"].calls[-1]["args"][0]
        if not np.allclose(np.asarray(last, dtype=float).ravel(), np.asarray(fun_last, dtype=float).ravel(), rtol=1e-13, atol=0):
            ctx.violation("assembled_wrong_parameter", {**cfg, "via": "PDEModel"}, detail="PDE_form did not receive the function values of the model input")
        _cmp(ctx, np.asarray(y, dtype=float), exp, 1e-8, "model_forward_mismatch", cfg, "PDEModel.forward vs assemble-solve-observe done by hand with the reference",
             scale=max(1.0, float(np.max(np.abs(exp))) if exp.size else 1.0))
    ctx.nontrivial()
    # --- gradient
    if not out_is_1d or case["input"] != "ndarray":
        return
    for gi in range(2):       # two points on the same model: a Jacobian kept from an earlier point shows up
        del glog[:]
        p = rs.uniform(-1, 1, m) if positive else np.asarray(S["sampler"](), dtype=float).ravel()
        d = rs.standard_normal(y0.size)
        kind, g = core.outcome(model.gradient, d, p)
        expected_refusal = (jac_mode == "neither") or gk == "mapped_exp"
        if kind == "refused":
            if expected_refusal and isinstance(g, NotImplementedError):
                ctx.refused("gradient_unavailable", g); ctx.count("refusal_observed")
            else:
                ctx.violation("gradient_refused", {**cfg, "exc": type(g).__name__}, detail=repr(g))
            return
        if kind == "crashed":
            ctx.violation("gradient_crash", {**cfg, "exc": type(g).__name__}, detail=repr(g)); return
        if jac_mode == "neither":
            ctx.violation("gradient_from_nowhere", cfg, detail="PDEModel.gradient returned a value although the PDE has neither gradient_wrt_parameter nor jacobian_wrt_parameter")
            return
        F = lambda q: float(d @ np.asarray(model.forward(q), dtype=float).ravel())
        def fd(h):
            out = np.zeros(m)
            for j in range(m):
                e = np.zeros(m); e[j] = h
                out[j] = (F(p + e) - F(p - e)) / (2 * h)
            return out
        g1, g2 = fd(2e-5), fd(1e-5)
        est = float(np.max(np.abs(g1 - g2)))
        sc = max(1.0, float(np.max(np.abs(g2))))
        g = np.asarray(g, dtype=float)
        ctx.count("model_gradient_compared")
        if glog:
            ctx.count("gradient_dispatch_observed")
            seen_wrt = glog[-1][1]
            if not np.allclose(seen_wrt.ravel(), par2fun(p), rtol=1e-12, atol=0):
                ctx.violation("gradient_wrt_representation", cfg, detail="the PDE's gradient hook did not receive the function values of `wrt`")
        if g.shape != (m,):
            ctx.violation("model_gradient_mismatch", {**cfg, "stage": "shape"}, detail=f"gradient shape {g.shape}, domain dimension {m}")
            return
        if gk != "mapped_exp":
            kind2, gf = core.outcome(model.gradient, d, par2fun(p), is_wrt_par=False)
            ctx.count("model_gradient_funvals_wrt_compared")
            if kind2 != "value":
                ctx.violation("gradient_refused", {**cfg, "exc": type(gf).__name__, "wrt": "funvals"}, detail=repr(gf))
            elif not ctx.close(np.asarray(gf, dtype=float), g, rtol=1e-9, atol=1e-9 * sc):
                ctx.violation("model_gradient_mismatch", {**cfg, "wrt": "funvals"}, detail="gradient with wrt given as function values (is_wrt_par=False) differs from the one with wrt as parameters")
        if float(np.max(np.abs(g - g2))) > 1e-4 * sc + 20 * est:
            ctx.violation("model_gradient_mismatch", cfg, detail=f"gradient vs central differences of forward: max diff {np.max(np.abs(g-g2)):.3e} (fd error estimate {est:.1e}, scale {sc:.3e})",
                          witness={"got": g[:10], "fd": g2[:10]})


# --------------------------------------------------------------------------- histories on one PDEModel object
def _run_history(case, ctx, rs):
    """One PDEModel object, used the way a sampler / optimiser uses it: the caller's parameter buffer is updated in place
    between calls, observation settings of the pde are changed between two calls with equal input, the caller edits
    the returned array.  Every result is compared with assemble-solve-observe by hand for the *current* values; inputs
    must come back unchanged and arrays returned earlier must not change afterwards."""
    glog = []
    M = _setup_model(case, ctx, rs, glog, plain_range=True)
    S, pde, m, gk, positive, par2fun, ref = M["S"], M["pde"], M["m"], M["gk"], M["positive"], M["par2fun"], M["ref_pipeline"]
    model, out_is_1d, y0 = M["model"], M["out_is_1d"], M["y0"]
    scen = case["scenario"]
    cfg = {**M["cfg"], "scenario": scen}
    newp = lambda: rs.uniform(-1, 1, m) if positive else np.asarray(S["sampler"](), dtype=float).ravel()
    returned = []          # (array object, snapshot) of everything the model handed out

    def forward_checked(arg, stage):
        before = np.array(arg, copy=True)
        y = model.forward(arg)
        ctx.count("input_unchanged_checked")
        if not np.array_equal(np.asarray(arg), before):
            ctx.violation("input_mutated", {**cfg, "by": "forward"}, detail=f"{stage}: forward changed its input array in place")
        exp = ref(par2fun(before.astype(float)))
        ctx.count("history_forward_compared")
        _cmp(ctx, np.asarray(y, dtype=float), exp, 1e-8, "model_forward_stale", {**cfg, "stage": stage},
             f"{stage}: PDEModel.forward vs assemble-solve-observe by hand for the current parameter and settings",
             scale=max(1.0, float(np.max(np.abs(exp))) if exp.size else 1.0))
        if isinstance(y, np.ndarray):
            returned.append((y, np.array(y, copy=True)))
        return y

    def gradient_checked(d, arg, stage):
        b_arg, b_d = np.array(arg, copy=True), np.array(d, copy=True)
        kind, g = core.outcome(model.gradient, d, arg)
        if kind != "value":
            ctx.violation("gradient_refused", {**cfg, "exc": type(g).__name__}, detail=repr(g)); return
        ctx.count("input_unchanged_checked")
        if not (np.array_equal(arg, b_arg) and np.array_equal(d, b_d)):
            ctx.violation("input_mutated", {**cfg, "by": "gradient"}, detail=f"{stage}: gradient changed direction/wrt in place")
        J = _fd_jac(ref, par2fun(b_arg))
        g_ref = b_d @ J
        if gk == "harness_exp":
            g_ref = g_ref * 0.3 * np.exp(0.3 * b_arg)
        sc = max(1.0, float(np.max(np.abs(g_ref))))
        ctx.count("history_gradient_compared")
        if np.shape(g) != g_ref.shape or float(np.max(np.abs(np.asarray(g, dtype=float) - g_ref))) > 1e-4 * sc:
            ctx.violation("model_gradient_stale", {**cfg, "stage": stage}, detail=f"{stage}: gradient differs from the reference Jacobian product at the current point")

    def same_count_grid(x, k):
        return np.sort(rs.uniform(x[0], x[-1], k))

    if scen in ("inplace_input", "inplace_input_grad"):
        buf = newp()
        use_grad = scen == "inplace_input_grad" and out_is_1d
        d = rs.standard_normal(y0.size)
        for step in range(4):
            if step == 1:
                buf *= 1.7
            elif step == 2:
                buf[int(rs.randint(0, m))] += 0.37
            elif step == 3:
                buf[::2] *= 0.5; buf += 0.05
            forward_checked(buf, f"in-place update #{step}")
            if use_grad:
                gradient_checked(d, buf, f"in-place update #{step}")
    elif scen == "output_mutated":
        pfix = newp()
        y = forward_checked(pfix, "first call")
        if isinstance(y, np.ndarray) and y.flags.writeable and y.ndim >= 1:
            returned.pop()
            y *= 0.0
            y += 7.0
            ctx.count("returned_array_edited")
        forward_checked(pfix, "same input object after the caller edited the returned array")
        forward_checked(pfix.copy(), "equal input after the caller edited the returned array")
    else:
        pfix = newp()
        forward_checked(pfix, "before the change of settings")
        x = S["x"]
        if scen == "settings_grid_obs":
            k = len(S["grid_obs"]) if S["grid_obs"] is not None else len(x)
            g = same_count_grid(x, k)
            pde.grid_obs = g
            S["grid_obs"] = g
        elif scen == "settings_grid_sol":
            x2 = np.asarray(x, dtype=float).copy()
            x2[1:-1] += 0.3 * np.minimum(np.diff(x)[:-1], np.diff(x)[1:]) * rs.uniform(-1, 1, len(x) - 2)
            if S["grid_obs"] is None:
                S["grid_obs"] = x
            pde.grid_sol = x2
            S["x"] = x2
        elif scen == "settings_map":
            if case["map"] == "none":
                S["rec_map"], S["ref_map"] = _mk_map(rs, "square", 0)
            elif case["map"] == "square":
                S["rec_map"], S["ref_map"] = None, (lambda u: u)
            else:
                W = S["rec_map"].fn.__defaults__[0]
                W2 = rs.standard_normal(W.shape)
                f = lambda u, W=W2: W @ np.asarray(u)
                S["rec_map"], S["ref_map"] = RecCallable(f), f
            pde.observation_map = S["rec_map"]
        elif scen == "settings_method":
            other = {"forward_euler": "backward_euler", "backward_euler": "forward_euler"}[S["method"]]
            pde.method = other
            S["method"] = other
        forward_checked(pfix, "same input object after the change of settings")
        forward_checked(pfix.copy(), "equal input after the change of settings")
        if out_is_1d and scen != "settings_map":
            gradient_checked(rs.standard_normal(y0.size), pfix, "after the change of settings")
    # arrays handed out earlier must not change behind the caller's back
    for arr, snap in returned:
        ctx.count("returned_array_stability_checked")
        if not np.array_equal(arr, snap, equal_nan=True):
            ctx.violation("returned_array_overwritten", cfg, detail="an array returned by an earlier forward call changed during later calls")
            break
    ctx.nontrivial()


# --------------------------------------------------------------------------- shipped PDE objects
def _run_shipped(case, ctx, rs):
    import cuqi
    cfg = _cfg(case)
    prob = case["problem"]
    dim = int(rs.randint(7, 15))
    kw = {}
    if case["field"] == "step":
        kw.update(field_type="Step", field_params={"n_steps": 3})
    elif case["field"] == "mapped":
        kw.update(map=lambda v: np.exp(0.2 * v), imap=lambda f: np.log(f) / 0.2)
    if case["obsgrid"] == "subset":
        sel = np.sort(rs.choice(dim - 1, int(rs.randint(2, dim - 2)), replace=False))
        kw.update(observation_grid_map=lambda g, sel=sel: g[sel[sel < len(g)]])
    elif case["obsgrid"] == "single":
        one = int(rs.randint(0, dim - 1))
        kw.update(observation_grid_map=lambda g, one=one: g[[min(one, len(g) - 1)]])
    positive = prob == "Poisson1D" and case["field"] != "mapped"
    if prob == "Heat1D":
        endpoint = float(rs.choice([1.0, 2.0]))
        tp = cuqi.testproblem.Heat1D(dim=dim, endpoint=endpoint, max_time=endpoint ** 2 * float(rs.choice([0.05, 0.1])), **kw)
    else:
        tp = cuqi.testproblem.Poisson1D(dim=dim, endpoint=float(rs.choice([1.0, 3.0])), **kw)
    model = tp.model
    pde = model.pde
    orig = pde.PDE_form
    rec = RecCallable(orig)
    pde.PDE_form = rec
    m = model.domain_dim
    for rep in range(2):
        p = rs.uniform(0.5, 2.0, m) if positive else rs.standard_normal(m)
        fun = np.asarray(model.domain_geometry.par2fun(p), dtype=float)
        y = np.asarray(model.forward(p), dtype=float)
        ident = lambda u: u
        ctx.count("model_output_dimension_checked")
        if y.shape != (model.range_dim,):
            ctx.violation("model_forward_mismatch_shape", {**cfg, "stage": "range_dim"}, detail=f"model output shape {y.shape}, range geometry dimension {model.range_dim}")
        kind_l, val_l = core.outcome(tp.likelihood.logd, p, refusal=())
        ctx.count("shipped_likelihood_evaluated")
        if kind_l != "value" or not np.isfinite(float(np.ravel(val_l)[0])):
            ctx.violation("likelihood_unusable", cfg, detail=f"likelihood.logd on the problem's own data: {type(val_l).__name__}: {core.short(str(val_l), 200)}")
        if prob == "Heat1D":
            pde.assemble(fun)
            f0 = len(rec.calls)
            U, info = pde.solve()
            S = dict(ts=np.asarray(pde.time_steps, dtype=float), method=pde.method, x=np.asarray(pde.grid_sol, dtype=float),
                     grid_obs=np.asarray(pde.grid_obs, dtype=float), tobs=np.asarray(pde._time_obs, dtype=float), rec_map=None, ref_map=ident, kwargs={})
            U = _judge_time_solution(ctx, S, fun, U, info, cfg, rec.calls[f0:], None,
                                     op=lambda t: orig(fun, t)[0], src=lambda t: orig(fun, t)[1], ic=orig(fun, S["ts"][0])[2])
            if U is None:
                return
            obs = pde.observe(U)
            _judge_time_observation(ctx, S, U, obs, cfg)
            exp = _ref_observe_time(U, S["x"], S["grid_obs"], S["ts"], S["tobs"], ident)[1]
        else:
            pde.assemble(fun)
            u, info = pde.solve()
            A, b = orig(fun)
            A, b = _dense(A), np.asarray(b, dtype=float).ravel()
            u = np.asarray(u, dtype=float)
            res = float(np.abs(A @ u - b).max()); sc = float(np.abs(A).sum(axis=1).max() * np.abs(u).max() + np.abs(b).max())
            ctx.count("steady_residual_checked")
            if res > 1e-7 * sc:
                ctx.violation("steady_residual", cfg, detail=f"residual {res:.3e} on scale {sc:.3e}")
            S = dict(x=np.asarray(pde.grid_sol, dtype=float), grid_obs=np.asarray(pde.grid_obs, dtype=float), rec_map=None, ref_map=ident)
            obs = pde.observe(u)
            _judge_steady_observation(ctx, S, u, obs, cfg)
            exp = _ref_observe_steady(u, S["x"], S["grid_obs"], ident)[1]
        ctx.count("model_forward_compared")
        _cmp(ctx, y, np.asarray(exp, dtype=float), 1e-8, "model_forward_mismatch", cfg, "shipped model forward vs assemble-solve-observe by hand",
             scale=max(1.0, float(np.max(np.abs(exp)))))
    ctx.nontrivial()


# --------------------------------------------------------------------------- misc
def _run_misc(case, ctx, rs):
    import cuqi
    if case["what"] == "method_spelling":
        sp = case["method"]
        n = 5
        ts = _mk_time_grid(rs, "nonuniform", nt=6)
        form_pure, sampler, m = _time_problem(rs, "ic_par", n, symmetric=False)
        rec_form = RecCallable(form_pure)
        kind, pde = core.outcome(cuqi.pde.TimeDependentLinearPDE, rec_form, ts.copy(), method=sp)
        valid = sp.lower() in METHODS
        if kind != "value":
            if kind == "refused" and not valid:
                ctx.refused("invalid_method", pde); ctx.count("refusal_observed"); ctx.nontrivial()
            elif kind == "refused":
                ctx.refused("method_spelling", pde); ctx.count("refusal_observed")
            else:
                ctx.violation("construct_crash", {"what": "method_spelling", "exc": type(pde).__name__}, detail=repr(pde))
            return
        if not valid:
            ctx.violation("invalid_method_accepted", {"what": "method_spelling"}, detail=f"method={sp!r} was accepted")
            return
        p = sampler()
        pde.assemble(p)
        kind, out = core.outcome(pde.solve)
        if kind == "refused":
            ctx.refused("method_spelling_solve", out); ctx.count("refusal_observed"); return
        if kind == "crashed":
            ctx.violation("solve_crash", {"pde": "time", "method_spelling": "not_lowercase", "exc": type(out).__name__},
                          detail=f"method={sp!r} is accepted by the constructor, solve() then raises {type(out).__name__}: {out}")
            return
        U, info = out
        S = dict(ts=ts, method=sp.lower(), form_pure=form_pure, kwargs={})
        _judge_time_solution(ctx, S, p, U, info, {"what": "method_spelling", "method_spelling": "not_lowercase"}, rec_form.calls, None)
        ctx.nontrivial()
        return
    if case["what"] == "solution_3d":
        # solutions with two space dimensions: final time without interpolation is the last slice, anything that
        # needs interpolation is refused with the documented ValueError
        n1, n2 = int(rs.randint(2, 5)), int(rs.randint(2, 5))
        ts = _mk_time_grid(rs, "nonuniform", nt=int(rs.randint(4, 8)))
        tobs_lib, tobs = _mk_time_obs(rs, ts, case["tobs"])
        x = _mk_grid(rs, n1)
        rec_map, ref_map = _mk_map(rs, "square", n1)
        pde = cuqi.pde.TimeDependentLinearPDE(lambda *a: None, ts.copy(), time_obs=tobs_lib, grid_sol=None if case["grid"] == "none" else x, observation_map=rec_map)
        U = rs.standard_normal((n1, n2, len(ts)))
        kind, obs = core.outcome(pde.observe, U)
        direct = len(tobs) == 1 and tobs[0] == ts[-1]
        cfg = {"what": "solution_3d", "tobs": case["tobs"]}
        if direct:
            if kind != "value":
                ctx.violation("observe_crash", {**cfg, "exc": type(obs).__name__}, detail=repr(obs)); return
            ctx.count("observation_compared")
            _cmp(ctx, obs, ref_map(U[..., -1]), 1e-12, "observation_mismatch", {**cfg, "stage": "final"}, "3D solution, final time, no interpolation")
            ctx.nontrivial()
        elif kind == "refused" and isinstance(obs, ValueError):
            ctx.refused("observe_3d_interpolation", obs); ctx.count("refusal_observed"); ctx.nontrivial()
        elif kind == "value":
            ctx.violation("observe_3d_not_refused", cfg, detail=f"observe() of a {U.shape} solution needing interpolation returned a value of shape {np.shape(obs)} instead of the documented ValueError")
        else:
            ctx.violation("observe_crash", {**cfg, "exc": type(obs).__name__}, detail=repr(obs))
        return
    # short grids
    axis, npts = case["axis"], case["npts"]
    n = npts if axis == "space" else int(rs.randint(4, 9))
    nt = npts if axis == "time" else int(rs.randint(4, 9))
    ts = _mk_time_grid(rs, "nonuniform", nt=nt)
    sub = {"form": "ic_par", "fmt": "dense", "method": case["method"], "solver": "own", "tgrid": "nonuniform",
           "grid": "offnode" if case["tobs"] == "final_offgrid" else "sol_only",
           "tobs": {"all": "all", "on_nodes": "on_nodes", "final_offgrid": "final"}[case["tobs"]], "map": "none"}
    S = _build_time_pde(ctx, rs, sub, n=n, ts=ts)
    pde = S["pde"]
    p = S["sampler"]()
    pde.assemble(p)
    U, info = pde.solve()
    cfg = {"what": "short_grid", "axis": axis, "method": case["method"]}
    U = _judge_time_solution(ctx, S, p, U, info, cfg, S["rec_form"].calls, S["solver"].calls)
    if U is None:
        return
    obs = _observe_time_classified(ctx, S, U, cfg)
    if obs is not None:
        _judge_time_observation(ctx, S, U, obs, cfg)
    ctx.count("short_grid_observed")


# --------------------------------------------------------------------------- entry points
def run_case(case, ctx):
    rs = core.np_rng(ctx.seed, PROPERTY, core.canon(case))
    k = case["kind"]
    if k == "steady":
        _run_steady(case, ctx, rs)
    elif k == "time":
        _run_time(case, ctx, rs)
    elif k == "observe":
        _run_observe(case, ctx, rs)
    elif k == "model":
        _run_model(case, ctx, rs)
    elif k == "history":
        _run_history(case, ctx, rs)
    elif k == "shipped":
        _run_shipped(case, ctx, rs)
    elif k == "misc":
        _run_misc(case, ctx, rs)
    else:
        raise ValueError(k)


def selftest(ctx):
    for msg in R.selftest():
        ctx.inconclusive(msg)
